//! C19: topology views of module graphs built with the real `des::net` builder API.
//!
//! Script lines (build part as in c08):
//!   mod m<i> [parent=m<k>]     module `m<i>`, top level or as a child of an already created module (path parent.m<i>);
//!                              modules appear in answers by their last path segment
//!   gate g<j> mod=m<i>
//!   connect g<a> g<b>
//!   topo                       Globals::topology(): nodes, edges, connected, bidirectional
//!   spanned m<i>               Topology::spanned(m<i>): same observations
//!   dijkstra m<i>              Globals::topology().dijkstra(m<i>)
//!   sdijkstra m<r> m<i>        Topology::spanned(m<r>).dijkstra(m<i>)
//!   filter m<a>,m<b>,…|none    topology().filter_nodes(keep exactly those): nodes, edges, connected, bidirectional
//!   edgesfor m<i>              topology().edges_for(m<i>)
//!   fedges <view> <rule>       view.filter_edges(rule), then nodes / edges / connected / bidirectional
//!   fdijkstra <view> <rule> m<i>   … then dijkstra(m<i>) on the filtered view
//!   fedgesfor <view> <rule> m<i>   … then edges_for(m<i>) on the filtered view
//!        <view> = topo | sp:m<r> (Topology::spanned(m<r>))
//!        <rule> (what the predicate keeps; from/to = module numbers of the edge's two nodes):
//!               lt (from < to) | gt (from > to) | succ:<n> (to == (from+1) % n) | starts:g1,g5,…|starts:none (start gate listed)
//!   run-time ops (the simulation is run if there are any; module m<k> executes the op from `handle_message` at time <t>):
//!   rgate g<j> at=<t> by=m<k>          m<k> creates the gate g<j> on itself
//!   rconnect g<a> g<b> at=<t> by=m<k>  m<k> connects the two gates
//!   rtopo at=<t> by=m<k>               m<k> records Topology::current()
//!   rspanned m<r> at=<t> by=m<k>       m<k> records Topology::spanned(m<r>)
//! Transcript answers:
//!   nodes=m0,m1 edges=m0:g1>m1:g4;… conn=<0|1> bidi=<0|1>      (an edge is from-node:start-gate > to-node:end-gate)
//!   dijkstra … -> m2=m1:g1>m0:g3;…|none                          (sorted by module)
//!   panic                                                         (the call panicked)
use crate::rng::Rng;
use crate::util::{cases, guarded, hval};
use des::net::topology::Edge;
use des::prelude::*;
use std::collections::HashMap;
use std::fmt::Write;

type Rev = HashMap<(String, String, usize), String>;

thread_local! {
    static REV: std::cell::RefCell<Rev> = std::cell::RefCell::new(HashMap::new());
    static GATES: std::cell::RefCell<HashMap<String, GateRef>> = std::cell::RefCell::new(HashMap::new());
    static PATHS: std::cell::RefCell<HashMap<String, String>> = std::cell::RefCell::new(HashMap::new());
    static RUNRES: std::cell::RefCell<Vec<(u16, String)>> = std::cell::RefCell::new(Vec::new());
}

const RUNOP: MessageKind = 7790;

#[derive(Clone, Debug)]
struct RunOp {
    idx: u16,
    at: u64,
    toks: Vec<String>,
}

struct Node {
    ops: Vec<RunOp>,
}

impl Node {
    fn exec(&self, op: &RunOp) -> String {
        let t: Vec<&str> = op.toks.iter().map(|s| s.as_str()).collect();
        match t.as_slice() {
            ["rgate", g, ..] => {
                let gr = current().me().create_gate(g);
                let owner = current().path().as_str().to_string();
                REV.with(|r| r.borrow_mut().insert((owner, gr.name().to_string(), gr.pos()), g.to_string()));
                GATES.with(|m| m.borrow_mut().insert(g.to_string(), gr));
                "ok".into()
            }
            ["rconnect", a, b, ..] => {
                let pair = GATES.with(|m| (m.borrow().get(*a).cloned(), m.borrow().get(*b).cloned()));
                match pair {
                    (Some(ga), Some(gb)) => {
                        use des::net::gate::GateKind;
                        if a == b || ga.kind() == GateKind::Transit || gb.kind() == GateKind::Transit {
                            "skipped".into()
                        } else {
                            ga.connect(gb, None);
                            "ok".into()
                        }
                    }
                    _ => "nogate".into(),
                }
            }
            ["rtopo", ..] => REV.with(|r| describe(&r.borrow(), &Topology::current())),
            ["rspanned", m, ..] => {
                let path = PATHS.with(|p| p.borrow().get(*m).cloned());
                match path.and_then(|p| des::net::globals().get(&p.as_str().into())) {
                    Some(root) => REV.with(|r| describe(&r.borrow(), &Topology::spanned(root))),
                    None => "nomod".into(),
                }
            }
            _ => "?".into(),
        }
    }
}

impl Module for Node {
    fn at_sim_start(&mut self, _stage: usize) {
        for op in &self.ops {
            schedule_in(Message::default().kind(RUNOP).id(op.idx), Duration::from_nanos(op.at));
        }
    }
    fn handle_message(&mut self, msg: Message) {
        if msg.header().kind == RUNOP {
            let id = msg.header().id;
            if let Some(op) = self.ops.iter().find(|o| o.idx == id).cloned() {
                let r = self.exec(&op);
                RUNRES.with(|v| v.borrow_mut().push((id, r)));
            }
        }
    }
}

/// last segment of a module path: the script name of the module
fn leaf(p: &str) -> &str {
    p.rsplit('.').next().unwrap_or(p)
}

fn gname(rev: &Rev, g: &GateRef) -> String {
    rev.get(&(g.owner().path().as_str().to_string(), g.name().to_string(), g.pos()))
        .cloned()
        .unwrap_or_else(|| "?".to_string())
}

fn edge_str<N, C>(rev: &Rev, e: &Edge<'_, N, C>) -> String {
    format!(
        "{}:{}>{}:{}",
        leaf(e.from.module().path().as_str()),
        gname(rev, &e.from.gate()),
        leaf(e.to.module().path().as_str()),
        gname(rev, &e.to.gate())
    )
}

fn list_or(e: &str, v: Vec<String>, sep: &str) -> String {
    if v.is_empty() {
        e.to_string()
    } else {
        v.join(sep)
    }
}

fn describe(rev: &Rev, t: &Topology<(), ()>) -> String {
    let nodes: Vec<String> = t.nodes().iter().map(|n| leaf(n.module().path().as_str()).to_string()).collect();
    let edges: Vec<String> = t.edges().map(|e| edge_str(rev, &e)).collect();
    format!(
        "nodes={} edges={} conn={} bidi={}",
        list_or("none", nodes, ","),
        list_or("none", edges, ";"),
        t.connected() as u8,
        t.bidirectional() as u8
    )
}

fn mod_index(m: &str) -> u64 {
    leaf(m).trim_start_matches('m').parse().unwrap_or(u64::MAX)
}

fn dijkstra_str(rev: &Rev, t: &Topology<(), ()>, src: &str) -> String {
    let map = t.dijkstra(src);
    let mut v: Vec<(u64, String)> = map
        .iter()
        .map(|(k, e)| (mod_index(k.as_str()), format!("{}={}", leaf(k.as_str()), edge_str(rev, e))))
        .collect();
    v.sort();
    list_or("none", v.into_iter().map(|x| x.1).collect(), ";")
}

enum Rule {
    Lt,
    Gt,
    Succ(u64),
    Starts(Vec<String>),
}

fn parse_rule(r: &str) -> Option<Rule> {
    if r == "lt" {
        Some(Rule::Lt)
    } else if r == "gt" {
        Some(Rule::Gt)
    } else if let Some(n) = r.strip_prefix("succ:") {
        n.parse().ok().filter(|n| *n > 0).map(Rule::Succ)
    } else if let Some(l) = r.strip_prefix("starts:") {
        Some(Rule::Starts(if l == "none" { vec![] } else { l.split(',').map(|x| x.to_string()).collect() }))
    } else {
        None
    }
}

fn keeps<N, C>(rule: &Rule, rev: &Rev, e: &Edge<'_, N, C>) -> bool {
    let from = mod_index(e.from.module().path().as_str());
    let to = mod_index(e.to.module().path().as_str());
    match rule {
        Rule::Lt => from < to,
        Rule::Gt => from > to,
        Rule::Succ(n) => to == (from + 1) % n,
        Rule::Starts(l) => l.contains(&gname(rev, &e.from.gate())),
    }
}

fn run_case(header: &str, body: &[String], out: &mut String) {
    writeln!(out, "{header}").unwrap();
    if std::env::var("HX_PANIC_MSG").is_err() {
        std::panic::set_hook(Box::new(|_| {}));
    }
    let mut sim = Sim::new(());
    let mut mods: Vec<String> = Vec::new();
    let mut paths: HashMap<String, String> = HashMap::new();
    let mut gates: HashMap<String, GateRef> = HashMap::new();
    let mut rev: Rev = HashMap::new();
    let mut poisoned = false;
    // run-time ops, by executing module
    let mut run_ops: HashMap<String, Vec<RunOp>> = HashMap::new();
    let mut run_lines: Vec<(u64, u16, String)> = Vec::new();
    for line in body {
        let tok: Vec<&str> = line.split_whitespace().collect();
        if matches!(tok.first(), Some(&"rgate") | Some(&"rconnect") | Some(&"rtopo") | Some(&"rspanned")) {
            let l = line.as_str();
            if let (Some(at), Some(by)) = (hval(l, "at").and_then(|v| v.parse::<u64>().ok()), hval(l, "by")) {
                let idx = run_lines.len() as u16;
                run_ops.entry(by).or_default().push(RunOp { idx, at, toks: tok.iter().map(|x| x.to_string()).collect() });
                run_lines.push((at, idx, line.clone()));
            }
        }
    }
    let mut build_out = String::new();
    for line in body {
        let out = &mut build_out;
        let tok: Vec<&str> = line.split_whitespace().collect();
        let pp = |paths: &HashMap<String, String>, m: &str| paths.get(m).cloned().unwrap_or_else(|| m.to_string());
        let ans: Option<String> = match tok.as_slice() {
            ["mod", m, rest @ ..] => {
                let parent = hval(&rest.join(" "), "parent");
                let path = match &parent {
                    Some(p) => paths.get(p).map(|pp| format!("{pp}.{m}")),
                    None => Some(m.to_string()),
                };
                match path {
                    Some(path) if !mods.contains(&m.to_string()) => {
                        let node = Node { ops: run_ops.get(*m).cloned().unwrap_or_default() };
                        if guarded(|| sim.node(path.as_str(), node)).is_ok() {
                            mods.push(m.to_string());
                            paths.insert(m.to_string(), path);
                            Some("ok".into())
                        } else {
                            None
                        }
                    }
                    _ => None,
                }
            }
            ["gate", g, rest @ ..] => {
                let l = rest.join(" ");
                match hval(&l, "mod") {
                    Some(m) if mods.contains(&m) && !gates.contains_key(*g) => {
                        let mp = pp(&paths, &m);
                        match guarded(|| sim.gate(mp.as_str(), g)) {
                            Ok(gr) => {
                                rev.insert((mp.clone(), gr.name().to_string(), gr.pos()), g.to_string());
                                gates.insert(g.to_string(), gr);
                                Some("ok".into())
                            }
                            Err(_) => None,
                        }
                    }
                    _ => None,
                }
            }
            ["connect", a, b] => match (gates.get(*a).cloned(), gates.get(*b).cloned()) {
                (Some(ga), Some(gb)) if !poisoned => {
                    let r = guarded(move || ga.connect(gb, None));
                    if r.is_err() && a != b {
                        // panic while both gate mutexes are held: the gates are unusable afterwards
                        poisoned = true;
                    }
                    Some(if r.is_ok() { "ok".into() } else { "panic".into() })
                }
                _ => None,
            },
            _ if poisoned => None,
            ["topo"] => Some(guarded(|| describe(&rev, &sim.globals().topology())).unwrap_or_else(|_| "panic".into())),
            ["spanned", m] if mods.contains(&m.to_string()) => Some(
                guarded(|| {
                    let root = sim.get(&pp(&paths, m).as_str().into()).expect("module");
                    describe(&rev, &Topology::spanned(root))
                })
                .unwrap_or_else(|_| "panic".into()),
            ),
            ["dijkstra", m] if mods.contains(&m.to_string()) => {
                Some(guarded(|| dijkstra_str(&rev, &sim.globals().topology(), &pp(&paths, m))).unwrap_or_else(|_| "panic".into()))
            }
            ["sdijkstra", r, m] if mods.contains(&r.to_string()) && mods.contains(&m.to_string()) => Some(
                guarded(|| {
                    let root = sim.get(&pp(&paths, r).as_str().into()).expect("module");
                    dijkstra_str(&rev, &Topology::spanned(root), &pp(&paths, m))
                })
                .unwrap_or_else(|_| "panic".into()),
            ),
            ["filter", keep] => {
                let keep: Vec<String> = if *keep == "none" { vec![] } else { keep.split(',').map(|s| s.to_string()).collect() };
                Some(
                    guarded(|| {
                        let mut t = sim.globals().topology();
                        t.filter_nodes(|n| keep.contains(&leaf(n.module().path().as_str()).to_string()));
                        describe(&rev, &t)
                    })
                    .unwrap_or_else(|_| "panic".into()),
                )
            }
            ["fedges", view, rule] | ["fdijkstra", view, rule, _] | ["fedgesfor", view, rule, _] => {
                let Some(rule) = parse_rule(rule) else { continue };
                let root = match view.strip_prefix("sp:") {
                    Some(r) => {
                        if !mods.contains(&r.to_string()) {
                            continue;
                        }
                        Some(r.to_string())
                    }
                    None => None,
                };
                let arg = tok.get(3).map(|x| x.to_string());
                if tok[0] == "fdijkstra" && !arg.as_ref().map(|m| mods.contains(m)).unwrap_or(false) {
                    continue;
                }
                let op = tok[0].to_string();
                Some(
                    guarded(|| {
                        let mut t = match &root {
                            Some(r) => Topology::spanned(sim.get(&pp(&paths, r).as_str().into()).expect("module")),
                            None => sim.globals().topology(),
                        };
                        t.filter_edges(|e| keeps(&rule, &rev, &e));
                        match op.as_str() {
                            "fedges" => describe(&rev, &t),
                            "fdijkstra" => dijkstra_str(&rev, &t, &pp(&paths, arg.as_ref().unwrap())),
                            _ => {
                                let v: Vec<String> = t.edges_for(pp(&paths, arg.as_ref().unwrap()).as_str()).map(|e| edge_str(&rev, &e)).collect();
                                list_or("none", v, ";")
                            }
                        }
                    })
                    .unwrap_or_else(|_| "panic".into()),
                )
            }
            ["edgesfor", m] => Some(
                guarded(|| {
                    let t = sim.globals().topology();
                    let v: Vec<String> = t.edges_for(pp(&paths, m).as_str()).map(|e| edge_str(&rev, &e)).collect();
                    list_or("none", v, ";")
                })
                .unwrap_or_else(|_| "panic".into()),
            ),
            _ => None,
        };
        if let Some(a) = ans {
            writeln!(out, "{line} -> {a}").unwrap();
        }
    }
    out.push_str(&build_out);
    let mut note = "";
    if run_lines.is_empty() || poisoned {
        let r = guarded(move || drop(sim));
        if r.is_err() {
            note = " drop-panic";
        }
    } else {
        // run the simulation: the modules execute their run-time ops
        REV.with(|r| *r.borrow_mut() = rev.clone());
        GATES.with(|g| *g.borrow_mut() = gates.clone());
        PATHS.with(|p| *p.borrow_mut() = paths.clone());
        RUNRES.with(|v| v.borrow_mut().clear());
        let rt = Builder::seeded(1).quiet().max_time(1000.0.into()).build(sim.freeze());
        let res = guarded(move || rt.run().map(|_| ()).map_err(|e| format!("{e}")));
        match res {
            Ok(Ok(())) => {}
            Ok(Err(_)) => note = " run-error",
            Err(_) => note = " run-panic",
        }
        run_lines.sort();
        let results = RUNRES.with(|v| v.borrow().clone());
        for (_, idx, line) in &run_lines {
            if let Some((_, r)) = results.iter().find(|x| x.0 == *idx) {
                writeln!(out, "{line} -> {r}").unwrap();
            }
        }
        GATES.with(|g| g.borrow_mut().clear());
        REV.with(|r| r.borrow_mut().clear());
    }
    writeln!(out, "end{note}").unwrap();
}

pub fn exec(input: &str) -> String {
    let mut out = String::new();
    for (header, body) in cases(input) {
        run_case(&header, &body, &mut out);
    }
    out
}

pub fn gen(seed: u64, count: usize, thorough: bool) -> String {
    let mut r = Rng::new(seed);
    let mut out = String::new();
    for k in 0..count {
        let nmods = r.range(1, if thorough { 9 } else { 7 }) as usize;
        let shape = r.below(6);
        writeln!(out, "case {k} shape={shape}").unwrap();
        // module tree: in half of the cases a module may become a child of any earlier module, whatever was
        // created in between (children after later siblings / uncles: ModuleTree order != creation order)
        let tree = r.chance(1, 2);
        for m in 0..nmods {
            if tree && m > 0 && r.chance(3, 5) {
                writeln!(out, "mod m{m} parent=m{}", r.below(m as u64)).unwrap();
            } else {
                writeln!(out, "mod m{m}").unwrap();
            }
        }
        // module pairs to link
        let mut pairs: Vec<(usize, usize)> = Vec::new();
        match shape {
            0 => {
                // tree: every module hangs off an earlier one
                for m in 1..nmods {
                    pairs.push((r.below(m as u64) as usize, m));
                }
            }
            1 => {
                // star
                let c = r.below(nmods as u64) as usize;
                for m in 0..nmods {
                    if m != c {
                        pairs.push((c, m));
                    }
                }
            }
            2 => {
                // ring (+ chords)
                for m in 0..nmods {
                    pairs.push((m, (m + 1) % nmods));
                }
                for _ in 0..r.below(3) {
                    pairs.push((r.below(nmods as u64) as usize, r.below(nmods as u64) as usize));
                }
            }
            3 => {
                // two components
                let cut = r.range(1, nmods as u64) as usize;
                for m in 1..cut {
                    pairs.push((r.below(m as u64) as usize, m));
                }
                for m in cut + 1..nmods {
                    pairs.push((r.range(cut as u64, m as u64 - 1) as usize, m));
                }
                for _ in 0..r.below(3) {
                    let a = r.below(cut as u64) as usize;
                    let b = r.below(cut as u64) as usize;
                    pairs.push((a, b));
                }
            }
            _ => {
                // random multigraph (self loops and parallel links included)
                for _ in 0..r.below(2 * nmods as u64 + 2) {
                    pairs.push((r.below(nmods as u64) as usize, r.below(nmods as u64) as usize));
                }
            }
        }
        for i in (1..pairs.len()).rev() {
            let j = r.below(i as u64 + 1) as usize;
            pairs.swap(i, j);
        }
        let mut g = 0usize;
        // the last one or two links are made while the simulation runs (in a third of the cases)
        let nrun = if r.chance(1, 3) { (r.range(1, 2) as usize).min(pairs.len()) } else { 0 };
        let nbuild = pairs.len() - nrun;
        let run_pairs: Vec<(usize, usize)> = pairs[nbuild..].to_vec();
        let pairs: Vec<(usize, usize)> = pairs[..nbuild].to_vec();
        let npairs = pairs.len();
        for (pi, (a, b)) in pairs.into_iter().enumerate() {
            // the global view is extracted several times while the network is wired
            if npairs >= 2 && pi > 0 && r.chance(1, 3) {
                writeln!(out, "topo").unwrap();
                if r.chance(1, 2) {
                    writeln!(out, "spanned m{}", r.below(nmods as u64)).unwrap();
                }
                if r.chance(1, 3) {
                    writeln!(out, "dijkstra m{}", r.below(nmods as u64)).unwrap();
                }
            }
            // a chain from a gate on `a` to a gate on `b` through 0.. transit gates on arbitrary modules
            let transit = match r.below(10) {
                0..=5 => 0,
                6 | 7 => r.range(1, 3),
                8 => r.range(4, 9),
                _ => 15, // 16 hops: the longest chain from_modules follows
            } as usize;
            let (x, y) = if r.chance(1, 2) { (a, b) } else { (b, a) };
            let mut chain = Vec::new();
            writeln!(out, "gate g{g} mod=m{x}").unwrap();
            chain.push(g);
            g += 1;
            for _ in 0..transit {
                writeln!(out, "gate g{g} mod=m{}", r.below(nmods as u64)).unwrap();
                chain.push(g);
                g += 1;
            }
            writeln!(out, "gate g{g} mod=m{y}").unwrap();
            chain.push(g);
            g += 1;
            let mut links: Vec<(usize, usize)> = chain.windows(2).map(|w| if r.chance(1, 2) { (w[0], w[1]) } else { (w[1], w[0]) }).collect();
            for i in (1..links.len()).rev() {
                let j = r.below(i as u64 + 1) as usize;
                links.swap(i, j);
            }
            for (p, q) in links {
                writeln!(out, "connect g{p} g{q}").unwrap();
            }
            if r.chance(1, 10) {
                // a standalone gate somewhere
                writeln!(out, "gate g{g} mod=m{}", r.below(nmods as u64)).unwrap();
                g += 1;
            }
        }
        writeln!(out, "topo").unwrap();
        for m in 0..nmods {
            if nmods <= 4 || r.chance(2, 3) {
                writeln!(out, "spanned m{m}").unwrap();
            }
            if r.chance(1, 2) {
                writeln!(out, "dijkstra m{m}").unwrap();
            }
            if r.chance(1, 3) {
                writeln!(out, "sdijkstra m{} m{m}", r.below(nmods as u64)).unwrap();
            }
            if r.chance(1, 4) {
                writeln!(out, "edgesfor m{m}").unwrap();
            }
        }
        // direction-dependent edge filters: asymmetric views
        for _ in 0..r.range(2, 4) {
            let view = if r.chance(3, 5) { "topo".to_string() } else { format!("sp:m{}", r.below(nmods as u64)) };
            let rule = match r.below(6) {
                0 => "lt".to_string(),
                1 => "gt".to_string(),
                2 => format!("succ:{nmods}"),
                _ => {
                    let l: Vec<String> = (0..g).filter(|_| r.chance(1, 2)).map(|x| format!("g{x}")).collect();
                    format!("starts:{}", if l.is_empty() { "none".to_string() } else { l.join(",") })
                }
            };
            writeln!(out, "fedges {view} {rule}").unwrap();
            if r.chance(1, 2) {
                writeln!(out, "fdijkstra {view} {rule} m{}", r.below(nmods as u64)).unwrap();
            }
            if r.chance(1, 4) {
                writeln!(out, "fedgesfor {view} {rule} m{}", r.below(nmods as u64)).unwrap();
            }
        }
        for _ in 0..r.range(1, 3) {
            let keep: Vec<String> = (0..nmods).filter(|_| r.chance(2, 3)).map(|m| format!("m{m}")).collect();
            writeln!(out, "filter {}", if keep.is_empty() { "none".to_string() } else { keep.join(",") }).unwrap();
        }
        // run time: modules record the views, create gates, wire further links and record again
        if nrun > 0 {
            let mut t = 10u64;
            let by = |r: &mut Rng| r.below(nmods as u64);
            writeln!(out, "rtopo at={t} by=m{}", by(&mut r)).unwrap();
            t += 10;
            for (a, b) in run_pairs {
                // each module creates its own new gate, then some module connects them
                writeln!(out, "rgate g{g} at={t} by=m{a}").unwrap();
                t += 10;
                writeln!(out, "rgate g{} at={t} by=m{b}", g + 1).unwrap();
                t += 10;
                if r.chance(1, 3) {
                    writeln!(out, "rtopo at={t} by=m{}", by(&mut r)).unwrap();
                    t += 10;
                }
                if r.chance(1, 2) {
                    writeln!(out, "rconnect g{g} g{} at={t} by=m{}", g + 1, by(&mut r)).unwrap();
                } else {
                    writeln!(out, "rconnect g{} g{g} at={t} by=m{}", g + 1, by(&mut r)).unwrap();
                }
                t += 10;
                g += 2;
                writeln!(out, "rtopo at={t} by=m{}", by(&mut r)).unwrap();
                t += 10;
                if r.chance(2, 3) {
                    writeln!(out, "rspanned m{} at={t} by=m{}", r.below(nmods as u64), by(&mut r)).unwrap();
                    t += 10;
                }
            }
        }
        writeln!(out, "end").unwrap();
    }
    out
}

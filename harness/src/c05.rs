//! C05: scripted timer programs on real des simulations (feature `async`).
//!
//! A case is `case <id> mods=<k>` followed by task lines and a final `fin` line:
//!
//!   t <mod> <task> <expr>     append <expr> to the program of task <task> of module m<mod>
//!   fin                       end of simulation: final time, unfinished joins per module
//!
//! All tasks of a module are spawned (`tokio::spawn`, or `tokio::task::spawn_local` when the task tag
//! starts with a lower-case letter, + `current().join`) in `at_sim_start`, i.e. at time 0 and again
//! after every restart of the module. A task runs its lines in order.
//! `<expr>` is a prefix term (fixed arities, all numbers decimal nanoseconds):
//!
//!   nop                         nothing
//!   forever                     des::time::sleep(Duration::MAX).await  (deadline SimTime::MAX: never fires)
//!   sleep D                     des::time::sleep(D).await                      obs `s`
//!   until T                     des::time::sleep_until(T).await   (absolute)   obs `s`
//!   timeout D E                 des::time::timeout(D, E).await                 obs `ok` | `el`
//!   select E E                  tokio::select!{ biased; E0, E1 }; losers dropped  obs `w0` | `w1`
//!   seq E E                     E0 then E1
//!   new X D | newu X T          named pinned Sleep X (deadline now+D | T), not polled
//!   poll X                      poll X exactly once                            obs `rdy` | `pnd` | `mis`
//!   reset X D | resetu X T      X.reset(now+D | T)
//!   drop X                      drop the named Sleep / Interval
//!   await X                     (&mut X).await                                 obs `a` | `mis`
//!   inew X P M D                X = interval_at(now+D, P) with MissedTickBehavior M in burst|delay|skip
//!   tick X                      poll_fn(|cx| X.poll_tick(cx)).await (= X.tick().await)  obs `k<returned instant>` | `mis`
//!   ireset X                    X.reset()
//!   restart D                   first incarnation only: current().shutdow_and_restart_in(D)
//!   halt                        current().shutdown()
//!
//! Observations are appended to the line that produced them: `<incarnation>.<obs>@<SimTime::now() ns>`.
//! Transcript: `t … -> <obs> <obs> …` (`-` if none) and
//! `fin -> time=<ns> unfinished=<n0>,<n1>,… cancelled=<n0>,… errs=<other errors>`: per module the number of
//! `JoinError`s `NotFinished` (task still pending at the end) and `Tokio(cancelled)` (task of a shut-down incarnation).
use crate::rng::Rng;
use crate::util::{cases, guarded, hval};
use des::net::module::Module;
use des::net::JoinError;
use des::prelude::*;
use des::time::{self, Interval, MissedTickBehavior, Sleep};
use std::collections::{BTreeMap, HashMap};
use std::fmt::Write;
use std::future::{poll_fn, Future};
use std::pin::Pin;
use std::sync::atomic::{AtomicUsize, Ordering};
use std::sync::{Arc, Mutex};
use std::task::Poll;
use std::time::Duration;

#[derive(Clone, Debug)]
enum E {
    Nop,
    Forever,
    Sleep(u64),
    Until(u64),
    Timeout(u64, Box<E>),
    Select(Box<E>, Box<E>),
    Seq(Box<E>, Box<E>),
    New(String, u64),
    NewU(String, u64),
    PollOnce(String),
    Reset(String, u64),
    ResetU(String, u64),
    Drop(String),
    Await(String),
    INew(String, u64, u8, u64),
    Tick(String),
    IReset(String),
    Restart(u64),
    Halt,
}

fn parse(toks: &[&str], pos: &mut usize) -> Option<E> {
    let t = *toks.get(*pos)?;
    *pos += 1;
    let num = |pos: &mut usize| -> Option<u64> {
        let v = toks.get(*pos)?.parse::<u64>().ok()?;
        *pos += 1;
        Some(v)
    };
    let name = |pos: &mut usize| -> Option<String> {
        let v = toks.get(*pos)?.to_string();
        *pos += 1;
        Some(v)
    };
    Some(match t {
        "nop" => E::Nop,
        "forever" => E::Forever,
        "sleep" => E::Sleep(num(pos)?),
        "until" => E::Until(num(pos)?),
        "timeout" => {
            let d = num(pos)?;
            E::Timeout(d, Box::new(parse(toks, pos)?))
        }
        "select" => {
            let a = parse(toks, pos)?;
            let b = parse(toks, pos)?;
            E::Select(Box::new(a), Box::new(b))
        }
        "seq" => {
            let a = parse(toks, pos)?;
            let b = parse(toks, pos)?;
            E::Seq(Box::new(a), Box::new(b))
        }
        "new" => {
            let x = name(pos)?;
            E::New(x, num(pos)?)
        }
        "newu" => {
            let x = name(pos)?;
            E::NewU(x, num(pos)?)
        }
        "poll" => E::PollOnce(name(pos)?),
        "reset" => {
            let x = name(pos)?;
            E::Reset(x, num(pos)?)
        }
        "resetu" => {
            let x = name(pos)?;
            E::ResetU(x, num(pos)?)
        }
        "drop" => E::Drop(name(pos)?),
        "await" => E::Await(name(pos)?),
        "inew" => {
            let x = name(pos)?;
            let p = num(pos)?;
            let m = match *toks.get(*pos)? {
                "burst" => 0,
                "delay" => 1,
                "skip" => 2,
                _ => return None,
            };
            *pos += 1;
            E::INew(x, p, m, num(pos)?)
        }
        "tick" => E::Tick(name(pos)?),
        "ireset" => E::IReset(name(pos)?),
        "restart" => E::Restart(num(pos)?),
        "halt" => E::Halt,
        _ => return None,
    })
}

enum Named {
    S(Pin<Box<Sleep>>),
    I(Interval),
}

/// per-task interpreter context
#[derive(Clone)]
struct Ctx {
    env: Arc<Mutex<HashMap<String, Named>>>,
    log: Arc<Mutex<BTreeMap<usize, Vec<String>>>>, // script line number -> observations
    line: usize,
    inc: usize,
}

impl Ctx {
    fn obs(&self, kind: &str) {
        let ns = SimTime::now().as_nanos();
        self.log
            .lock()
            .unwrap()
            .entry(self.line)
            .or_default()
            .push(format!("{}.{}@{}", self.inc, kind, ns));
    }
}

type BoxFut = Pin<Box<dyn Future<Output = ()> + Send>>;

fn at(ns: u64) -> SimTime {
    SimTime::from_duration(Duration::from_nanos(ns))
}

fn run(e: E, c: Ctx) -> BoxFut {
    Box::pin(async move {
        match e {
            E::Nop => {}
            E::Forever => {
                time::sleep(Duration::MAX).await;
                c.obs("s");
            }
            E::Sleep(d) => {
                time::sleep(Duration::from_nanos(d)).await;
                c.obs("s");
            }
            E::Until(t) => {
                time::sleep_until(at(t)).await;
                c.obs("s");
            }
            E::Timeout(d, inner) => {
                let r = time::timeout(Duration::from_nanos(d), run(*inner, c.clone())).await;
                c.obs(if r.is_ok() { "ok" } else { "el" });
            }
            E::Select(a, b) => {
                let mut fa = run(*a, c.clone());
                let mut fb = run(*b, c.clone());
                let w = tokio::select! {
                    biased;
                    _ = &mut fa => 0,
                    _ = &mut fb => 1,
                };
                drop(fa);
                drop(fb);
                c.obs(if w == 0 { "w0" } else { "w1" });
            }
            E::Seq(a, b) => {
                run(*a, c.clone()).await;
                run(*b, c.clone()).await;
            }
            E::New(x, d) => {
                let s = Box::pin(time::sleep(Duration::from_nanos(d)));
                let old = c.env.lock().unwrap().insert(x, Named::S(s));
                drop(old);
            }
            E::NewU(x, t) => {
                let s = Box::pin(time::sleep_until(at(t)));
                let old = c.env.lock().unwrap().insert(x, Named::S(s));
                drop(old);
            }
            E::PollOnce(x) => {
                let env = c.env.clone();
                let r = poll_fn(move |cx| {
                    let mut g = env.lock().unwrap();
                    Poll::Ready(match g.get_mut(&x) {
                        Some(Named::S(s)) => Some(s.as_mut().poll(cx).is_ready()),
                        _ => None,
                    })
                })
                .await;
                c.obs(match r {
                    Some(true) => "rdy",
                    Some(false) => "pnd",
                    None => "mis",
                });
            }
            E::Reset(x, d) => {
                let mut g = c.env.lock().unwrap();
                if let Some(Named::S(s)) = g.get_mut(&x) {
                    s.as_mut().reset(SimTime::now() + Duration::from_nanos(d));
                }
            }
            E::ResetU(x, t) => {
                let mut g = c.env.lock().unwrap();
                if let Some(Named::S(s)) = g.get_mut(&x) {
                    s.as_mut().reset(at(t));
                }
            }
            E::Drop(x) => {
                let old = c.env.lock().unwrap().remove(&x);
                drop(old);
            }
            E::Await(x) => {
                let env = c.env.clone();
                let r = poll_fn(move |cx| {
                    let mut g = env.lock().unwrap();
                    match g.get_mut(&x) {
                        Some(Named::S(s)) => s.as_mut().poll(cx).map(|_| true),
                        _ => Poll::Ready(false),
                    }
                })
                .await;
                c.obs(if r { "a" } else { "mis" });
            }
            E::INew(x, p, m, d) => {
                let mut i = time::interval_at(
                    SimTime::now() + Duration::from_nanos(d),
                    Duration::from_nanos(p),
                );
                i.set_missed_tick_behavior(match m {
                    0 => MissedTickBehavior::Burst,
                    1 => MissedTickBehavior::Delay,
                    _ => MissedTickBehavior::Skip,
                });
                let old = c.env.lock().unwrap().insert(x, Named::I(i));
                drop(old);
            }
            E::Tick(x) => {
                let env = c.env.clone();
                let r = poll_fn(move |cx| {
                    let mut g = env.lock().unwrap();
                    match g.get_mut(&x) {
                        Some(Named::I(i)) => i.poll_tick(cx).map(Some),
                        _ => Poll::Ready(None),
                    }
                })
                .await;
                match r {
                    Some(t) => c.obs(&format!("k{}", t.as_nanos())),
                    None => c.obs("mis"),
                }
            }
            E::IReset(x) => {
                let mut g = c.env.lock().unwrap();
                if let Some(Named::I(i)) = g.get_mut(&x) {
                    i.reset();
                }
            }
            E::Restart(d) => {
                if c.inc == 0 {
                    current().shutdow_and_restart_in(Duration::from_nanos(d));
                }
            }
            E::Halt => current().shutdown(),
        }
    })
}

type Log = Arc<Mutex<BTreeMap<usize, Vec<String>>>>;

struct M {
    tasks: Vec<(bool, Vec<(usize, E)>)>, // (spawn_local?, program)
    log: Log,
    starts: Arc<AtomicUsize>,
}

impl Module for M {
    fn reset(&mut self) {}
    fn at_sim_start(&mut self, _stage: usize) {
        let inc = self.starts.fetch_add(1, Ordering::SeqCst);
        for (local, prog) in &self.tasks {
            let prog = prog.clone();
            let log = self.log.clone();
            let fut = async move {
                let env = Arc::new(Mutex::new(HashMap::new()));
                for (line, e) in prog {
                    let c = Ctx {
                        env: env.clone(),
                        log: log.clone(),
                        line,
                        inc,
                    };
                    run(e, c).await;
                }
                // named timers die with the task
                let old: Vec<Named> = env.lock().unwrap().drain().map(|(_, v)| v).collect();
                drop(old);
            };
            // a task whose tag starts with a lower-case letter runs on the module's LocalSet
            if *local {
                current().join(tokio::task::spawn_local(fut));
            } else {
                current().join(tokio::spawn(fut));
            }
        }
    }
}

fn exec_case(header: &str, body: &[String], out: &mut String) {
    let nmods: usize = hval(header, "mods").and_then(|s| s.parse().ok()).unwrap_or(1).clamp(1, 8);
    // module -> task tag -> lines
    let mut progs: Vec<Vec<(String, Vec<(usize, E)>)>> = vec![Vec::new(); nmods];
    let mut bad: Vec<usize> = Vec::new();
    for (i, l) in body.iter().enumerate() {
        let toks: Vec<&str> = l.split_whitespace().collect();
        if toks.first() == Some(&"t") && toks.len() >= 4 {
            let m: usize = match toks[1].parse() {
                Ok(m) if m < nmods => m,
                _ => {
                    bad.push(i);
                    continue;
                }
            };
            let mut pos = 3;
            match parse(&toks, &mut pos) {
                Some(e) if pos == toks.len() => {
                    let tag = toks[2].to_string();
                    match progs[m].iter_mut().find(|(t, _)| *t == tag) {
                        Some((_, v)) => v.push((i, e)),
                        None => progs[m].push((tag, vec![(i, e)])),
                    }
                }
                _ => bad.push(i),
            }
        } else if toks.first() != Some(&"fin") {
            bad.push(i);
        }
    }
    let log: Log = Arc::new(Mutex::new(BTreeMap::new()));
    let res = guarded(|| {
        let mut sim = Sim::new(());
        for (m, tasks) in progs.iter().enumerate() {
            sim.node(
                format!("m{m}"),
                M {
                    tasks: tasks
                        .iter()
                        .map(|(t, v)| (t.chars().next().is_some_and(|c| c.is_ascii_lowercase()), v.clone()))
                        .collect(),
                    log: log.clone(),
                    starts: Arc::new(AtomicUsize::new(0)),
                },
            );
        }
        // the event bound only matters for broken builds that livelock (scripts need a few hundred events)
        let rt = Builder::seeded(1).quiet().max_itr(200_000).build(sim.freeze());
        let r = rt.run();
        let now = SimTime::now().as_nanos();
        let mut unfinished = vec![0usize; nmods];
        let mut cancelled = vec![0usize; nmods];
        let mut errs = 0usize;
        match r {
            Ok((_, t, _)) => {
                if t.as_nanos() != now {
                    errs += 1000;
                }
            }
            Err(e) => {
                for err in e.iter() {
                    match err.as_any().downcast_ref::<JoinError>() {
                        Some(j) if format!("{:?}", j.kind).starts_with("NotFinished") => {
                            let p = j.path.to_string();
                            match p.strip_prefix('m').and_then(|s| s.parse::<usize>().ok()) {
                                Some(m) if m < nmods => unfinished[m] += 1,
                                _ => errs += 1,
                            }
                        }
                        Some(j) if format!("{:?}", j.kind).starts_with("Tokio") => {
                            let p = j.path.to_string();
                            match p.strip_prefix('m').and_then(|s| s.parse::<usize>().ok()) {
                                Some(m) if m < nmods => cancelled[m] += 1,
                                _ => errs += 1,
                            }
                        }
                        _ => errs += 1,
                    }
                }
            }
        }
        (now, unfinished, cancelled, errs)
    });
    let log = log.lock().unwrap();
    for (i, l) in body.iter().enumerate() {
        let toks: Vec<&str> = l.split_whitespace().collect();
        if bad.contains(&i) {
            writeln!(out, "{l} -> bad").unwrap();
        } else if toks.first() == Some(&"fin") {
            match &res {
                Ok((now, unf, can, errs)) => {
                    let u: Vec<String> = unf.iter().map(|n| n.to_string()).collect();
                    let k: Vec<String> = can.iter().map(|n| n.to_string()).collect();
                    writeln!(out, "fin -> time={} unfinished={} cancelled={} errs={}", now, u.join(","), k.join(","), errs).unwrap();
                }
                Err(msg) => {
                    let m: String = msg.chars().map(|c| if c.is_whitespace() { '_' } else { c }).take(80).collect();
                    writeln!(out, "fin -> panic={m}").unwrap();
                }
            }
        } else {
            let o = log.get(&i).map(|v| v.join(" ")).unwrap_or_else(|| "-".to_string());
            writeln!(out, "{l} -> {o}").unwrap();
        }
    }
}

pub fn exec(input: &str) -> String {
    let mut out = String::new();
    for (header, body) in cases(input) {
        writeln!(out, "{header}").unwrap();
        exec_case(&header, &body, &mut out);
        writeln!(out, "end").unwrap();
    }
    out
}

// ----------------------------------------------------------------------------- generator

struct G {
    r: Rng,
    unit: u64,
    far: bool,
}

impl G {
    /// a duration: small multiples of the case's unit (many ties), sometimes off by one ns, far future
    fn dur(&mut self) -> u64 {
        let k = *self.r.pick(&[0u64, 1, 1, 2, 2, 3, 3, 4, 5, 5, 6, 8, 10, 10, 13]);
        let base = k * self.unit;
        match self.r.below(24) {
            0 => base + 1,
            1 => base.saturating_sub(1),
            2 if self.far => 10_000_000_000_000 + base, // 10^4 s
            3 if self.far => 3_600_000_000_000 * self.r.range(1, 3),
            _ => base,
        }
    }
    /// an absolute time
    fn abs(&mut self) -> u64 {
        let k = self.r.below(16);
        k * self.unit
    }
    fn name(&mut self) -> String {
        self.r.pick(&["x", "x", "y", "z"]).to_string()
    }
    fn iname(&mut self) -> String {
        self.r.pick(&["i", "i", "j"]).to_string()
    }
    fn leaf(&mut self) -> String {
        match self.r.below(20) {
            0..=6 => format!("sleep {}", self.dur()),
            7 => format!("until {}", self.abs()),
            8 | 9 => format!("await {}", self.name()),
            10 => format!("poll {}", self.name()),
            11 => format!("reset {} {}", self.name(), self.dur()),
            12 => format!("resetu {} {}", self.name(), self.abs()),
            13 => format!("drop {}", self.name()),
            14 => format!("new {} {}", self.name(), self.dur()),
            15 => format!("tick {}", self.iname()),
            16 => format!("newu {} {}", self.name(), self.abs()),
            17 => if self.r.chance(1, 3) { "forever".to_string() } else { "nop".to_string() },
            _ => format!("sleep {}", self.dur()),
        }
    }
    fn expr(&mut self, depth: u32) -> String {
        if depth == 0 {
            return self.leaf();
        }
        match self.r.below(12) {
            0 | 1 => format!("timeout {} {}", self.dur(), self.expr(depth - 1)),
            2 | 3 => format!("select {} {}", self.expr(depth - 1), self.expr(depth - 1)),
            4 => format!("seq {} {}", self.expr(depth - 1), self.expr(depth - 1)),
            _ => self.leaf(),
        }
    }
    /// a few lines following one of the deadline-order idioms
    fn idiom(&mut self, out: &mut Vec<String>) {
        match self.r.below(16) {
            0 => {
                // a timeout that does not fire, followed by a longer sleep (cancelled earlier than live)
                let d = self.dur() + self.unit;
                out.push(format!("timeout {} sleep {}", d + self.dur(), self.r.below(d.max(1))));
                out.push(format!("sleep {}", d + self.dur()));
            }
            1 => {
                // poll once, drop, then a later deadline
                let x = self.name();
                out.push(format!("new {} {}", x, self.dur() + 1));
                out.push(format!("poll {x}"));
                out.push(format!("drop {x}"));
                out.push(format!("sleep {}", self.dur() + self.unit));
            }
            2 => {
                // reset to earlier / later / the past after registration
                let x = self.name();
                out.push(format!("new {} {}", x, 5 * self.unit));
                out.push(format!("poll {x}"));
                if self.r.chance(1, 2) {
                    out.push(format!("sleep {}", self.unit));
                }
                match self.r.below(4) {
                    0 => out.push(format!("reset {} {}", x, self.unit)),
                    1 => out.push(format!("reset {} {}", x, 9 * self.unit)),
                    2 => out.push(format!("resetu {} {}", x, 0)),
                    _ => out.push(format!("reset {} {}", x, self.dur())),
                }
                if self.r.chance(3, 4) {
                    out.push(format!("await {x}"));
                } else {
                    out.push(format!("sleep {}", self.dur()));
                    out.push(format!("await {x}"));
                }
            }
            3 => {
                // select of sleeps; the loser is dropped; continue with a later one
                out.push(format!("select sleep {} sleep {}", self.dur(), self.dur()));
                out.push(format!("sleep {}", self.dur()));
            }
            4 => {
                // named timer raced against sleeps in a loop (the classic reset pattern)
                let x = self.name();
                out.push(format!("new {} {}", x, self.dur() + self.unit));
                for _ in 0..self.r.range(1, 3) {
                    out.push(format!("select await {} sleep {}", x, self.dur()));
                    if self.r.chance(1, 2) {
                        out.push(format!("reset {} {}", x, self.dur()));
                    }
                }
                out.push(format!("await {x}"));
            }
            5 | 6 => {
                // interval with late / on-time / missed ticks
                let i = self.iname();
                let p = *self.r.pick(&[10_000_000u64, 10_000_000, 4_000_000, 1_000_000_000, 7_000_000]);
                let m = *self.r.pick(&["burst", "delay", "skip"]);
                let d = if self.r.chance(1, 2) { 0 } else { self.r.below(3) * p / 2 };
                out.push(format!("inew {i} {p} {m} {d}"));
                for _ in 0..self.r.range(2, 6) {
                    out.push(format!("tick {i}"));
                    match self.r.below(8) {
                        0 => out.push(format!("sleep {}", p / 2)),
                        1 => out.push(format!("sleep {}", 2 * p + p / 2)),
                        2 => out.push(format!("sleep {}", p + 5_000_000)),
                        3 => out.push(format!("sleep {}", p + 5_000_001)),
                        4 => out.push(format!("sleep {}", 3 * p)),
                        5 => out.push(format!("ireset {i}")),
                        _ => {}
                    }
                }
            }
            7 => {
                // timers created after one fired, equal deadlines
                let d = self.dur();
                out.push(format!("sleep {d}"));
                out.push(format!("sleep {d}"));
                out.push(format!("timeout {} sleep {}", d, d));
            }
            8 => {
                // timeout that elapses, inner sleep dropped while later timers are pending
                let d = self.dur();
                out.push(format!("timeout {} sleep {}", d, d + self.dur() + 1));
                out.push(format!("sleep {}", self.dur()));
            }
            9 => {
                out.push(format!("timeout {} select sleep {} sleep {}", self.dur(), self.dur(), self.dur()));
                out.push(format!("sleep {}", self.dur()));
            }
            11 | 12 => {
                // twins: two or three named Sleeps of this task with EQUAL deadlines, registered back to back,
                // one of them cancelled (reset / dropped) before the deadline, another one still awaited
                let d = self.r.range(2, 6) * self.unit;
                let three = self.r.chance(1, 3);
                let names: Vec<&str> = if three { vec!["p", "q", "r"] } else { vec!["p", "q"] };
                for n in &names {
                    out.push(format!("new {n} {d}"));
                }
                if self.r.chance(1, 2) {
                    for n in &names {
                        out.push(format!("poll {n}"));
                    }
                    out.push(format!("sleep {}", self.r.range(0, 1) * self.unit));
                } else {
                    // all polled in one biased select!, a short sleep wins
                    let mut e = format!("sleep {}", self.unit);
                    for n in names.iter().rev() {
                        e = format!("select await {n} {e}");
                    }
                    out.push(e);
                }
                // cancel the first registered (mostly) or a later one (symmetric case)
                let victim = if self.r.chance(2, 3) { 0 } else { self.r.range(1, names.len() as u64 - 1) as usize };
                match self.r.below(4) {
                    0 => out.push(format!("drop {}", names[victim])),
                    1 => out.push(format!("reset {} {}", names[victim], 10 * self.unit)),
                    2 => out.push(format!("reset {} {}", names[victim], self.unit / 2)),
                    _ => out.push(format!("resetu {} {}", names[victim], 0)),
                }
                for (i, n) in names.iter().enumerate() {
                    if i != victim {
                        out.push(format!("await {n}"));
                    }
                }
                if self.r.chance(1, 2) {
                    out.push(format!("await {}", names[victim]));
                }
            }
            10 => {
                // already reached deadlines
                out.push(format!("until {}", 0));
                out.push("sleep 0".to_string());
                out.push(format!("timeout 0 sleep {}", self.r.below(2)));
            }
            _ => {
                let e = self.expr(2);
                out.push(e);
            }
        }
    }
}

pub fn gen(seed: u64, count: usize, thorough: bool) -> String {
    let mut r = Rng::new(seed);
    let mut out = String::new();
    for k in 0..count {
        let mut g = G {
            r: r.fork(),
            unit: 1,
            far: false,
        };
        g.unit = *g.r.pick(&[1_000_000u64, 1_000_000, 1_000_000_000, 7_000_000, 2_500_000]);
        g.far = g.r.chance(1, 6);
        let nmods = g.r.range(1, 3) as usize;
        writeln!(out, "case {k} mods={nmods}").unwrap();
        let mut lines: Vec<(usize, String, Vec<String>)> = Vec::new();
        let shutdown_mod = if g.r.chance(1, 4) { Some(g.r.below(nmods as u64) as usize) } else { None };
        // module-level scenarios (each about one case in eight)
        let stale_mod = if g.r.chance(1, 8) { Some(g.r.below(nmods as u64) as usize) } else { None };
        let crowd_mod = if g.r.chance(1, 8) { Some(g.r.below(nmods as u64) as usize) } else { None };
        for m in 0..nmods {
            if stale_mod == Some(m) {
                // restart BEFORE a wake-up of the first incarnation fires: task A's wake-up at `long` is in
                // flight when B shuts the module down; it restarts earlier than that; the new incarnation's
                // timers lie beyond the stale wake-up
                let u = g.unit;
                let long = g.r.range(8, 13) * u;
                let mut a = vec![format!("sleep {long}")];
                if g.r.chance(1, 2) {
                    a.push(format!("sleep {}", g.dur()));
                }
                let mut b = vec![format!("sleep {}", g.r.range(1, 3) * u), format!("restart {}", g.r.range(0, 3) * u)];
                if g.r.chance(1, 2) {
                    b.push(format!("timeout {} sleep {}", long + u, long + 3 * u));
                }
                lines.push((m, "A".to_string(), a));
                lines.push((m, "B".to_string(), b));
                if g.r.chance(1, 2) {
                    let mut c = Vec::new();
                    g.idiom(&mut c);
                    lines.push((m, "c".to_string(), c));
                }
                continue;
            }
            let ntasks = if thorough { g.r.range(1, 6) } else { *g.r.pick(&[1u64, 1, 2, 2, 3, 4, 6]) };
            let ntasks = if crowd_mod == Some(m) { ntasks.max(3) } else { ntasks };
            let crowd_at = g.r.range(1, 9) * g.unit;
            let restart_task = g.r.below(ntasks);
            for t in 0..ntasks {
                let tag = format!("{}", ((if g.r.chance(1, 3) { b'a' } else { b'A' }) + t as u8) as char);
                let mut prog = Vec::new();
                if crowd_mod == Some(m) {
                    // many timers in one slot: every task of the module first waits for the same instant
                    prog.push(match g.r.below(3) {
                        0 => format!("until {crowd_at}"),
                        1 => format!("sleep {crowd_at}"),
                        _ => format!("timeout {} sleep {}", crowd_at, crowd_at + g.unit),
                    });
                }
                let n = if thorough { g.r.range(1, 5) } else { g.r.range(1, 3) };
                for _ in 0..n {
                    g.idiom(&mut prog);
                }
                if shutdown_mod == Some(m) && t == restart_task {
                    let at = g.r.below(prog.len() as u64 + 1) as usize;
                    let op = if g.r.chance(1, 5) { "halt".to_string() } else { format!("restart {}", g.dur()) };
                    prog.insert(at, op);
                }
                lines.push((m, tag, prog));
            }
        }
        // interleave the tasks' lines (order inside a task is kept)
        let mut idx = vec![0usize; lines.len()];
        loop {
            let live: Vec<usize> = (0..lines.len()).filter(|&i| idx[i] < lines[i].2.len()).collect();
            if live.is_empty() {
                break;
            }
            let i = *g.r.pick(&live);
            writeln!(out, "t {} {} {}", lines[i].0, lines[i].1, lines[i].2[idx[i]]).unwrap();
            idx[i] += 1;
        }
        writeln!(out, "fin").unwrap();
        writeln!(out, "end").unwrap();
    }
    out
}

//! C13: panics are contained, attributed, and do not disturb other modules.
//!
//! Same script language, scripted modules and observation log as `c09.rs` (see there); the
//! generator places `panic` actions anywhere in the action lists of message handlers, start
//! stages, `at_sim_end` and tasks (joined through `try_join` or not), in several modules at once,
//! under both stereotypes (`catch=0|1`).  `exec` runs every simulation TWICE in the same process:
//! the second run (`obs2` / `res2` / `glob2` lines) must produce the same trace as the model,
//! which shows that the simulator's global state (module context, event buffer, simulation lock)
//! survived the panics of the first run.
use crate::c09;

pub fn gen(seed: u64, count: usize, thorough: bool) -> String {
    c09::gen_with(seed, count, thorough, 7)
}

pub fn exec(input: &str) -> String {
    c09::exec_with(input, true)
}

//! C12: start-up / tear-down callback order, builder checks, object paths.
//!
//! Every case builds one real `des` simulation through the public builder API and runs it.
//! Script lines (a node is always named by its full path, so lines survive deletion; `~` is the
//! empty string):
//!   node <path> s=<stages> w=<wake> [f=<k>]
//!                                     (`f=k`, k > 0: the module's `at_sim_end` returns `Err(RuntimeError)` carrying k errors
//!                                     named `<path>#0 … <path>#k-1`)
//!                                     `sim.node(path, Scripted{..})`; the module declares
//!                                     `num_sim_start_stages() = stages` and, if `wake > 0`, schedules a
//!                                     self-message `wake*(stage+1)` ns ahead in every `at_sim_start(stage)`
//!   block <path> s=<stages> rels=<r1>,<r2>,…
//!                                     `sim.node(path, Block)` where `Block: ModuleBlock` calls `sim.root(M)` and then
//!                                     `sim.node(r_i, M)` on the `SimBuilderScoped` (paths relative to `path`, possibly dotted)
//!   nodes                             `sim.nodes()`: the module vector in its current order
//!   run                               `Builder::seeded(1).quiet().build(sim.freeze()).run()`
//!   path <str>                        `ObjectPath::from(str)`: len / name / as_parent_str / parent / equality
//!                                     with the path obtained by repeated `appended`
//!   app <base> <seg>                  `ObjectPath::from(base).appended(seg)` (+ `appended_gate`)
//! Transcript answers:
//!   node  -> ok | dup | noparent | panic
//!   block -> <answer for root>,<answer for r1>,…   (same alphabet)
//!   nodes -> <path>,<path>,…   (`-` when empty)
//!   run   -> res=<ok|err|panic|none> then the callback log in call order:
//!            S:<path>:<stage>:<ns>:<L>     at_sim_start(stage)
//!            M:<path>:<ns>:<L>             handle_message
//!            E:<path>:<ns>:<L>             at_sim_end
//!            X:<path>#<i>                  (after everything else) the errors carried by the `Err` that `run()` returned,
//!                                          in the order `RuntimeError` holds them
//!            D:<path>                      the module's state is dropped (after `run` returned and its result,
//!                                          the `Sim`, is dropped)
//!            <L> = <len>:<name>:<parent>:<kids> are the lookups made inside EVERY callback:
//!                 path().len(), name(), parent() (`-` = NoEntry, `!` = other error) and
//!                 child(n) for every n in the case's name pool (`n>childpath`, comma separated, `-` if none)
//!   path  -> len=<n> name=<s> pstr=<s> par=<s|none> plen=<n> pname=<s> eqapp=<0|1>
//!   app   -> str=<s> len=<n> name=<s> par=<s|none> pareq=<0|1> gate=<0|1>
use crate::rng::Rng;
use crate::util::{cases, guarded, hval};
use des::net::blocks::ModuleBlock;
use des::prelude::*;
use std::fmt::Write;
use std::sync::{Arc, Mutex};
use std::time::Duration;

fn tok(s: &str) -> String {
    if s.is_empty() {
        "~".to_string()
    } else {
        s.to_string()
    }
}
fn untok(s: &str) -> &str {
    if s == "~" {
        ""
    } else {
        s
    }
}

// ------------------------------------------------------------------------------------------ gen

/// names: textual prefixes of each other, multi-byte UTF-8 (2, 3 and 4 byte characters)
const NAMES: [&str; 32] = [
    "alice", "alicent", "al", "a", "ali", "bob", "b", "bo", "ä", "äb", "日本", "日", "é", "x-1", "n0",
    "ñandú", "😀", "a😀b", "eve", "e", "ab", "aa", "alice2", "ß",
    // brackets and other punctuation the API does not treat specially
    "a[0]", "a[01]", "a[", "]", "(b)", "node[3]", "al[1]", "a{b}",
];
const WEIRD: [&str; 18] = [
    "~", ".", "a.", ".a", "a..b", "a.b.", "..", "b.", "alice.", ".alice", "日.", "a...b", "a[0].", "[.]", "a.[", "x..",
    "a.b..c", "a[0]..]",
];

struct TNode {
    path: String,
    parent: Option<usize>,
}

fn gen_tree(r: &mut Rng, max_nodes: usize, max_depth: usize, max_fan: usize, deep: bool) -> Vec<TNode> {
    // grow a random tree: repeatedly attach a child to a random existing node (or a new root)
    let mut nodes: Vec<TNode> = Vec::new();
    let mut depth: Vec<usize> = Vec::new();
    let mut fan: Vec<usize> = Vec::new();
    let mut roots = 0usize;
    let shape = if deep { 1 } else { r.below(4) }; // 0 bushy, 1 deep, 2 mixed, 3 mixed
    let mut tries = 0;
    while nodes.len() < max_nodes && tries < 10 * max_nodes {
        tries += 1;
        let as_root = nodes.is_empty() || (roots < max_fan && r.chance(if shape == 1 { 1 } else { 3 }, 10));
        let (parent, d) = if as_root {
            (None, 1)
        } else {
            let p = if shape == 1 && r.chance(2, 3) {
                // prefer the deepest nodes
                let md = *depth.iter().max().unwrap();
                let c: Vec<usize> = (0..nodes.len()).filter(|&i| depth[i] + 1 >= md).collect();
                *r.pick(&c)
            } else {
                r.below(nodes.len() as u64) as usize
            };
            (Some(p), depth[p] + 1)
        };
        if d > max_depth {
            continue;
        }
        if let Some(p) = parent {
            if fan[p] >= max_fan {
                continue;
            }
        }
        // sibling names must differ; prefer names sharing a prefix with an existing sibling
        let name = *r.pick(&NAMES);
        let path = match parent {
            None => name.to_string(),
            Some(p) => format!("{}.{}", nodes[p].path, name),
        };
        if nodes.iter().any(|n| n.path == path) {
            continue;
        }
        match parent {
            None => roots += 1,
            Some(p) => fan[p] += 1,
        }
        nodes.push(TNode { path, parent });
        depth.push(d);
        fan.push(0);
    }
    nodes
}

/// a uniformly-ish random linear extension (parents first)
fn random_order(r: &mut Rng, t: &[TNode]) -> Vec<usize> {
    let mut done = vec![false; t.len()];
    let mut out = Vec::new();
    while out.len() < t.len() {
        let ready: Vec<usize> =
            (0..t.len()).filter(|&i| !done[i] && t[i].parent.map_or(true, |p| done[p])).collect();
        let i = *r.pick(&ready);
        done[i] = true;
        out.push(i);
    }
    out
}

fn all_orders(t: &[TNode], cap: usize) -> Vec<Vec<usize>> {
    fn rec(t: &[TNode], done: &mut Vec<bool>, cur: &mut Vec<usize>, out: &mut Vec<Vec<usize>>, cap: usize) {
        if out.len() >= cap {
            return;
        }
        if cur.len() == t.len() {
            out.push(cur.clone());
            return;
        }
        for i in 0..t.len() {
            if !done[i] && t[i].parent.map_or(true, |p| done[p]) {
                done[i] = true;
                cur.push(i);
                rec(t, done, cur, out, cap);
                cur.pop();
                done[i] = false;
            }
        }
    }
    let mut out = Vec::new();
    rec(t, &mut vec![false; t.len()], &mut Vec::new(), &mut out, cap);
    out
}

fn emit_case(out: &mut String, r: &mut Rng, id: &str, t: &[TNode], order: &[usize], stages: &[u64], wakes: &[u64], noise: bool) {
    // heavy noise: a rejected or probing line before almost every accepted one
    let span = if r.chance(1, 4) { 8 } else { 14 };
    // failing tear-down callbacks: none / a few / many modules return Err from at_sim_end
    let fail_den = match r.below(4) {
        0 | 1 => 0,
        2 => 4,
        _ => 2,
    };
    writeln!(out, "case {id} n={}", t.len()).unwrap();
    let mut emitted: Vec<usize> = Vec::new();
    for (k, &i) in order.iter().enumerate() {
        if noise {
            match r.below(span) {
                0 if !emitted.is_empty() => {
                    // duplicate of an existing node
                    let j = *r.pick(&emitted);
                    writeln!(out, "node {} s={} w=0", t[j].path, r.below(4)).unwrap();
                }
                1 => {
                    // a node whose parent does not exist (yet): some later node's child, or a fresh one
                    let later = &order[k..];
                    let j = *r.pick(later);
                    let nm = *r.pick(&NAMES);
                    writeln!(out, "node {}.{} s=1 w=0", t[j].path, nm).unwrap();
                }
                2 => {
                    let nm = *r.pick(&NAMES);
                    let nm2 = *r.pick(&NAMES);
                    writeln!(out, "node zz{}.{} s=1 w=0", nm, nm2).unwrap();
                }
                3 if r.chance(1, 2) => {
                    writeln!(out, "node {} s={} w=0", r.pick(&WEIRD), r.below(3)).unwrap();
                }
                4 if r.chance(1, 3) => writeln!(out, "nodes").unwrap(),
                7 if r.chance(1, 2) => {
                    // a ModuleBlock with its own little subtree, relative (possibly dotted) paths
                    const RELS: [&str; 10] = ["a", "al", "a.b", "a.al", "c.d", "ä", "ä.日", "a.b.c", "~", "al.a"];
                    let base = if r.chance(1, 4) && !emitted.is_empty() {
                        format!("{}.zb{}", t[*r.pick(&emitted)].path, r.pick(&NAMES))
                    } else {
                        format!("zb{}", r.pick(&NAMES))
                    };
                    let n = r.range(1, 4);
                    let rels: Vec<&str> = (0..n).map(|_| *r.pick(&RELS)).collect();
                    writeln!(out, "block {} s={} rels={}", base, r.below(3), rels.join(",")).unwrap();
                }
                5 if r.chance(1, 2) => {
                    // path probes
                    let s = if r.chance(1, 3) { r.pick(&WEIRD).to_string() } else { t[*r.pick(order)].path.clone() };
                    writeln!(out, "path {s}").unwrap();
                }
                6 if r.chance(1, 2) => {
                    let base = if r.chance(1, 4) { "~".to_string() } else { t[*r.pick(order)].path.clone() };
                    let seg = if r.chance(1, 6) { r.pick(&WEIRD).to_string() } else { r.pick(&NAMES).to_string() };
                    writeln!(out, "app {base} {seg}").unwrap();
                }
                _ => {}
            }
        }
        if fail_den > 0 && r.chance(1, fail_den) {
            writeln!(out, "node {} s={} w={} f={}", t[i].path, stages[i], wakes[i], r.range(1, 2)).unwrap();
        } else {
            writeln!(out, "node {} s={} w={}", t[i].path, stages[i], wakes[i]).unwrap();
        }
        emitted.push(i);
    }
    if noise && r.chance(1, 4) && !emitted.is_empty() {
        let j = *r.pick(&emitted);
        writeln!(out, "node {} s=2 w=0", t[j].path).unwrap();
    }
    writeln!(out, "nodes").unwrap();
    writeln!(out, "run").unwrap();
    writeln!(out, "end").unwrap();
}

pub fn gen(seed: u64, count: usize, thorough: bool) -> String {
    let mut r = Rng::new(seed);
    let mut out = String::new();
    let mut k = 0usize;
    while k < count {
        // thorough tier: every so often enumerate ALL linear extensions of a small tree
        if thorough && r.chance(1, 40) && count - k > 200 {
            let n = r.range(3, 7) as usize;
            let t = gen_tree(&mut r, n, 4, 3, false);
            let stages: Vec<u64> = t.iter().map(|_| r.below(4)).collect();
            let wakes: Vec<u64> = t.iter().map(|_| 0).collect();
            let orders = all_orders(&t, (count - k).min(5040));
            for (j, o) in orders.iter().enumerate() {
                emit_case(&mut out, &mut r, &format!("{k}x{j}"), &t, o, &stages, &wakes, false);
            }
            k += orders.len();
            continue;
        }
        let max_nodes = match r.below(10) {
            0 => r.range(1, 3),
            1..=5 => r.range(4, 10),
            _ => r.range(8, if thorough { 40 } else { 22 }),
        } as usize;
        // one case in five: a deep tree (depth up to 10, typically >= 6)
        let deep = r.chance(1, 5);
        let t = if deep { gen_tree(&mut r, max_nodes.max(8), 10, 3, true) } else { gen_tree(&mut r, max_nodes, 5, 4, false) };
        let order = random_order(&mut r, &t);
        let stage_mode = r.below(5);
        let stages: Vec<u64> = t
            .iter()
            .map(|_| match stage_mode {
                0 => 1,
                1 => r.range(1, 3),
                _ => r.below(4),
            })
            .collect();
        let wake_mode = r.below(3);
        let wakes: Vec<u64> = t
            .iter()
            .map(|_| match wake_mode {
                0 => 0,
                1 => {
                    if r.chance(1, 3) {
                        r.range(1, 5)
                    } else {
                        0
                    }
                }
                _ => r.below(4) * 1000,
            })
            .collect();
        let noise = r.chance(2, 3);
        emit_case(&mut out, &mut r, &k.to_string(), &t, &order, &stages, &wakes, noise);
        k += 1;
    }
    out
}

// ------------------------------------------------------------------------------------------ exec

type Log = Arc<Mutex<Vec<String>>>;

struct Scripted {
    stages: usize,
    wake: u64,
    /// number of errors `at_sim_end` reports (0: it returns Ok)
    fail: u64,
    log: Log,
    pool: Arc<Vec<String>>,
    /// path seen in the last callback (for the drop record)
    seen: Option<String>,
}

/// the lookups made inside every callback: `<len>:<name>:<parent>:<kids>`
fn lookups(pool: &[String]) -> (String, String) {
    let ctx = current();
    let p = ctx.path();
    let parent = match ctx.parent() {
        // the parent's children map must lead back to this very module (not to a same-named other instance)
        // (only for well-formed names: the builder accepts malformed paths with an EMPTY last segment more than once,
        // so two such modules can share a name and the map can only hold one of them - outside C12's domain)
        Ok(m) => match m.child(&ctx.name()) {
            Ok(c) if c.id() == ctx.id() => tok(m.path().as_str()),
            _ if ctx.name().is_empty() => tok(m.path().as_str()),
            _ => "!ghost".to_string(),
        },
        Err(ModuleReferencingError::NoEntry(_)) => "-".to_string(),
        Err(_) => "!".to_string(),
    };
    let mut kids: Vec<String> = Vec::new();
    for n in pool.iter() {
        if let Ok(c) = ctx.child(n) {
            kids.push(format!("{}>{}", tok(n), tok(c.path().as_str())));
        }
    }
    let kids = if kids.is_empty() { "-".to_string() } else { kids.join(",") };
    (tok(p.as_str()), format!("{}:{}:{}:{}", p.len(), tok(&ctx.name()), parent, kids))
}

#[derive(Debug)]
struct EndError(String);
impl std::fmt::Display for EndError {
    fn fmt(&self, f: &mut std::fmt::Formatter<'_>) -> std::fmt::Result {
        write!(f, "{}", self.0)
    }
}
impl std::error::Error for EndError {}

impl Drop for Scripted {
    fn drop(&mut self) {
        if let Some(p) = &self.seen {
            self.log.lock().unwrap().push(format!("D:{p}"));
        }
    }
}

fn now_ns() -> u128 {
    SimTime::now().as_nanos()
}

impl Module for Scripted {
    fn num_sim_start_stages(&self) -> usize {
        self.stages
    }
    fn at_sim_start(&mut self, stage: usize) {
        let (p, l) = lookups(&self.pool);
        self.log.lock().unwrap().push(format!("S:{}:{}:{}:{}", p, stage, now_ns(), l));
        self.seen = Some(p);
        if self.wake > 0 {
            schedule_in(Message::default(), Duration::from_nanos(self.wake * (stage as u64 + 1)));
        }
    }
    fn handle_message(&mut self, _msg: Message) {
        let (p, l) = lookups(&self.pool);
        self.log.lock().unwrap().push(format!("M:{}:{}:{}", p, now_ns(), l));
        self.seen = Some(p);
    }
    fn at_sim_end(&mut self) -> Result<(), RuntimeError> {
        let (p, l) = lookups(&self.pool);
        self.log.lock().unwrap().push(format!("E:{}:{}:{}", p, now_ns(), l));
        self.seen = Some(p.clone());
        if self.fail > 0 {
            return Err(RuntimeError::new((0..self.fail).map(|i| EndError(format!("{p}#{i}"))).collect()));
        }
        Ok(())
    }
}

fn classify(r: Result<(), String>) -> &'static str {
    match r {
        Ok(()) => "ok",
        Err(msg) if msg.contains("node allready exists") => "dup",
        Err(msg) if msg.contains("is required, but does not exist") => "noparent",
        Err(_) => "panic",
    }
}

struct Block {
    rels: Vec<String>,
    stages: usize,
    log: Log,
    pool: Arc<Vec<String>>,
    answers: Arc<Mutex<Vec<&'static str>>>,
}

impl ModuleBlock for Block {
    type Ret = ();
    fn build<A>(self, mut sim: SimBuilderScoped<'_, A>) {
        let mk = |b: &Block| Scripted { stages: b.stages, wake: 0, fail: 0, log: b.log.clone(), pool: b.pool.clone(), seen: None };
        let m = mk(&self);
        let r = guarded(|| sim.root(m));
        self.answers.lock().unwrap().push(classify(r));
        for rel in &self.rels {
            let m = mk(&self);
            let r = guarded(|| sim.node(rel.as_str(), m));
            self.answers.lock().unwrap().push(classify(r));
        }
    }
}

/// the case's name pool: every '.'-separated segment of every `node` line's path, sorted, distinct
fn name_pool(body: &[String]) -> Vec<String> {
    let mut pool: Vec<String> = vec!["zz".to_string()];
    for l in body {
        let w: Vec<&str> = l.split_whitespace().collect();
        if w.len() >= 2 && (w[0] == "node" || w[0] == "block") {
            for seg in untok(w[1]).split('.') {
                pool.push(seg.to_string());
            }
        }
        if w.len() >= 2 && w[0] == "block" {
            if let Some(rels) = hval(l, "rels") {
                for rel in rels.split(',') {
                    for seg in untok(rel).split('.') {
                        pool.push(seg.to_string());
                    }
                }
            }
        }
    }
    pool.sort();
    pool.dedup();
    pool
}

fn path_obs(s: &str) -> String {
    let r = guarded(|| {
        let p = ObjectPath::from(s);
        let par = p.parent();
        let (pars, plen, pname) = match &par {
            Some(q) => (tok(q.as_str()), q.len(), tok(q.name())),
            None => ("none".to_string(), 0, "~".to_string()),
        };
        let mut acc = ObjectPath::default();
        for seg in s.split('.') {
            acc = acc.appended(seg);
        }
        format!(
            "len={} name={} pstr={} par={} plen={} pname={} eqapp={}",
            p.len(),
            tok(p.name()),
            tok(p.as_parent_str()),
            pars,
            plen,
            pname,
            (acc == p) as u8
        )
    });
    r.unwrap_or_else(|_| "panic".to_string())
}

fn app_obs(base: &str, seg: &str) -> String {
    let r = guarded(|| {
        let b = ObjectPath::from(base);
        let p = b.appended(seg);
        let par = p.parent();
        let pars = match &par {
            Some(q) => tok(q.as_str()),
            None => "none".to_string(),
        };
        let g = b.appended_gate(seg);
        format!(
            "str={} len={} name={} par={} pareq={} gate={}",
            tok(p.as_str()),
            p.len(),
            tok(p.name()),
            pars,
            (par == Some(b.clone())) as u8,
            (!g.is_module() && g.as_str() == p.as_str() && g.len() == p.len() && g.name() == p.name()) as u8
        )
    });
    r.unwrap_or_else(|_| "panic".to_string())
}

pub fn exec(input: &str) -> String {
    let mut out = String::new();
    for (header, body) in cases(input) {
        writeln!(out, "{header}").unwrap();
        let pool = Arc::new(name_pool(&body));
        let log: Log = Arc::new(Mutex::new(Vec::new()));
        let mut sim = Some(Sim::new(()));
        for line in &body {
            let w: Vec<&str> = line.split_whitespace().collect();
            let ans = match w.as_slice() {
                ["node", path, rest @ ..] => {
                    let hdr = rest.join(" ");
                    let stages = hval(&hdr, "s").and_then(|v| v.parse().ok()).unwrap_or(1usize);
                    let wake = hval(&hdr, "w").and_then(|v| v.parse().ok()).unwrap_or(0u64);
                    let fail = hval(&hdr, "f").and_then(|v| v.parse().ok()).unwrap_or(0u64);
                    match sim.as_mut() {
                        None => "late".to_string(),
                        Some(sim) => {
                            let m = Scripted { stages, wake, fail, log: log.clone(), pool: pool.clone(), seen: None };
                            let p = untok(path).to_string();
                            classify(guarded(|| sim.node(p.as_str(), m))).to_string()
                        }
                    }
                }
                ["block", path, rest @ ..] => {
                    let hdr = rest.join(" ");
                    let stages = hval(&hdr, "s").and_then(|v| v.parse().ok()).unwrap_or(1usize);
                    let rels: Vec<String> = hval(&hdr, "rels")
                        .map(|v| v.split(',').map(|x| untok(x).to_string()).collect())
                        .unwrap_or_default();
                    match sim.as_mut() {
                        None => "late".to_string(),
                        Some(sim) => {
                            let answers = Arc::new(Mutex::new(Vec::new()));
                            let b = Block { rels, stages, log: log.clone(), pool: pool.clone(), answers: answers.clone() };
                            let p = untok(path).to_string();
                            let r = guarded(|| sim.node(p.as_str(), b));
                            let a = answers.lock().unwrap().clone();
                            if r.is_err() || a.is_empty() {
                                "panic".to_string()
                            } else {
                                a.join(",")
                            }
                        }
                    }
                }
                ["nodes"] => match sim.as_ref() {
                    None => "late".to_string(),
                    Some(sim) => match guarded(|| sim.nodes().map(|p| tok(p.as_str())).collect::<Vec<String>>()) {
                        Ok(v) if v.is_empty() => "-".to_string(),
                        Ok(v) => v.join(","),
                        Err(_) => "panic".to_string(),
                    },
                },
                ["run"] => match sim.take() {
                    None => "res=none".to_string(),
                    Some(sim) => {
                        let res = guarded(|| Builder::seeded(1).quiet().build(sim.freeze()).run());
                        // des installs its own panic hook at start-up and removes it at tear-down
                        if std::env::var("HX_PANIC_MSG").is_err() {
                            std::panic::set_hook(Box::new(|_| {}));
                        }
                        // the returned application (the `Sim` with its module tree) is dropped here:
                        // the modules' states are dropped and record `D:<path>`
                        let mut errs: Vec<String> = Vec::new();
                        let res = match res {
                            Ok(Ok(v)) => match guarded(move || drop(v)) {
                                Ok(()) => "ok",
                                Err(_) => "droppanic",
                            },
                            Ok(Err(e)) => {
                                for x in e.iter() {
                                    errs.push(format!("X:{x}"));
                                }
                                "err"
                            }
                            Err(_) => "panic",
                        };
                        let entries = std::mem::take(&mut *log.lock().unwrap());
                        let mut s = format!("res={res}");
                        for e in entries.into_iter().chain(errs) {
                            s.push(' ');
                            s.push_str(&e);
                        }
                        s
                    }
                },
                ["path", s] => path_obs(untok(s)),
                ["app", b, s] => app_obs(untok(b), untok(s)),
                _ => "badline".to_string(),
            };
            writeln!(out, "{line} -> {ans}").unwrap();
        }
        let _ = guarded(move || drop(sim));
        writeln!(out, "end").unwrap();
    }
    out
}

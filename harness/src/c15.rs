//! C15: calendar-queue memory safety and drop-once.
//!
//! Two kinds of cases, both observed through the cfg(petrichorit_des_verif) allocator event log
//! of des-cqueue (`des_cqueue::verif`):
//!
//! `case <id> kind=raw page=<P>` — the page allocator on its own, mixed layouts:
//!   alloc <tag> <size> <alignlog>   request Layout(size, 2^alignlog); the block is filled with a
//!                                   tag-derived pattern
//!   free <tag>                      release the block obtained for <tag> (skipped when not live);
//!                                   the pattern is verified first
//!
//! `case <id> kind=cq ty=<T> dc=<0|1> bits=<b> n=<n> t=<t> page=<P|0>` — a `CQueue<T>`
//! (`dc=1`: `T` has a destructor that logs its tag; `page=0`: `CQueue::new`, i.e. the OS page size):
//!   add <delta> <val>    schedule at (time of the last fetched event) + delta, payload made from val
//!   cancel <val>         cancel the handle of the add that carried <val> (once)
//!   fetch
//!   drop                 drop the queue with whatever is pending (always performed at the end)
//!
//! Transcript: `new -> …` first and `drop -> …` last are always emitted. Every line carries
//! `ev=<allocator events>`: `P<k>:<len>:<aligned>:<disjoint>` (k-th page obtained),
//! `A<k>+<off>:<size>:<align>:<aligned>` (allocate returned page k + off), `E:<size>:<align>`
//! (allocate failed), `F<k>+<off>:<size>:<align>` (deallocate); `A?…`/`F?…` when the address is in
//! no page. cq lines also carry `d=<tags dropped during the call, in order>`; payloads are shown
//! as their tag truncated to `bits` bits, `intact=1` iff every byte of a returned payload is as
//! inserted.
use crate::rng::Rng;
use crate::util::{cases, guarded, hval};
use des_cqueue::verif::{self, AllocEvent, VerifAllocator};
use des_cqueue::{CQueue, EventHandle};
use std::alloc::Layout;
use std::cell::RefCell;
use std::fmt::Write;
use std::time::Duration;

// ---------------------------------------------------------------------------------------------
// allocator event rendering

#[derive(Default)]
struct Pages {
    pages: Vec<(usize, usize)>,
    /// blocks handed out and not yet released: (addr, reserved bytes)
    live: Vec<(usize, usize)>,
    /// set when an event breaks a memory-safety clause: the case is stopped before the damage
    /// spreads (the driver's acceptance checker rejects the same event on its own)
    violation: bool,
}

impl Pages {
    fn locate(&self, addr: usize) -> Option<(usize, usize)> {
        self.pages
            .iter()
            .position(|&(b, l)| b <= addr && addr < b + l)
            .map(|k| (k, addr - self.pages[k].0))
    }

    /// the allocator's own free list must stay inside the pages, able to hold a ListNode, and
    /// clear of every live block and of itself; otherwise the next write damages the list and
    /// the process may hang — stop the case instead
    fn check_free(&mut self, snap: &verif::AllocSnapshot) {
        for (i, &(a, sz)) in snap.free.iter().enumerate() {
            let inside = self.pages.iter().any(|&(b, l)| b <= a && a + sz <= b + l);
            let clash_live = self.live.iter().any(|&(b, f)| !(a + sz <= b || b + f <= a));
            let clash_free = snap.free[..i].iter().any(|&(b, f)| !(a + sz <= b || b + f <= a));
            if !inside || sz < 16 || a % 8 != 0 || clash_live || clash_free {
                self.violation = true;
            }
        }
    }

    fn render(&mut self, evs: &[AllocEvent]) -> String {
        if evs.is_empty() {
            return "-".to_string();
        }
        let mut toks = Vec::new();
        for ev in evs {
            match *ev {
                AllocEvent::AddPage { addr, len } => {
                    let aligned = len != 0 && addr % len == 0;
                    let disjoint = self.pages.iter().all(|&(b, l)| addr + len <= b || b + l <= addr);
                    toks.push(format!("P{}:{}:{}:{}", self.pages.len(), len, aligned as u8, disjoint as u8));
                    self.violation |= !aligned || !disjoint;
                    self.pages.push((addr, len));
                }
                AllocEvent::Allocate { addr, size, align } => {
                    let al = (align != 0 && addr % align == 0) as u8;
                    let fp = norm_size(size, align);
                    let inside = self.pages.iter().any(|&(b, l)| b <= addr && addr + fp <= b + l);
                    let clash = self.live.iter().any(|&(a, f)| !(addr + fp <= a || a + f <= addr));
                    self.violation |= !inside || clash || al == 0;
                    self.live.push((addr, fp));
                    match self.locate(addr) {
                        Some((k, off)) => toks.push(format!("A{k}+{off}:{size}:{align}:{al}")),
                        None => toks.push(format!("A?:{size}:{align}:{al}")),
                    }
                }
                AllocEvent::AllocateFailed { size, align } => toks.push(format!("E:{size}:{align}")),
                AllocEvent::Deallocate { addr, size, align } => {
                    match self.live.iter().position(|&(a, f)| a == addr && f == norm_size(size, align)) {
                        Some(i) => {
                            self.live.swap_remove(i);
                        }
                        None => self.violation = true,
                    }
                    match self.locate(addr) {
                        Some((k, off)) => toks.push(format!("F{k}+{off}:{size}:{align}")),
                        None => toks.push(format!("F?:{size}:{align}")),
                    }
                }
            }
        }
        toks.join(",")
    }
}

/// normalised size of a layout, as `size_align` in alloc.rs computes it (used only to refuse
/// requests for which `find_region` does not terminate)
fn norm_size(size: usize, align: usize) -> usize {
    let a = align.max(8);
    (size.div_ceil(a) * a).max(16)
}

/// `find_region` recurses forever for these (each round leaves 1..15 bytes behind the block)
fn diverges(nsize: usize, page: usize) -> bool {
    nsize < page && nsize + 16 > page
}

// ---------------------------------------------------------------------------------------------
// payload types

thread_local! {
    static DROPS: RefCell<Vec<u64>> = const { RefCell::new(Vec::new()) };
}

fn take_drops() -> Vec<u64> {
    DROPS.with(|d| std::mem::take(&mut *d.borrow_mut()))
}

trait Pay: Sized {
    const BITS: u32;
    fn make(tag: u64) -> Self;
    /// the tag, if every byte is as `make` produced it
    fn tag(&self) -> Option<u64>;
}

fn trunc(tag: u64, bits: u32) -> u64 {
    if bits >= 64 {
        tag
    } else {
        tag & ((1u64 << bits) - 1)
    }
}

impl Pay for u8 {
    const BITS: u32 = 8;
    fn make(tag: u64) -> Self {
        tag as u8
    }
    fn tag(&self) -> Option<u64> {
        Some(*self as u64)
    }
}
impl Pay for [u8; 3] {
    const BITS: u32 = 24;
    fn make(tag: u64) -> Self {
        [tag as u8, (tag >> 8) as u8, (tag >> 16) as u8]
    }
    fn tag(&self) -> Option<u64> {
        Some(self[0] as u64 | (self[1] as u64) << 8 | (self[2] as u64) << 16)
    }
}
impl Pay for u64 {
    const BITS: u32 = 64;
    fn make(tag: u64) -> Self {
        tag
    }
    fn tag(&self) -> Option<u64> {
        Some(*self)
    }
}
impl Pay for [u64; 2] {
    const BITS: u32 = 64;
    fn make(tag: u64) -> Self {
        [tag, !tag]
    }
    fn tag(&self) -> Option<u64> {
        if self[1] == !self[0] {
            Some(self[0])
        } else {
            None
        }
    }
}
impl Pay for u128 {
    const BITS: u32 = 64;
    fn make(tag: u64) -> Self {
        (tag as u128) | ((!tag as u128) << 64)
    }
    fn tag(&self) -> Option<u64> {
        let lo = *self as u64;
        if (*self >> 64) as u64 == !lo {
            Some(lo)
        } else {
            None
        }
    }
}
impl Pay for [u64; 32] {
    const BITS: u32 = 64;
    fn make(tag: u64) -> Self {
        let mut a = [0u64; 32];
        for (i, x) in a.iter_mut().enumerate() {
            *x = tag ^ (i as u64).wrapping_mul(0x9E37_79B9_7F4A_7C15);
        }
        a
    }
    fn tag(&self) -> Option<u64> {
        let tag = self[0];
        if *self == Self::make(tag) {
            Some(tag)
        } else {
            None
        }
    }
}
impl Pay for [u8; 2000] {
    const BITS: u32 = 64;
    fn make(tag: u64) -> Self {
        let mut a = [0u8; 2000];
        a[..8].copy_from_slice(&tag.to_le_bytes());
        for (i, x) in a.iter_mut().enumerate().skip(8) {
            *x = (tag.wrapping_mul(31).wrapping_add(i as u64) % 251) as u8;
        }
        a
    }
    fn tag(&self) -> Option<u64> {
        let tag = u64::from_le_bytes(self[..8].try_into().unwrap());
        if self[..] == Self::make(tag)[..] {
            Some(tag)
        } else {
            None
        }
    }
}

/// same layout as `T`, with a destructor that logs the tag (u64::MAX when the bytes are damaged)
#[repr(transparent)]
struct D<T: Pay>(T);
impl<T: Pay> Drop for D<T> {
    fn drop(&mut self) {
        let t = self.0.tag().unwrap_or(u64::MAX);
        let _ = DROPS.try_with(|d| d.borrow_mut().push(t));
    }
}
impl<T: Pay> Pay for D<T> {
    const BITS: u32 = T::BITS;
    fn make(tag: u64) -> Self {
        D(T::make(tag))
    }
    fn tag(&self) -> Option<u64> {
        self.0.tag()
    }
}

// u64x2: 64-byte nodes, u8x2000: 2048-byte nodes — node sizes that divide the page size exactly
const TYPES: [&str; 7] = ["u8", "u8x3", "u64", "u64x2", "u128", "u64x32", "u8x2000"];

fn node_layout(ty: &str) -> (usize, usize) {
    match ty {
        "u8" => CQueue::<u8>::verif_node_layout(),
        "u8x3" => CQueue::<[u8; 3]>::verif_node_layout(),
        "u64" => CQueue::<u64>::verif_node_layout(),
        "u64x2" => CQueue::<[u64; 2]>::verif_node_layout(),
        "u128" => CQueue::<u128>::verif_node_layout(),
        "u64x32" => CQueue::<[u64; 32]>::verif_node_layout(),
        _ => CQueue::<[u8; 2000]>::verif_node_layout(),
    }
}

fn bits_of(ty: &str) -> u32 {
    match ty {
        "u8" => 8,
        "u8x3" => 24,
        _ => 64,
    }
}

// ---------------------------------------------------------------------------------------------
// generator

const NS: [u64; 6] = [1, 2, 3, 4, 7, 32];
const TS: [u64; 7] = [1, 3, 1_000, 1_500, 2_500, 1_000_001, 2_500_000];

fn delta(r: &mut Rng, n: u64, t: u64) -> i128 {
    let year = n as i128 * t as i128;
    let t = t as i128;
    match r.below(14) {
        0 | 1 => 0,
        2 => r.below(3) as i128 * t,
        3 => (r.below(4) as i128) * (if t > 4 { t / 4 } else { 1 }),
        4 => year * r.range(1, 2) as i128,
        5 => r.below(4) as i128,
        6 => year + r.below(3) as i128 - 1,
        7 => t * r.range(1, 3) as i128 - 1,
        8 => t * r.range(1, 3) as i128 + 1,
        9 | 10 => t * r.below(2 * n + 3) as i128,
        11 => (r.below(1000) as i128) * t / 7,
        12 => -(r.range(1, 3) as i128) * (if r.chance(1, 2) { 1 } else { t }),
        _ => t + r.below(t.max(1) as u64) as i128,
    }
}

fn gen_raw(r: &mut Rng, out: &mut String, id: usize, thorough: bool) {
    let plog = *r.pick(&[8u32, 8, 8, 9, 9, 10, 12, 12, 14, 16]);
    let page = 1usize << plog;
    writeln!(out, "case {id} kind=raw page={page}").unwrap();
    let len = if thorough { r.range(20, 600) } else { r.range(10, 160) };
    // a few size classes per case make exact reuse, splits and abandoned tails all frequent
    let ncls = r.range(1, 5) as usize;
    let mut classes: Vec<(usize, u32)> = Vec::new();
    for _ in 0..ncls {
        let alog = *r.pick(&[0u32, 0, 1, 2, 3, 3, 3, 4, 4, 5, 6, 7]);
        let size = match r.below(10) {
            0 => r.below(17) as usize,                          // 0..16: the ListNode minimum
            1 | 2 | 3 => r.range(1, 96) as usize,
            4 | 5 => r.range(1, (page / 4) as u64) as usize,
            6 => r.range((page / 4) as u64, (page / 2) as u64) as usize,
            7 => page - 16 - r.below(24) as usize,              // around the largest size that fits
            8 => page,                                          // exactly one page
            _ => page + r.range(1, 64) as usize,                // larger than a page: Err(())
        };
        classes.push((size, alog));
    }
    let mut live: Vec<u64> = Vec::new();
    let mut tag = 0u64;
    for i in 0..len {
        let phase = (3 * i) / len;
        let p_alloc = match phase {
            0 => 7,
            1 => 5,
            _ => 3,
        };
        if live.is_empty() || r.below(10) < p_alloc {
            let (mut size, mut alog) = *r.pick(&classes);
            if r.chance(1, 8) {
                size = r.range(0, 200) as usize;
                alog = r.below(6) as u32;
            }
            // outside the stated range: find_region would never return
            if diverges(norm_size(size, 1 << alog), page) {
                size = page - 16;
                if diverges(norm_size(size, 1 << alog), page) {
                    size = 8;
                }
            }
            tag += 1;
            writeln!(out, "alloc {tag} {size} {alog}").unwrap();
            if norm_size(size, 1 << alog) <= page {
                live.push(tag);
            }
        } else {
            // free: newest, oldest or random
            let k = match r.below(3) {
                0 => live.len() - 1,
                1 => 0,
                _ => r.below(live.len() as u64) as usize,
            };
            let t = live.remove(k);
            writeln!(out, "free {t}").unwrap();
        }
    }
    if r.chance(1, 2) {
        for t in live.drain(..) {
            writeln!(out, "free {t}").unwrap();
        }
    }
    if r.chance(1, 15) {
        // outside the stated range on purpose: normalised size page-8 (the observer's page limit
        // stops the runaway; the model must say `diverged`)
        writeln!(out, "alloc {} {} {}", tag + 1, page - 8 - r.below(8) as usize, r.below(4)).unwrap();
    }
    writeln!(out, "end").unwrap();
}

fn gen_cq(r: &mut Rng, out: &mut String, id: usize, thorough: bool) {
    let ty = *r.pick(&TYPES);
    let dc = r.chance(1, 2) as u8;
    let (nsz, nal) = node_layout(ty);
    let nsize = norm_size(nsz, nal);
    let n = *r.pick(&NS);
    let t = *r.pick(&TS);
    // page sizes 256 … 65536 through the hook, or the OS page size through CQueue::new
    let mut page: usize = if r.chance(1, 5) {
        0
    } else {
        1usize << *r.pick(&[8u32, 8, 9, 9, 10, 10, 11, 12, 13, 14, 16])
    };
    let too_small = r.chance(1, 60);
    let window = (8..=16).map(|k| 1usize << k).find(|p| diverges(nsize, *p));
    if page != 0 {
        if too_small {
            while page >= nsize && page > 16 {
                page /= 2;
            }
        } else {
            while page < nsize || diverges(nsize, page) {
                page *= 2;
            }
        }
    }
    if ty == "u64" && r.chance(1, 12) {
        // EventNode<u64> is 56 bytes = 64 - 8: on 64-byte pages CQueue::new never returns
        page = 64;
    } else if let (Some(p), true) = (window, r.chance(1, 12)) {
        page = p;
    }
    writeln!(out, "case {id} kind=cq ty={ty} dc={dc} bits={} n={n} t={t} page={page}", bits_of(ty)).unwrap();
    let big = nsize > 1000;
    let len = if thorough { r.range(20, 900) } else if big { r.range(10, 120) } else { r.range(10, 260) };
    let mut adds = 0u64;
    let mut val = 0u64;
    let mut vals: Vec<u64> = Vec::new();
    for i in 0..len {
        let phase = (4 * i) / len;
        let w = match phase {
            0 => (7, 1, 2),
            1 => (3, 2, 6),
            2 => (6, 2, 3),
            _ => (2, 1, 6),
        };
        let x = r.below(w.0 + w.1 + w.2);
        if x < w.0 {
            val += 1;
            writeln!(out, "add {} {}", delta(r, n, t), val).unwrap();
            vals.push(val);
            adds += 1;
        } else if x < w.0 + w.1 {
            if adds > 0 {
                let k = if r.chance(2, 3) { adds - 1 - r.below(adds.min(6)) } else { r.below(adds) };
                writeln!(out, "cancel {}", vals[k as usize]).unwrap();
            }
        } else {
            // sometimes peek first, and sometimes cancel a recent event between the peek and the fetch
            if r.chance(1, 4) {
                writeln!(out, "peek").unwrap();
                if adds > 0 && r.chance(1, 2) {
                    let k = adds - 1 - r.below(adds.min(3));
                    writeln!(out, "cancel {}", vals[k as usize]).unwrap();
                }
            }
            writeln!(out, "fetch").unwrap();
        }
    }
    // most cases are dropped with events still pending; some are drained first
    if r.chance(1, 4) {
        for _ in 0..(adds + 1) {
            writeln!(out, "fetch").unwrap();
        }
    }
    // one case in six ends with events at Duration::MAX (never fetched: cancelled or dropped with the queue)
    if r.chance(1, 6) {
        for _ in 0..r.range(1, 3) {
            val += 1;
            writeln!(out, "add max {val}").unwrap();
            if r.chance(1, 3) {
                writeln!(out, "cancel {val}").unwrap();
            }
        }
    }
    writeln!(out, "drop").unwrap();
    writeln!(out, "end").unwrap();
}

pub fn gen(seed: u64, count: usize, thorough: bool) -> String {
    let mut r = Rng::new(seed);
    let mut out = String::new();
    for k in 0..count {
        if r.chance(2, 5) {
            gen_raw(&mut r, &mut out, k, thorough);
        } else {
            gen_cq(&mut r, &mut out, k, thorough);
        }
    }
    out
}

// ---------------------------------------------------------------------------------------------
// executor

fn fill_byte(tag: u64, i: usize) -> u8 {
    (tag.wrapping_mul(131).wrapping_add(i as u64 * 7) % 253) as u8
}

fn exec_raw(header: &str, body: &[String], out: &mut String) {
    let page: usize = hval(header, "page").and_then(|v| v.parse().ok()).unwrap_or(4096);
    writeln!(out, "{header}").unwrap();
    if !page.is_power_of_two() || page < 16 {
        writeln!(out, "new -> refused").unwrap();
        writeln!(out, "end").unwrap();
        return;
    }
    let mut pages = Pages::default();
    verif::observe_start();
    let mut a = VerifAllocator::with_page_size(page);
    writeln!(out, "new -> ok ev={}", pages.render(&verif::observe_take())).unwrap();
    // tag -> (addr, size, align)
    let mut live: Vec<(u64, usize, Layout)> = Vec::new();
    let mut runaway = false;
    for line in body {
        let tok: Vec<&str> = line.split_whitespace().collect();
        match tok.as_slice() {
            ["alloc", tag, size, alog] => {
                let (Ok(tag), Ok(size), Ok(alog)) = (tag.parse::<u64>(), size.parse::<usize>(), alog.parse::<u32>()) else { continue };
                if alog > 20 || size > (1 << 24) || live.iter().any(|l| l.0 == tag) {
                    continue;
                }
                let layout = Layout::from_size_align(size, 1 << alog).unwrap();
                if (1usize << alog) > page {
                    // whether such a request is ever served depends on the page's address
                    writeln!(out, "alloc {tag} {size} {alog} -> refused").unwrap();
                    continue;
                }
                let res = guarded(|| a.allocate(layout));
                let evs = pages.render(&verif::observe_take());
                if matches!(&res, Err(m) if m.contains(verif::PAGE_LIMIT_MSG)) {
                    // find_region kept adding pages: stopped by the observer's page limit
                    writeln!(out, "alloc {tag} {size} {alog} -> runaway ev={evs}").unwrap();
                    runaway = true;
                    break;
                }
                if !pages.violation {
                    pages.check_free(&a.snapshot());
                }
                if pages.violation {
                    // do not touch the block: report and stop the case
                    writeln!(out, "alloc {tag} {size} {alog} -> {} ev={evs}", if matches!(res, Ok(Some(_))) { "ok" } else { "err" }).unwrap();
                    break;
                }
                match res {
                    Ok(Some(addr)) => {
                        // the caller owns [addr, addr+size): fill it
                        for i in 0..size {
                            unsafe { ((addr + i) as *mut u8).write_volatile(fill_byte(tag, i)) };
                        }
                        live.push((tag, addr, layout));
                        writeln!(out, "alloc {tag} {size} {alog} -> ok ev={evs}").unwrap();
                    }
                    Ok(None) => writeln!(out, "alloc {tag} {size} {alog} -> err ev={evs}").unwrap(),
                    Err(_) => writeln!(out, "alloc {tag} {size} {alog} -> panic ev={evs}").unwrap(),
                }
            }
            ["free", tag] => {
                let Ok(tag) = tag.parse::<u64>() else { continue };
                let Some(k) = live.iter().position(|l| l.0 == tag) else { continue };
                let (_, addr, layout) = live.remove(k);
                let mut intact = true;
                for i in 0..layout.size() {
                    if unsafe { ((addr + i) as *const u8).read_volatile() } != fill_byte(tag, i) {
                        intact = false;
                    }
                }
                let res = guarded(|| unsafe { a.deallocate(addr, layout) });
                let evs = pages.render(&verif::observe_take());
                if !pages.violation {
                    pages.check_free(&a.snapshot());
                }
                writeln!(
                    out,
                    "free {tag} -> {} intact={} ev={evs}",
                    if res.is_ok() { "ok" } else { "panic" },
                    intact as u8
                )
                .unwrap();
                if pages.violation {
                    break;
                }
            }
            _ => continue,
        }
    }
    if runaway {
        // the case ends here (the model has no successor state for a call that never returns)
        verif::observe_stop();
        drop(a);
        writeln!(out, "end").unwrap();
        return;
    }
    if pages.violation {
        // leave the allocator alone (its bookkeeping may be damaged); the pages are leaked
        verif::observe_stop();
        std::mem::forget(a);
        writeln!(out, "abort -> harness-guard").unwrap();
        writeln!(out, "end").unwrap();
        return;
    }
    // blocks still live must be undamaged at the end as well
    let mut intact = true;
    for (tag, addr, layout) in &live {
        for i in 0..layout.size() {
            if unsafe { ((addr + i) as *const u8).read_volatile() } != fill_byte(*tag, i) {
                intact = false;
            }
        }
    }
    let snap = a.snapshot();
    let res = guarded(move || drop(a));
    let evs = pages.render(&verif::observe_take());
    verif::observe_stop();
    writeln!(
        out,
        "drop -> {} intact={} mem={} npages={} ev={evs}",
        if res.is_ok() { "ok" } else { "panic" },
        intact as u8,
        snap.allocated_mem,
        snap.pages.len()
    )
    .unwrap();
    writeln!(out, "end").unwrap();
}

fn list(v: &[u64], bits: u32) -> String {
    if v.is_empty() {
        "-".to_string()
    } else {
        v.iter().map(|x| if *x == u64::MAX { "X".to_string() } else { trunc(*x, bits).to_string() }).collect::<Vec<_>>().join(",")
    }
}

fn exec_cq<T: Pay>(header: &str, body: &[String], out: &mut String) {
    let n: usize = hval(header, "n").and_then(|v| v.parse().ok()).unwrap_or(1).max(1);
    let t: u64 = hval(header, "t").and_then(|v| v.parse().ok()).unwrap_or(1).max(1);
    let page: usize = hval(header, "page").and_then(|v| v.parse().ok()).unwrap_or(0);
    let dc = hval(header, "dc").map(|v| v == "1").unwrap_or(false);
    writeln!(out, "{header}").unwrap();
    let bits = T::BITS;
    let (nsz, nal) = CQueue::<T>::verif_node_layout();
    let psz = if page == 0 { 4096usize.max(page_size_of_os()) } else { page };
    if !psz.is_power_of_two() || psz < 16 || nal > psz {
        writeln!(out, "new -> refused nsize={nsz} nalign={nal} psz={psz}").unwrap();
        writeln!(out, "end").unwrap();
        return;
    }
    let mut pages = Pages::default();
    take_drops();
    verif::observe_start();
    let q = guarded(|| {
        if page == 0 {
            CQueue::<T>::new(n, Duration::from_nanos(t))
        } else {
            CQueue::<T>::verif_with_page_size(n, Duration::from_nanos(t), page)
        }
    });
    let evs = pages.render(&verif::observe_take());
    let mut q = match q {
        Ok(q) if pages.violation => {
            writeln!(out, "new -> ok nsize={nsz} nalign={nal} psz={psz} ev={evs}").unwrap();
            verif::observe_stop();
            std::mem::forget(q);
            writeln!(out, "abort -> harness-guard").unwrap();
            writeln!(out, "end").unwrap();
            return;
        }
        Ok(q) => {
            let psz = q.verif_snapshot().alloc.page_size;
            writeln!(out, "new -> ok nsize={nsz} nalign={nal} psz={psz} ev={evs}").unwrap();
            q
        }
        Err(m) => {
            let what = if m.contains(verif::PAGE_LIMIT_MSG) { "runaway" } else { "panic" };
            writeln!(out, "new -> {what} nsize={nsz} nalign={nal} psz={psz} ev={evs}").unwrap();
            verif::observe_stop();
            writeln!(out, "end").unwrap();
            return;
        }
    };
    // payload accounting over the whole case: (truncated tag, created, dropped)
    let mut created: Vec<u64> = Vec::new();
    let mut dropped: Vec<u64> = Vec::new();
    let mut handles: Vec<(u64, Option<EventHandle<T>>)> = Vec::new();
    let mut cur: i128 = 0;
    for line in body {
        let tok: Vec<&str> = line.split_whitespace().collect();
        let mut res = String::new();
        match tok.as_slice() {
            ["add", d, v] => {
                let is_max = *d == "max";
                let d: i128 = d.parse().unwrap_or(0);
                let v: u64 = v.parse().unwrap_or(0);
                // `add max v`: the very last instant, Duration::MAX (the timestamp of the bucket lists' tail sentinel)
                let (abs, dur) = if is_max {
                    (Duration::MAX.as_nanos(), Duration::MAX)
                } else {
                    let a = (cur + d).max(0) as u64;
                    (a as u128, Duration::from_nanos(a))
                };
                let payload = T::make(v);
                created.push(trunc(v, bits));
                match guarded(|| q.add(dur, payload)) {
                    Ok(h) => {
                        handles.push((v, Some(h)));
                        write!(res, "add {abs} {v} -> ok").unwrap();
                    }
                    Err(_) => write!(res, "add {abs} {v} -> panic").unwrap(),
                }
            }
            ["cancel", v] => {
                let v: u64 = v.parse().unwrap_or(u64::MAX);
                let Some(k) = handles.iter().position(|h| h.0 == v) else { continue };
                match handles.get_mut(k).and_then(|h| h.1.take()) {
                    Some(h) => match guarded(|| q.cancel(h)) {
                        Ok(()) => write!(res, "cancel {k} -> ok").unwrap(),
                        Err(_) => write!(res, "cancel {k} -> panic").unwrap(),
                    },
                    None => continue,
                }
            }
            ["fetch"] => match guarded(|| q.fetch_next()) {
                Ok((p, time)) => {
                    cur = time.as_nanos() as i128;
                    let during = take_drops();
                    let tag = p.tag();
                    write!(
                        res,
                        "fetch -> {}@{} intact={}",
                        tag.map(|x| trunc(x, bits).to_string()).unwrap_or("X".into()),
                        time.as_nanos(),
                        tag.is_some() as u8
                    )
                    .unwrap();
                    // the caller drops what it was given (counted, not part of the call)
                    drop(p);
                    dropped.extend(take_drops().iter().map(|x| trunc(*x, bits)));
                    DROPS.with(|d| *d.borrow_mut() = during);
                }
                Err(_) => write!(res, "fetch -> panic").unwrap(),
            },
            ["peek"] => match guarded(|| q.next_time()) {
                Ok(Some(t)) => write!(res, "peek -> {}", t.as_nanos()).unwrap(),
                Ok(None) => write!(res, "peek -> none").unwrap(),
                Err(_) => write!(res, "peek -> panic").unwrap(),
            },
            _ => continue,
        }
        let d = take_drops();
        dropped.extend(d.iter().map(|x| trunc(*x, bits)));
        let evs = pages.render(&verif::observe_take());
        if !pages.violation && evs != "-" {
            pages.check_free(&q.verif_snapshot().alloc);
        }
        writeln!(
            out,
            "{res} len={} time={} empty={} d={} ev={evs}",
            q.len(),
            q.time().as_nanos(),
            q.is_empty() as u8,
            list(&d, bits)
        )
        .unwrap();
        if pages.violation {
            break;
        }
    }
    if pages.violation {
        // the node memory is no longer trustworthy: do not run the queue's destructor
        verif::observe_stop();
        std::mem::forget(q);
        writeln!(out, "abort -> harness-guard").unwrap();
        writeln!(out, "end").unwrap();
        return;
    }
    let snap = q.verif_snapshot();
    let r = guarded(move || drop(q));
    let d = take_drops();
    dropped.extend(d.iter().map(|x| trunc(*x, bits)));
    let evs = pages.render(&verif::observe_take());
    verif::observe_stop();
    // every payload created must have been dropped exactly once by now
    let mut bad = Vec::new();
    if dc {
        let mut c = created.clone();
        c.sort_unstable();
        let mut dd = dropped.clone();
        dd.sort_unstable();
        let mut keys = c.clone();
        keys.extend(dd.iter());
        keys.sort_unstable();
        keys.dedup();
        for k in keys {
            let a = c.iter().filter(|x| **x == k).count();
            let b = dd.iter().filter(|x| **x == k).count();
            if a != b {
                bad.push(format!("{k}:{a}:{b}"));
            }
        }
    }
    writeln!(
        out,
        "drop -> {} mem={} npages={} d={} bad={} ev={evs}",
        if r.is_ok() { "ok" } else { "panic" },
        snap.alloc.allocated_mem,
        snap.alloc.pages.len(),
        list(&d, bits),
        if bad.is_empty() { "-".to_string() } else { bad.join(",") }
    )
    .unwrap();
    writeln!(out, "end").unwrap();
}

fn page_size_of_os() -> usize {
    // CQueue::new asks `page_size::get()`; the harness learns the value from the first AddPage
    // event, this is only the default used to refuse diverging configurations
    4096
}

pub fn exec(input: &str) -> String {
    let mut out = String::new();
    // a find_region that does not terminate is cut off after this many fresh pages in one call
    verif::set_page_limit(6);
    for (header, body) in cases(input) {
        let body: Vec<String> = body
            .into_iter()
            .filter(|l| !(l.starts_with("new") || l.starts_with("drop") || l.starts_with("abort")))
            .collect();
        match hval(&header, "kind").as_deref() {
            Some("raw") => exec_raw(&header, &body, &mut out),
            Some("cq") => {
                let dc = hval(&header, "dc").map(|v| v == "1").unwrap_or(false);
                let ty = hval(&header, "ty").unwrap_or_default();
                match (ty.as_str(), dc) {
                    ("u8", false) => exec_cq::<u8>(&header, &body, &mut out),
                    ("u8", true) => exec_cq::<D<u8>>(&header, &body, &mut out),
                    ("u8x3", false) => exec_cq::<[u8; 3]>(&header, &body, &mut out),
                    ("u8x3", true) => exec_cq::<D<[u8; 3]>>(&header, &body, &mut out),
                    ("u64", false) => exec_cq::<u64>(&header, &body, &mut out),
                    ("u64", true) => exec_cq::<D<u64>>(&header, &body, &mut out),
                    ("u64x2", false) => exec_cq::<[u64; 2]>(&header, &body, &mut out),
                    ("u64x2", true) => exec_cq::<D<[u64; 2]>>(&header, &body, &mut out),
                    ("u128", false) => exec_cq::<u128>(&header, &body, &mut out),
                    ("u128", true) => exec_cq::<D<u128>>(&header, &body, &mut out),
                    ("u64x32", false) => exec_cq::<[u64; 32]>(&header, &body, &mut out),
                    ("u64x32", true) => exec_cq::<D<[u64; 32]>>(&header, &body, &mut out),
                    ("u8x2000", false) => exec_cq::<[u8; 2000]>(&header, &body, &mut out),
                    ("u8x2000", true) => exec_cq::<D<[u8; 2000]>>(&header, &body, &mut out),
                    _ => {
                        writeln!(out, "{header}\nnew -> refused\nend").unwrap();
                    }
                }
            }
            _ => {
                writeln!(out, "{header}\nnew -> refused\nend").unwrap();
            }
        }
    }
    out
}

//! C14: processing elements bracket every module event in stack order.
//!
//! Every case is one real `des` network simulation (1-3 modules, 0-6 scripted
//! `ProcessingElement`s per module, supplied globally through `SimBuilder::set_stack` and per
//! module through `Module::stack`).  Every element hook and every handler callback appends
//! `(module, who, hook, message id, SimTime)` to one global log; the transcript is the script
//! followed by that log, which the Lean driver compares with the log of the model
//! (`Proc.run`, lean/Desverif/Model/Proc.lean) entry by entry.
//!
//! Script lines (all objects are named by tags, so any line may be deleted):
//!   mod <M> stages=<s> mode=append|prepend|replace     a module; order of lines = creation order
//!   gel <E>                                            global element (instantiated for every module)
//!   el <E> mod=<M>                                     element added by `Module::stack` of <M>
//!   rule <E> <msgid> pass|consume|mod:<newid>          what `incoming` of <E> does with message <msgid>
//!   emit <who> <hook> <key> sched|send <dst> <delay> <id> [task=<extra>]
//!        who  = <E> (every instance of the element) or H:<M> (the handler of module <M>)
//!        hook = start|end (key = ordinal of the instance's own event_start / event_end calls)
//!               inc (element, key = message id seen) | msg (handler, key = message id)
//!               simstart (handler, key = stage) | simend (handler, key = 0)
//!        sched: schedule_in(msg(id), delay) on the emitting module
//!        send : send / send_in over the gate to module <dst> (dst = own module => schedule_in)
//!        task=<extra> (handler hooks only): spawn a tokio task that sleeps extra+1 ns and then emits;
//!        with fin=panic the task panics instead of emitting, with fin=hang it then awaits for ever;
//!        join=must|try registers the task's handle with current().join / current().try_join
//!   down <who> <hook> <n> <d|->                        on the n-th call (0-based, counted per instance over the whole run)
//!        of that hook request a shutdown: `-` = current().shutdown(), d = current().shutdow_and_restart_in(d ns);
//!        who/hook = <E> start|inc|end  or  H:<M> msg|simstart
//!   init <M> <id> <time>                               message injected before the run
//! Transcript: the same lines, then `obs <M> <who> <hook> <msgid|-> <ns>` per logged call
//! (`obs <M> <who> down <restart ns|-> <ns>` for a shutdown request, right after the call that made it), then
//! `res ok|err=<kind> time=<ns>`; a run that ends with join errors answers
//! `res err=join:<M>/<NotFinished|Paniced|Tokio>,... time=0` (errors in the order `run()` reports them).
use crate::rng::Rng;
use crate::util::{cases, guarded};
use des::net::processing::{ProcessingElement, ProcessingStack};
use des::prelude::*;
use std::collections::HashMap;
use std::fmt::Write;
use std::sync::{Arc, Mutex};

// ------------------------------------------------------------------------------------------ script

#[derive(Clone, Debug)]
enum Act {
    Pass,
    Consume,
    Modify(u16),
}

#[derive(Clone, Debug)]
struct Emit {
    send: bool,
    dst: String,
    delay: u64,
    id: u16,
    task: Option<u64>,
    join: u8, // 0 none, 1 must, 2 try
    fin: u8,  // 0 emit, 1 panic, 2 hang
}

#[derive(Clone, Debug, Default)]
struct ElemSpec {
    tag: String,
    rules: HashMap<u16, Act>,
    start: HashMap<u64, Vec<Emit>>,
    inc: HashMap<u64, Vec<Emit>>,
    end: HashMap<u64, Vec<Emit>>,
    down_start: HashMap<u64, Vec<Option<u64>>>,
    down_inc: HashMap<u64, Vec<Option<u64>>>,
    down_end: HashMap<u64, Vec<Option<u64>>>,
}

#[derive(Clone, Debug, Default)]
struct ModSpec {
    tag: String,
    stages: usize,
    mode: String,
    own: Vec<ElemSpec>,
    msg: HashMap<u64, Vec<Emit>>,
    simstart: HashMap<u64, Vec<Emit>>,
    simend: HashMap<u64, Vec<Emit>>,
    down_msg: HashMap<u64, Vec<Option<u64>>>,
    down_simstart: HashMap<u64, Vec<Option<u64>>>,
}

#[derive(Default)]
struct Script {
    mods: Vec<ModSpec>,
    globals: Vec<ElemSpec>,
    inits: Vec<(String, u16, u64)>,
}

fn parse(body: &[String]) -> Script {
    let mut sc = Script::default();
    // pass 1: objects
    for line in body {
        let t: Vec<&str> = line.split_whitespace().collect();
        match t.as_slice() {
            ["mod", m, rest @ ..] => {
                if sc.mods.iter().any(|x| x.tag == *m) {
                    continue;
                }
                let mut ms = ModSpec { tag: m.to_string(), stages: 1, mode: "append".into(), ..Default::default() };
                for kv in rest {
                    if let Some(v) = kv.strip_prefix("stages=") {
                        ms.stages = v.parse().unwrap_or(1);
                    }
                    if let Some(v) = kv.strip_prefix("mode=") {
                        ms.mode = v.to_string();
                    }
                }
                sc.mods.push(ms);
            }
            _ => {}
        }
    }
    let known = |sc: &Script, e: &str| sc.globals.iter().any(|x| x.tag == e) || sc.mods.iter().any(|m| m.own.iter().any(|x| x.tag == e));
    for line in body {
        let t: Vec<&str> = line.split_whitespace().collect();
        match t.as_slice() {
            ["gel", e] => {
                if !known(&sc, e) {
                    sc.globals.push(ElemSpec { tag: e.to_string(), ..Default::default() });
                }
            }
            ["el", e, m] => {
                if known(&sc, e) {
                    continue;
                }
                if let Some(m) = m.strip_prefix("mod=") {
                    if let Some(ms) = sc.mods.iter_mut().find(|x| x.tag == m) {
                        ms.own.push(ElemSpec { tag: e.to_string(), ..Default::default() });
                    }
                }
            }
            _ => {}
        }
    }
    // pass 2: behaviour
    let modtags: Vec<String> = sc.mods.iter().map(|m| m.tag.clone()).collect();
    for line in body {
        let t: Vec<&str> = line.split_whitespace().collect();
        match t.as_slice() {
            ["rule", e, id, act] => {
                let Ok(id) = id.parse::<u16>() else { continue };
                let act = match *act {
                    "pass" => Act::Pass,
                    "consume" => Act::Consume,
                    a => match a.strip_prefix("mod:").and_then(|v| v.parse::<u16>().ok()) {
                        Some(n) => Act::Modify(n),
                        None => continue,
                    },
                };
                if let Some(es) = find_elem(&mut sc, e) {
                    es.rules.entry(id).or_insert(act);
                }
            }
            ["emit", who, hook, key, kind, dst, delay, id, rest @ ..] => {
                let (Ok(key), Ok(delay), Ok(id)) = (key.parse::<u64>(), delay.parse::<u64>(), id.parse::<u16>()) else { continue };
                let send = match *kind {
                    "send" => true,
                    "sched" => false,
                    _ => continue,
                };
                if send && !modtags.iter().any(|m| m == dst) {
                    continue; // unknown destination: the emission does not exist
                }
                let mut task = None;
                let mut join = 0u8;
                let mut fin = 0u8;
                for kv in rest {
                    if let Some(v) = kv.strip_prefix("task=") {
                        task = v.parse::<u64>().ok();
                    }
                    match *kv {
                        "join=must" => join = 1,
                        "join=try" => join = 2,
                        "fin=panic" => fin = 1,
                        "fin=hang" => fin = 2,
                        _ => {}
                    }
                }
                if task.is_none() {
                    join = 0;
                    fin = 0;
                }
                let em = Emit { send, dst: dst.to_string(), delay, id, task, join, fin };
                if let Some(m) = who.strip_prefix("H:") {
                    let Some(ms) = sc.mods.iter_mut().find(|x| x.tag == m) else { continue };
                    match *hook {
                        "msg" => ms.msg.entry(key).or_default().push(em),
                        "simstart" => ms.simstart.entry(key).or_default().push(em),
                        "simend" => ms.simend.entry(key).or_default().push(em),
                        _ => {}
                    }
                } else if let Some(es) = find_elem(&mut sc, who) {
                    let em = Emit { task: None, join: 0, fin: 0, ..em };
                    match *hook {
                        "start" => es.start.entry(key).or_default().push(em),
                        "inc" => es.inc.entry(key).or_default().push(em),
                        "end" => es.end.entry(key).or_default().push(em),
                        _ => {}
                    }
                }
            }
            ["down", who, hook, key, r] => {
                let Ok(key) = key.parse::<u64>() else { continue };
                let r = if *r == "-" {
                    None
                } else {
                    match r.parse::<u64>() {
                        Ok(v) => Some(v),
                        Err(_) => continue,
                    }
                };
                if let Some(m) = who.strip_prefix("H:") {
                    let Some(ms) = sc.mods.iter_mut().find(|x| x.tag == m) else { continue };
                    match *hook {
                        "msg" => ms.down_msg.entry(key).or_default().push(r),
                        "simstart" => ms.down_simstart.entry(key).or_default().push(r),
                        _ => {}
                    }
                } else if let Some(es) = find_elem(&mut sc, who) {
                    match *hook {
                        "start" => es.down_start.entry(key).or_default().push(r),
                        "inc" => es.down_inc.entry(key).or_default().push(r),
                        "end" => es.down_end.entry(key).or_default().push(r),
                        _ => {}
                    }
                }
            }
            ["init", m, id, time] => {
                let (Ok(id), Ok(time)) = (id.parse::<u16>(), time.parse::<u64>()) else { continue };
                if modtags.iter().any(|x| x == m) {
                    sc.inits.push((m.to_string(), id, time));
                }
            }
            _ => {}
        }
    }
    sc
}

fn find_elem<'a>(sc: &'a mut Script, tag: &str) -> Option<&'a mut ElemSpec> {
    if let Some(i) = sc.globals.iter().position(|x| x.tag == tag) {
        return Some(&mut sc.globals[i]);
    }
    for m in sc.mods.iter_mut() {
        if let Some(i) = m.own.iter().position(|x| x.tag == tag) {
            return Some(&mut m.own[i]);
        }
    }
    None
}

// ------------------------------------------------------------------------------------------ real code

static LOG: Mutex<Vec<String>> = Mutex::new(Vec::new());
/// tag of the module whose node is being built (the `set_stack` factory does not know it)
static BUILDING: Mutex<String> = Mutex::new(String::new());

fn log(module: &str, who: &str, hook: &str, msg: Option<u16>) {
    let t = SimTime::now().as_nanos();
    let m = msg.map(|v| v.to_string()).unwrap_or_else(|| "-".into());
    LOG.lock().unwrap().push(format!("obs {module} {who} {hook} {m} {t}"));
}

fn do_emit(own: &str, e: &Emit) {
    let msg = Message::default().id(e.id);
    let d = Duration::from_nanos(e.delay);
    if e.send && e.dst != own {
        let gate = format!("o_{}", e.dst);
        if e.delay == 0 {
            send(msg, gate.as_str());
        } else {
            send_in(msg, gate.as_str(), d);
        }
    } else {
        schedule_in(msg, d);
    }
}

fn emit_all(own: &str, es: Option<&Vec<Emit>>) {
    for e in es.into_iter().flatten() {
        match e.task {
            None => do_emit(own, e),
            Some(extra) => {
                let own = own.to_string();
                let e2 = e.clone();
                let handle = tokio::spawn(async move {
                    des::time::sleep(Duration::from_nanos(extra + 1)).await;
                    match e2.fin {
                        1 => panic!("c14: scripted task panic"),
                        2 => std::future::pending::<()>().await,
                        _ => do_emit(&own, &e2),
                    }
                });
                match e.join {
                    1 => current().join(handle),
                    2 => current().try_join(handle),
                    _ => drop(handle),
                }
            }
        }
    }
}

fn down_all(module: &str, who: &str, rs: Option<&Vec<Option<u64>>>) {
    for r in rs.into_iter().flatten() {
        let now = SimTime::now().as_nanos();
        match r {
            None => {
                current().shutdown();
                LOG.lock().unwrap().push(format!("obs {module} {who} down - {now}"));
            }
            Some(d) => {
                current().shutdow_and_restart_in(Duration::from_nanos(*d));
                LOG.lock().unwrap().push(format!("obs {module} {who} down {} {now}", now + *d as u128));
            }
        }
    }
}

struct Elem {
    module: String,
    spec: Arc<ElemSpec>,
    starts: u64,
    incs: u64,
    ends: u64,
}

impl ProcessingElement for Elem {
    fn event_start(&mut self) {
        log(&self.module, &self.spec.tag, "start", None);
        emit_all(&self.module, self.spec.start.get(&self.starts));
        down_all(&self.module, &self.spec.tag, self.spec.down_start.get(&self.starts));
        self.starts += 1;
    }
    fn incoming(&mut self, mut msg: Message) -> Option<Message> {
        let id = msg.header().id;
        log(&self.module, &self.spec.tag, "inc", Some(id));
        emit_all(&self.module, self.spec.inc.get(&(id as u64)));
        down_all(&self.module, &self.spec.tag, self.spec.down_inc.get(&self.incs));
        self.incs += 1;
        match self.spec.rules.get(&id) {
            None | Some(Act::Pass) => Some(msg),
            Some(Act::Consume) => None,
            Some(Act::Modify(n)) => {
                msg.header_mut().id = *n;
                Some(msg)
            }
        }
    }
    fn event_end(&mut self) {
        log(&self.module, &self.spec.tag, "end", None);
        emit_all(&self.module, self.spec.end.get(&self.ends));
        down_all(&self.module, &self.spec.tag, self.spec.down_end.get(&self.ends));
        self.ends += 1;
    }
}

struct Handler {
    spec: Arc<ModSpec>,
    // call counters; `Module::reset` (default: nothing) leaves them alone, so they count over restarts
    hmsgs: u64,
    hstarts: u64,
}

impl Module for Handler {
    fn stack(&self, stack: ProcessingStack) -> ProcessingStack {
        let mut own = ProcessingStack::default();
        for e in &self.spec.own {
            own.append(Elem { module: self.spec.tag.clone(), spec: Arc::new(e.clone()), starts: 0, incs: 0, ends: 0 });
        }
        match self.spec.mode.as_str() {
            "prepend" => {
                own.append(stack);
                own
            }
            "replace" => own,
            _ => {
                let mut stack = stack;
                stack.append(own);
                stack
            }
        }
    }
    fn num_sim_start_stages(&self) -> usize {
        self.spec.stages
    }
    fn at_sim_start(&mut self, stage: usize) {
        log(&self.spec.tag, "H", "simstart", Some(stage as u16));
        emit_all(&self.spec.tag, self.spec.simstart.get(&(stage as u64)));
        down_all(&self.spec.tag, "H", self.spec.down_simstart.get(&self.hstarts));
        self.hstarts += 1;
    }
    fn handle_message(&mut self, msg: Message) {
        let id = msg.header().id;
        log(&self.spec.tag, "H", "msg", Some(id));
        emit_all(&self.spec.tag, self.spec.msg.get(&(id as u64)));
        down_all(&self.spec.tag, "H", self.spec.down_msg.get(&self.hmsgs));
        self.hmsgs += 1;
    }
    fn at_sim_end(&mut self) -> Result<(), RuntimeError> {
        log(&self.spec.tag, "H", "simend", None);
        emit_all(&self.spec.tag, self.spec.simend.get(&0));
        Ok(())
    }
}

fn simulate(sc: &Script) -> Result<u128, String> {
    LOG.lock().unwrap().clear();
    let mut sim = Sim::new(());
    if !sc.globals.is_empty() {
        let globals: Vec<Arc<ElemSpec>> = sc.globals.iter().map(|g| Arc::new(g.clone())).collect();
        sim.set_stack(move || {
            let module = BUILDING.lock().unwrap().clone();
            let mut st = ProcessingStack::default();
            for g in &globals {
                st.append(Elem { module: module.clone(), spec: g.clone(), starts: 0, incs: 0, ends: 0 });
            }
            st
        });
    }
    for m in &sc.mods {
        *BUILDING.lock().unwrap() = m.tag.clone();
        sim.node(m.tag.as_str(), Handler { spec: Arc::new(m.clone()), hmsgs: 0, hstarts: 0 });
    }
    for a in &sc.mods {
        for b in &sc.mods {
            if a.tag != b.tag {
                let o = sim.gate(a.tag.as_str(), &format!("o_{}", b.tag));
                let i = sim.gate(b.tag.as_str(), &format!("i_{}", a.tag));
                o.connect(i, None);
            }
        }
    }
    let mut rt = Builder::seeded(1).quiet().build(sim.freeze());
    for (m, id, time) in &sc.inits {
        let Some(module) = rt.app.globals().get(&ObjectPath::from(m.as_str())) else { continue };
        rt.handle_message_on(module, Message::default().id(*id), SimTime::from_duration(Duration::from_nanos(*time)));
    }
    match rt.run() {
        Ok((_, time, _)) => Ok(time.as_nanos()),
        Err(e) => {
            // join errors display as "<path>: <Kind>[(..)]"; anything else keeps its debug text
            let mut parts = Vec::new();
            let mut all_join = !e.is_empty();
            for err in e.iter() {
                let txt = format!("{err}");
                match txt.split_once(": ") {
                    Some((path, kind)) if ["NotFinished", "Paniced", "Tokio"].iter().any(|k| kind.starts_with(k)) => {
                        let kind: String = kind.chars().take_while(|c| c.is_alphanumeric()).collect();
                        parts.push(format!("{path}/{kind}"));
                    }
                    _ => all_join = false,
                }
            }
            if all_join {
                Err(format!("join:{}", parts.join(",")))
            } else {
                Err(format!("runtime:{}", format!("{e:?}").chars().filter(|c| !c.is_whitespace()).take(80).collect::<String>()))
            }
        }
    }
}

pub fn exec(input: &str) -> String {
    let mut out = String::new();
    for (header, body) in cases(input) {
        writeln!(out, "{header}").unwrap();
        let body: Vec<String> = body.into_iter().filter(|l| !l.starts_with("obs ") && !l.starts_with("res ")).collect();
        for l in &body {
            writeln!(out, "{l}").unwrap();
        }
        let sc = parse(&body);
        let res = guarded(|| simulate(&sc));
        for l in LOG.lock().unwrap().iter() {
            writeln!(out, "{l}").unwrap();
        }
        match res {
            Ok(Ok(t)) => writeln!(out, "res ok time={t}").unwrap(),
            Ok(Err(e)) => writeln!(out, "res err={e} time=0").unwrap(),
            Err(p) => {
                let p: String = p.chars().filter(|c| !c.is_whitespace()).take(80).collect();
                writeln!(out, "res err=panic:{p} time=0").unwrap()
            }
        }
        writeln!(out, "end").unwrap();
    }
    out
}

// ------------------------------------------------------------------------------------------ generator

/// joined tasks: handles registered with join / try_join, tasks that finish, panic or hang (so that the
/// simulation may end with NotFinished / Paniced / — after a shutdown — Tokio join errors)
fn task_opts(r: &mut Rng) -> String {
    let join = *r.pick(&["", "", "", " join=must", " join=must", " join=try"]);
    let fin = *r.pick(&["", "", "", "", "", " fin=panic", " fin=hang"]);
    format!("{join}{fin}")
}

const DELAYS: [u64; 6] = [0, 0, 1, 2, 5, 1000];

pub fn gen(seed: u64, count: usize, thorough: bool) -> String {
    let mut r = Rng::new(seed);
    let mut out = String::new();
    for k in 0..count {
        writeln!(out, "case {k}").unwrap();
        let nmods = r.range(1, 3) as usize;
        let mods: Vec<String> = (0..nmods).map(|i| format!("M{i}")).collect();
        // stack sizes: total per module 0..6
        let nglob = if r.chance(1, 4) { 0 } else { r.below(4) as usize };
        let globals: Vec<String> = (0..nglob).map(|i| format!("G{i}")).collect();
        for g in &globals {
            writeln!(out, "gel {g}").unwrap();
        }
        let mut elems: Vec<String> = globals.clone();
        for (i, m) in mods.iter().enumerate() {
            let stages = *r.pick(&[1u64, 1, 1, 2, 3, 0]);
            let mode = *r.pick(&["append", "append", "append", "prepend", "replace"]);
            writeln!(out, "mod {m} stages={stages} mode={mode}").unwrap();
            let room = if mode == "replace" { 6 } else { 6 - nglob };
            let nown = if r.chance(1, 4) { 0 } else { r.below(room as u64 + 1) as usize };
            for j in 0..nown {
                let e = format!("E{i}{j}");
                writeln!(out, "el {e} mod={m}").unwrap();
                elems.push(e);
            }
        }
        // message ids: a small alphabet so that rules and emissions hit
        let nid = r.range(3, 10);
        let ids: Vec<u16> = (1..=nid as u16).collect();
        // incoming rules
        for e in &elems {
            for id in &ids {
                let x = r.below(10);
                if x < 2 {
                    writeln!(out, "rule {e} {id} consume").unwrap();
                } else if x < 4 && (*id as u64) < nid {
                    let n = r.range(*id as u64 + 1, nid);
                    writeln!(out, "rule {e} {id} mod:{n}").unwrap();
                } else if x < 5 {
                    writeln!(out, "rule {e} {id} pass").unwrap();
                }
            }
        }
        // emissions; the message-keyed ones emit strictly larger ids (termination), and their number is bounded
        let mut whos: Vec<String> = elems.clone();
        for m in &mods {
            whos.push(format!("H:{m}"));
        }
        let nem = if thorough { r.range(3, 20) } else { r.range(2, 12) };
        let mut keyed = 0;
        let mut last: Option<(String, &str, u64)> = None;
        for _ in 0..nem {
            // every third line or so repeats the previous (who, hook, key): several sends from one call
            let (who, hook, key) = match (&last, r.chance(1, 3)) {
                (Some(l), true) => l.clone(),
                _ => {
                    let who = r.pick(&whos).clone();
                    let hook = if who.starts_with("H:") { *r.pick(&["msg", "msg", "msg", "simstart", "simstart", "simend"]) } else { *r.pick(&["start", "inc", "inc", "end"]) };
                    let key = match hook {
                        "msg" | "inc" => r.range(1, nid),
                        "simstart" => r.below(3),
                        "simend" => 0,
                        _ => r.below(6),
                    };
                    (who, hook, key)
                }
            };
            let handler = who.starts_with("H:");
            let dst = r.pick(&mods).clone();
            let kind = if r.chance(1, 2) { "send" } else { "sched" };
            let delay = *r.pick(&DELAYS);
            let id = match hook {
                "msg" | "inc" => {
                    if key >= nid || keyed >= 8 {
                        continue;
                    }
                    keyed += 1;
                    r.range(key + 1, nid)
                }
                _ => r.range(1, nid),
            };
            let task = if handler && hook != "simend" && r.chance(2, 5) { format!(" task={}{}", r.pick(&[0u64, 0, 1, 4, 999]), task_opts(&mut r)) } else { String::new() };
            writeln!(out, "emit {who} {hook} {key} {kind} {dst} {delay} {id}{task}").unwrap();
            last = Some((who, hook, key));
        }
        // occasionally one big burst from a single callback: > 32 sends with unsorted, tie-heavy due times and
        // distinct ids (program order of same-time emissions must survive the flush of the emission buffer)
        if r.chance(1, 8) {
            let m = r.pick(&mods).clone();
            let dst = r.pick(&mods).clone();
            let n = r.range(34, 64);
            let ds = [*r.pick(&DELAYS), *r.pick(&DELAYS), *r.pick(&DELAYS)];
            let kind = if r.chance(1, 2) { "send" } else { "sched" };
            for i in 0..n {
                let delay = ds[((i * 7 + i / 3) % 3) as usize];
                writeln!(out, "emit H:{m} simstart 0 {kind} {dst} {delay} {}", 100 + i).unwrap();
            }
        }
        // lifecycle (half of the cases): element hooks and handlers that shut their module down, for good or with a
        // restart, on their n-th call; timeouts and gate messages that fall due during the down time; traffic after
        // the restart
        let life = r.chance(1, 2);
        if life {
            for _ in 0..r.range(1, 3) {
                let who = r.pick(&whos).clone();
                let hook = if who.starts_with("H:") { *r.pick(&["msg", "msg", "simstart"]) } else { *r.pick(&["start", "inc", "end"]) };
                let n = *r.pick(&[0u64, 0, 1, 1, 2, 3, 4, 6]);
                let d = *r.pick(&["-", "0", "1", "2", "3", "5", "10", "10", "1000"]);
                writeln!(out, "down {who} {hook} {n} {d}").unwrap();
            }
            for _ in 0..r.range(1, 4) {
                let who = r.pick(&whos).clone();
                let handler = who.starts_with("H:");
                let hook = if handler { "simstart" } else { *r.pick(&["start", "end"]) };
                let key = if handler { r.below(2) } else { r.below(4) };
                let kind = if r.chance(1, 2) { "send" } else { "sched" };
                let dst = r.pick(&mods).clone();
                let delay = *r.pick(&[1u64, 2, 3, 4, 6, 8, 11]);
                let task = if handler && r.chance(1, 3) { format!(" task={}{}", r.pick(&[0u64, 2, 6]), task_opts(&mut r)) } else { String::new() };
                writeln!(out, "emit {who} {hook} {key} {kind} {dst} {delay} {}{task}", r.range(1, nid)).unwrap();
            }
            for _ in 0..r.range(2, 6) {
                let m = r.pick(&mods);
                let t = *r.pick(&[1u64, 2, 3, 4, 5, 6, 8, 9, 10, 12, 15, 20, 1000, 1002, 1010, 2000]);
                writeln!(out, "init {m} {} {t}", r.range(1, nid)).unwrap();
            }
        }
        // injected messages
        let ninit = r.range(1, if thorough { 8 } else { 5 });
        for _ in 0..ninit {
            let m = r.pick(&mods);
            let id = r.range(1, nid);
            let t = *r.pick(&[0u64, 0, 1, 2, 3, 5, 7, 1000, 1001]);
            writeln!(out, "init {m} {id} {t}").unwrap();
        }
        writeln!(out, "end").unwrap();
    }
    out
}

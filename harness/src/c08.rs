//! C08: gate chains built with the real `des::net` builder API and messages sent through them.
//!
//! Script lines (objects are named, so scripts survive line deletion):
//!   mod m<i> [down=<ns>]                       create module `m<i>`; with `down` the module calls
//!                                              `current().shutdown()` at that time (it is inactive afterwards)
//!   gate g<j> mod=m<i>                         single gate named `g<j>` on that module
//!   gate g<j> mod=m<i> cl=c<k> pos=<p> size=<s>   member `p` of the gate cluster `c<k>` (size `s`)
//!   (gate … raw=1: the cluster member is created on its own with `create_raw_gate`, in script order)
//!   (connect … q=<bytes>: the channel queues at most <bytes> (`Queue(Some(..))`) instead of without limit)
//!   (connect … drop=1: `ChannelDropBehaviour::Drop` instead of `Queue`; jit=<ns>: the channel has that much jitter —
//!    the arrival time of a message that crosses it is only known up to the sum of the jitters)
//!   (send … burst=<n>: <n> messages back to back in the same handler; via=ctx|tuple|ref: the gate is found with
//!    `current().gate(name, pos)`, addressed as `(name, pos)`, or passed as the GateRef kept at creation)
//!   connect g<a> g<b> ch=none|<ns> [br=<bit/s>]   `g<a>.connect(g<b>, channel)`; channel = latency <ns>, bitrate
//!                                              <br> (default 0 = no transmission time, never busy), no jitter
//!   lconnect g<a> g<b> ch=… [br=…] at=<ns> by=m<i>   the same call made at run time: module m<i> connects the
//!                                              two gates from its `handle_message` at time <at>
//!   walk g<j>                                  observe kind / path_iter / next_gate / path_end / prev_hop
//!   send s<i> gate=g<j> at=<ns> delay=<ns> from=start|msg
//!                                              the owner of g<j> calls `send` (delay 0) or `send_in`
//!                                              at time <at> from `at_sim_start` (at = 0) or `handle_message`
//!        optional: rcv=m<k> / snd=m<k>      the message is built with `.receiver_module_id(..)` / `.sender_module_id(..)`
//!                  fwd=<gate>:<delay>,…     forwarding: the module that receives the message sends the received
//!                                           message object on — over its gate g<x> or `back` through the gate it
//!                                           arrived on — with `send` (delay 0) or `send_in`; one entry per further leg
//! Transcript: each executed line + ` -> answer`.
//!   connect … -> ok [tx=<ns>] | panic         tx = `Channel::calculate_busy` of the (64 byte) test message, read from the code
//!   lconnect … -> ok [tx=<ns>] | notrun | skipped   notrun: the module never got to it (shut down); skipped: a gate was full
//!   walk g -> kind=<standalone|endpoint|transit> next=<g|none> end=<g|none> path=<g:ch,…|empty|none> prev=<g,…|empty|none>
//!   send … -> n=<deliveries> [rx=<m> t=<ns> sender=<m> receiver=<m> last=<g|none>] | skipped-transit
//!             one such segment per leg, joined by ` | `; a forward that cannot be made ends the list with
//!             `wrong-owner` (the gate is not the receiver's) or `skipped-transit`
use crate::rng::Rng;
use crate::util::{cases, guarded, hval};
use des::net::gate::GateKind;
use des::prelude::*;
use std::collections::HashMap;
use std::fmt::Write;
use std::sync::{Arc, Mutex};

const TRIGGER: MessageKind = 7777;
const SHUTDOWN: MessageKind = 7778;
const LATE: MessageKind = 7779;
const DATA: MessageKind = 42;

thread_local! {
    /// gates by script name, for `connect` calls made from module code at run time
    static GATES: std::cell::RefCell<HashMap<String, GateRef>> = std::cell::RefCell::new(HashMap::new());
}

#[derive(Clone, Debug)]
struct LateOp {
    idx: u16,
    a: String,
    b: String,
    lat: Option<u64>,
    br: u64,
    at: u64,
}

#[derive(Clone, Debug)]
struct SendOp {
    idx: u16,
    gate_name: String,
    gate_pos: usize,
    at: u64,
    delay: u64,
    from_start: bool,
    rcv: Option<String>,
    snd: Option<String>,
    legs: Vec<(String, u64)>,
    burst: u16,
    via: String,
    gate_script: String,
}

#[derive(Clone, Debug)]
struct Delivery {
    idx: u16,
    rx_path: String,
    t: u128,
    sender: u16,
    receiver: u16,
    last: Option<(String, String, usize)>, // owner path, gate name, pos
    leg: usize,
    member: u16,
}

#[derive(Default)]
struct Shared {
    deliveries: Vec<Delivery>,
    ids: HashMap<u16, String>,
    skipped: Vec<u16>,
    disabled: Vec<u16>,
    late_done: Vec<(u16, &'static str)>,
    by_name: HashMap<String, u16>,                 // module path -> id (known after the build)
    legs: HashMap<u16, Vec<(String, u64)>>,        // send idx -> forwarding legs
    stops: HashMap<u16, &'static str>,             // send idx -> why the next forward was not made
    bursts: HashMap<u16, u16>,                     // send idx -> number of messages sent back to back
}

struct Node {
    down: Option<u64>,
    sends: Vec<SendOp>,
    late: Vec<LateOp>,
    shared: Arc<Mutex<Shared>>,
}

impl Node {
    fn do_late(&self, op: &LateOp) {
        let pair = GATES.with(|g| {
            let g = g.borrow();
            (g.get(&op.a).cloned(), g.get(&op.b).cloned())
        });
        let (Some(ga), Some(gb)) = pair else { return };
        // a full gate would make `connect` panic inside the module
        let ok = op.a != op.b && ga.kind() != GateKind::Transit && gb.kind() != GateKind::Transit;
        if ok {
            QLIMIT.with(|q| q.set(None));
            CHDROP.with(|d| d.set(false));
            CHJIT.with(|j| j.set(0));
            ga.connect(gb, op.lat.map(|l| channel(l, op.br)));
        }
        self.shared.lock().unwrap().late_done.push((op.idx, if ok { "ok" } else { "skipped" }));
    }

    fn do_send(&self, op: &SendOp) {
        // how the gate is addressed
        let by_ref = GATES.with(|g| g.borrow().get(&op.gate_script).cloned());
        let gate = match op.via.as_str() {
            "ref" | "tuple" => by_ref,
            _ => current().gate(&op.gate_name, op.gate_pos),
        };
        let Some(gate) = gate else {
            return;
        };
        if self.shared.lock().unwrap().disabled.contains(&op.idx) {
            return;
        }
        if gate.kind() == GateKind::Transit {
            // `Connection::new` asserts: would panic inside the module
            self.shared.lock().unwrap().skipped.push(op.idx);
            return;
        }
        for member in 0..op.burst.max(1) {
            let mut msg = Message::default().kind(DATA + member).id(op.idx);
            {
                let sh = self.shared.lock().unwrap();
                if let Some(id) = op.rcv.as_ref().and_then(|m| sh.by_name.get(m)) {
                    msg = msg.receiver_module_id(ModuleId(*id));
                }
                if let Some(id) = op.snd.as_ref().and_then(|m| sh.by_name.get(m)) {
                    msg = msg.sender_module_id(ModuleId(*id));
                }
            }
            let d = Duration::from_nanos(op.delay);
            match (op.via.as_str(), op.delay) {
                ("tuple", 0) => send(msg, (op.gate_name.as_str(), op.gate_pos)),
                ("tuple", _) => send_in(msg, (op.gate_name.as_str(), op.gate_pos), d),
                (_, 0) => send(msg, gate.clone()),
                (_, _) => send_in(msg, gate.clone(), d),
            }
        }
    }
}

impl Module for Node {
    fn at_sim_start(&mut self, _stage: usize) {
        self.shared
            .lock()
            .unwrap()
            .ids
            .insert(current().id().0, current().path().as_str().to_string());
        if let Some(d) = self.down {
            schedule_in(Message::default().kind(SHUTDOWN), Duration::from_nanos(d));
        }
        for op in self.late.clone() {
            schedule_in(Message::default().kind(LATE).id(op.idx), Duration::from_nanos(op.at));
        }
        for op in self.sends.clone() {
            if op.from_start && op.at == 0 {
                self.do_send(&op);
            } else {
                schedule_in(
                    Message::default().kind(TRIGGER).id(op.idx),
                    Duration::from_nanos(op.at),
                );
            }
        }
    }

    fn handle_message(&mut self, msg: Message) {
        let h = msg.header();
        if h.kind == SHUTDOWN {
            current().shutdown();
            return;
        }
        if h.kind == LATE {
            if let Some(op) = self.late.iter().find(|o| o.idx == h.id).cloned() {
                self.do_late(&op);
            }
            return;
        }
        if h.kind == TRIGGER {
            if let Some(op) = self.sends.iter().find(|o| o.idx == h.id).cloned() {
                self.do_send(&op);
            }
            return;
        }
        let last = h.last_gate.as_ref().map(|g| {
            (
                g.owner().path().as_str().to_string(),
                g.name().to_string(),
                g.pos(),
            )
        });
        let idx = h.id;
        let member = h.kind.wrapping_sub(DATA);
        let back = h.last_gate.clone();
        let next_leg = {
            let mut sh = self.shared.lock().unwrap();
            let leg = sh.deliveries.iter().filter(|d| d.idx == idx && d.member == member).count();
            let d = Delivery {
                idx,
                rx_path: current().path().as_str().to_string(),
                t: SimTime::now().as_nanos(),
                sender: h.sender_module_id.0,
                receiver: h.receiver_module_id.0,
                last,
                leg,
                member,
            };
            sh.deliveries.push(d);
            sh.legs.get(&idx).and_then(|l| l.get(leg).cloned())
        };
        // forwarding: send the received message object on
        if let Some((gate, delay)) = next_leg {
            let g = if gate == "back" { back } else { GATES.with(|g| g.borrow().get(&gate).cloned()) };
            let Some(g) = g else { return };
            if g.owner().id() != current().id() {
                self.shared.lock().unwrap().stops.insert(idx, "wrong-owner");
            } else if g.kind() == GateKind::Transit {
                self.shared.lock().unwrap().stops.insert(idx, "skipped-transit");
            } else if delay == 0 {
                send(msg, g);
            } else {
                send_in(msg, g, Duration::from_nanos(delay));
            }
        }
    }
}

/// transmission time of the test message on this channel, as the implementation computes it
fn tx_of(ch: &ChannelRef) -> u128 {
    ch.calculate_busy(&Message::default().kind(DATA)).as_nanos()
}

thread_local! {
    /// queue limit of the channel being built (`q=<bytes>` of the current connect line)
    static QLIMIT: std::cell::Cell<Option<usize>> = std::cell::Cell::new(None);
    /// `drop=1` (ChannelDropBehaviour::Drop instead of Queue) and `jit=<ns>` of the current connect line
    static CHDROP: std::cell::Cell<bool> = std::cell::Cell::new(false);
    static CHJIT: std::cell::Cell<u64> = std::cell::Cell::new(0);
}

fn parse_chan(tok: &[&str]) -> (Option<u64>, u64) {
    let l = tok.join(" ");
    let lat = hval(&l, "ch").and_then(|v| v.parse::<u64>().ok());
    let br = hval(&l, "br").and_then(|v| v.parse::<u64>().ok()).unwrap_or(0);
    QLIMIT.with(|q| q.set(hval(&l, "q").and_then(|v| v.parse::<usize>().ok())));
    CHDROP.with(|d| d.set(hval(&l, "drop").is_some()));
    CHJIT.with(|j| j.set(hval(&l, "jit").and_then(|v| v.parse::<u64>().ok()).unwrap_or(0)));
    (lat, br)
}

fn channel(ns: u64, bitrate: u64) -> ChannelRef {
    Channel::new(ChannelMetrics {
        bitrate: bitrate as usize,
        latency: Duration::from_nanos(ns),
        jitter: Duration::from_nanos(CHJIT.with(|j| j.get())),
        drop_behaviour: if CHDROP.with(|d| d.get()) {
            ChannelDropBehaviour::Drop
        } else {
            ChannelDropBehaviour::Queue(QLIMIT.with(|q| q.get()))
        },
    })
}

struct GateInfo {
    owner: String,
    name: String,
    pos: usize,
}

enum Line {
    Plain(String),
    Send(String, u16),
    Late(String, u16, Option<u128>),
}

fn kind_str(k: GateKind) -> &'static str {
    match k {
        GateKind::Standalone => "standalone",
        GateKind::Endpoint => "endpoint",
        GateKind::Transit => "transit",
    }
}

fn run_case(header: &str, body: &[String], out: &mut String) {
    writeln!(out, "{header}").unwrap();
    if std::env::var("HX_PANIC_MSG").is_err() {
        // des installs its own panic hook when a simulation is built; expected panics stay quiet
        std::panic::set_hook(Box::new(|_| {}));
    }
    // pass 1: which sends belong to which module
    let mut gate_decl: HashMap<String, GateInfo> = HashMap::new();
    let mut mods: Vec<String> = Vec::new();
    for line in body {
        let tok: Vec<&str> = line.split_whitespace().collect();
        match tok.as_slice() {
            ["mod", m, ..] => {
                if !mods.contains(&m.to_string()) {
                    mods.push(m.to_string())
                }
            }
            ["gate", g, rest @ ..] => {
                let l = rest.join(" ");
                let Some(m) = hval(&l, "mod") else { continue };
                if !mods.contains(&m) || gate_decl.contains_key(*g) {
                    continue;
                }
                let (name, pos) = match hval(&l, "cl") {
                    Some(c) => (c, hval(&l, "pos").and_then(|v| v.parse().ok()).unwrap_or(0)),
                    None => (g.to_string(), 0usize),
                };
                gate_decl.insert(g.to_string(), GateInfo { owner: m, name, pos });
            }
            _ => {}
        }
    }
    let mut sends_of: HashMap<String, Vec<SendOp>> = HashMap::new();
    let mut send_idx: u16 = 0;
    let mut send_ids: HashMap<String, u16> = HashMap::new();
    for line in body {
        let tok: Vec<&str> = line.split_whitespace().collect();
        if let ["send", s, rest @ ..] = tok.as_slice() {
            let l = rest.join(" ");
            let Some(g) = hval(&l, "gate") else { continue };
            let Some(info) = gate_decl.get(&g) else { continue };
            if send_ids.contains_key(*s) {
                continue;
            }
            let op = SendOp {
                idx: send_idx,
                gate_name: info.name.clone(),
                gate_pos: info.pos,
                at: hval(&l, "at").and_then(|v| v.parse().ok()).unwrap_or(0),
                delay: hval(&l, "delay").and_then(|v| v.parse().ok()).unwrap_or(0),
                from_start: hval(&l, "from").map(|v| v == "start").unwrap_or(false),
                rcv: hval(&l, "rcv"),
                snd: hval(&l, "snd"),
                burst: hval(&l, "burst").and_then(|v| v.parse().ok()).unwrap_or(1),
                via: hval(&l, "via").unwrap_or_else(|| "ctx".into()),
                gate_script: g.clone(),
                legs: hval(&l, "fwd")
                    .map(|f| {
                        f.split(',')
                            .filter_map(|e| {
                                let mut it = e.split(':');
                                let g = it.next()?.to_string();
                                let d = it.next()?.parse().ok()?;
                                Some((g, d))
                            })
                            .collect()
                    })
                    .unwrap_or_default(),
            };
            send_ids.insert(s.to_string(), send_idx);
            send_idx += 1;
            sends_of.entry(info.owner.clone()).or_default().push(op);
        }
    }

    let mut late_of: HashMap<String, Vec<LateOp>> = HashMap::new();
    let mut late_idx: u16 = 0;
    let mut late_lines: HashMap<String, u16> = HashMap::new();
    for line in body {
        let tok: Vec<&str> = line.split_whitespace().collect();
        if let ["lconnect", a, b, rest @ ..] = tok.as_slice() {
            let l = rest.join(" ");
            let Some(by) = hval(&l, "by") else { continue };
            if !mods.contains(&by) || !gate_decl.contains_key(*a) || !gate_decl.contains_key(*b) || late_lines.contains_key(line) {
                continue;
            }
            let (lat, br) = parse_chan(rest);
            let op = LateOp {
                idx: late_idx,
                a: a.to_string(),
                b: b.to_string(),
                lat,
                br,
                at: hval(&l, "at").and_then(|v| v.parse().ok()).unwrap_or(1),
            };
            late_lines.insert(line.clone(), late_idx);
            late_idx += 1;
            late_of.entry(by).or_default().push(op);
        }
    }

    // pass 2: build
    let shared = Arc::new(Mutex::new(Shared::default()));
    let mut sim = Sim::new(());
    let mut created_mods: Vec<String> = Vec::new();
    let mut gates: HashMap<String, GateRef> = HashMap::new();
    let mut rev: HashMap<(String, String, usize), String> = HashMap::new();
    let mut lines: Vec<Line> = Vec::new();
    // A `connect` that panics on its degree assertion does so while holding both gates' mutexes, which
    // poisons them: every later call on those gates panics with a lock error.  That is an artefact of
    // catching the panic (a real builder would have aborted), so lines touching such gates are dropped.
    let mut poisoned: Vec<String> = Vec::new();
    let gname = |rev: &HashMap<(String, String, usize), String>, g: &GateRef| -> String {
        rev.get(&(
            g.owner().path().as_str().to_string(),
            g.name().to_string(),
            g.pos(),
        ))
        .cloned()
        .unwrap_or_else(|| "?".to_string())
    };
    for line in body {
        let tok: Vec<&str> = line.split_whitespace().collect();
        match tok.as_slice() {
            ["mod", m, rest @ ..] => {
                if created_mods.contains(&m.to_string()) {
                    continue;
                }
                let node = Node {
                    down: hval(&rest.join(" "), "down").and_then(|v| v.parse().ok()),
                    sends: sends_of.get(*m).cloned().unwrap_or_default(),
                    late: late_of.get(*m).cloned().unwrap_or_default(),
                    shared: shared.clone(),
                };
                if guarded(|| sim.node(*m, node)).is_ok() {
                    if let Some(r) = sim.get(&(*m).into()) {
                        shared.lock().unwrap().by_name.insert(m.to_string(), r.id().0);
                    }
                    created_mods.push(m.to_string());
                    lines.push(Line::Plain(format!("{line} -> ok")));
                }
            }
            ["gate", g, rest @ ..] => {
                let l = rest.join(" ");
                let Some(info) = gate_decl.get(*g) else { continue };
                if gates.contains_key(*g) || !created_mods.contains(&info.owner) {
                    continue;
                }
                let r = match hval(&l, "cl") {
                    Some(c) if hval(&l, "raw").is_some() => {
                        // one member on its own, in script order
                        let size: usize = hval(&l, "size").and_then(|v| v.parse().ok()).unwrap_or(1);
                        let pos = info.pos;
                        sim.get(&info.owner.as_str().into())
                            .and_then(|m| guarded(|| m.create_raw_gate(&c, size, pos)).ok())
                    }
                    Some(c) => {
                        let size: usize = hval(&l, "size").and_then(|v| v.parse().ok()).unwrap_or(1);
                        let pos = info.pos;
                        guarded(|| sim.gates(info.owner.as_str(), &c, size)).ok().and_then(|v| v.get(pos).cloned())
                    }
                    None => guarded(|| sim.gate(info.owner.as_str(), g)).ok(),
                };
                if let Some(gr) = r {
                    rev.insert((info.owner.clone(), gr.name().to_string(), gr.pos()), g.to_string());
                    gates.insert(g.to_string(), gr);
                    lines.push(Line::Plain(format!("{line} -> ok")));
                }
            }
            ["connect", a, b, rest @ ..] => {
                let (Some(ga), Some(gb)) = (gates.get(*a).cloned(), gates.get(*b).cloned()) else { continue };
                let (lat, br) = parse_chan(rest);
                let chan = lat.map(|l| channel(l, br));
                let tx = chan.as_ref().map(tx_of);
                if poisoned.contains(&a.to_string()) || poisoned.contains(&b.to_string()) {
                    continue;
                }
                let r = guarded(move || ga.connect(gb, chan));
                if r.is_err() && a != b {
                    poisoned.push(a.to_string());
                    poisoned.push(b.to_string());
                }
                let txs = match (r.is_ok(), tx) {
                    (true, Some(t)) => format!(" tx={t}"),
                    _ => String::new(),
                };
                lines.push(Line::Plain(format!("{line} -> {}{txs}", if r.is_ok() { "ok" } else { "panic" })));
            }
            ["lconnect", a, b, rest @ ..] => {
                let Some(idx) = late_lines.get(line) else { continue };
                if !gates.contains_key(*a) || !gates.contains_key(*b) || !poisoned.is_empty() {
                    continue;
                }
                if lines.iter().any(|l| matches!(l, Line::Late(_, i, _) if i == idx)) {
                    continue;
                }
                let (lat, br) = parse_chan(rest);
                let tx = lat.map(|l| tx_of(&channel(l, br)));
                lines.push(Line::Late(line.clone(), *idx, tx));
            }
            ["walk", g] => {
                let Some(gr) = gates.get(*g).cloned() else { continue };
                let r = guarded(|| {
                    let kind = gr.kind();
                    let next = gr.next_gate().map(|x| gname(&rev, &x)).unwrap_or_else(|| "none".into());
                    let end = gr.path_end().map(|x| gname(&rev, &x)).unwrap_or_else(|| "none".into());
                    let (path, prev) = match gr.path_iter() {
                        None => ("none".to_string(), "none".to_string()),
                        Some(it) => {
                            let cons: Vec<_> = it.take(64).collect();
                            if cons.is_empty() {
                                ("empty".to_string(), "empty".to_string())
                            } else {
                                let p: Vec<String> = cons
                                    .iter()
                                    .map(|c| {
                                        let ch = match c.channel() {
                                            // delay of the idle channel for the test message: latency + transmission time
                                            Some(ch) => (ch.metrics().latency.as_nanos() + tx_of(&ch)).to_string(),
                                            None => "none".to_string(),
                                        };
                                        format!("{}:{}", gname(&rev, &c.endpoint), ch)
                                    })
                                    .collect();
                                let q: Vec<String> = cons
                                    .iter()
                                    .map(|c| c.prev_hop().map(|x| gname(&rev, &x)).unwrap_or_else(|| "none".into()))
                                    .collect();
                                (p.join(","), q.join(","))
                            }
                        }
                    };
                    format!("kind={} next={next} end={end} path={path} prev={prev}", kind_str(kind))
                });
                if r.is_err() && !poisoned.is_empty() {
                    continue;
                }
                lines.push(Line::Plain(format!("{line} -> {}", r.unwrap_or_else(|_| "panic".into()))));
            }
            ["send", s, rest @ ..] => {
                if let Some(idx) = send_ids.get(*s) {
                    if !poisoned.is_empty() {
                        let g = hval(&rest.join(" "), "gate").and_then(|g| gates.get(&g).cloned());
                        let walkable = g.map(|g| guarded(|| g.path_iter().map(|it| it.take(64).count())).is_ok()).unwrap_or(false);
                        // forwarding could run into the poisoned gates at run time
                        if !walkable || hval(&rest.join(" "), "fwd").is_some() {
                            shared.lock().unwrap().disabled.push(*idx);
                            continue;
                        }
                    }
                    // only the first line that introduced this name counts
                    if !lines.iter().any(|l| matches!(l, Line::Send(_, i) if i == idx)) {
                        lines.push(Line::Send(line.clone(), *idx));
                    }
                }
            }
            _ => {}
        }
    }

    {
        let mut sh = shared.lock().unwrap();
        for ops in sends_of.values() {
            for op in ops {
                if !op.legs.is_empty() && op.burst <= 1 {
                    sh.legs.insert(op.idx, op.legs.clone());
                }
                if op.burst >= 2 {
                    sh.bursts.insert(op.idx, op.burst);
                }
            }
        }
    }
    // run
    GATES.with(|g| *g.borrow_mut() = gates.clone());
    let rt = Builder::seeded(1).quiet().max_time(100_000.0.into()).build(sim.freeze());
    let res = guarded(move || rt.run().map(|_| ()).map_err(|e| format!("{e}")));
    let run_note = match res {
        Ok(Ok(())) => "",
        Ok(Err(_)) => " run-error",
        Err(_) => " run-panic",
    };
    GATES.with(|g| g.borrow_mut().clear());
    let sh = shared.lock().unwrap();
    for l in lines {
        match l {
            Line::Plain(s) => writeln!(out, "{s}").unwrap(),
            Line::Late(s, idx, tx) => match sh.late_done.iter().find(|d| d.0 == idx) {
                Some((_, "ok")) => match tx {
                    Some(t) => writeln!(out, "{s} -> ok tx={t}").unwrap(),
                    None => writeln!(out, "{s} -> ok").unwrap(),
                },
                Some((_, o)) => writeln!(out, "{s} -> {o}").unwrap(),
                None => writeln!(out, "{s} -> notrun").unwrap(),
            },
            Line::Send(s, idx) => {
                if sh.skipped.contains(&idx) {
                    writeln!(out, "{s} -> skipped-transit").unwrap();
                    continue;
                }
                let name = |id: u16| sh.ids.get(&id).cloned().unwrap_or_else(|| format!("#{id}"));
                if let Some(burst) = sh.bursts.get(&idx) {
                    // one segment per message of the burst, in offer order
                    let mut segs: Vec<String> = Vec::new();
                    for member in 0..*burst {
                        let ds: Vec<&Delivery> = sh.deliveries.iter().filter(|d| d.idx == idx && d.member == member).collect();
                        if ds.is_empty() {
                            segs.push("n=0".into());
                            continue;
                        }
                        let d = ds[0];
                        let last = match &d.last {
                            Some(k) => rev.get(k).cloned().unwrap_or_else(|| "?".into()),
                            None => "none".into(),
                        };
                        segs.push(format!(
                            "n={} rx={} t={} sender={} receiver={} last={}",
                            ds.len(),
                            d.rx_path,
                            d.t,
                            name(d.sender),
                            name(d.receiver),
                            last
                        ));
                    }
                    writeln!(out, "{s} -> {}", segs.join(" ; ")).unwrap();
                    continue;
                }
                let nlegs = sh.legs.get(&idx).map(|l| l.len()).unwrap_or(0);
                let mut segs: Vec<String> = Vec::new();
                for k in 0..=nlegs {
                    let ds: Vec<&Delivery> = sh.deliveries.iter().filter(|d| d.idx == idx && d.member == 0 && d.leg == k).collect();
                    if ds.is_empty() {
                        if k == 0 {
                            segs.push("n=0".into());
                        } else if let Some(why) = sh.stops.get(&idx) {
                            segs.push((*why).into());
                        } else {
                            segs.push("n=0".into());
                        }
                        break;
                    }
                    let d = ds[0];
                    let last = match &d.last {
                        Some(k) => rev.get(k).cloned().unwrap_or_else(|| "?".into()),
                        None => "none".into(),
                    };
                    segs.push(format!(
                        "n={} rx={} t={} sender={} receiver={} last={}",
                        ds.len(),
                        d.rx_path,
                        d.t,
                        name(d.sender),
                        name(d.receiver),
                        last
                    ));
                }
                // more deliveries than legs: a message was delivered twice
                let extra = sh.deliveries.iter().filter(|d| d.idx == idx && d.leg > nlegs).count();
                if extra > 0 {
                    segs.push(format!("extra={extra}"));
                }
                writeln!(out, "{s} -> {}", segs.join(" | ")).unwrap();
            }
        }
    }
    writeln!(out, "end{run_note}").unwrap();
}

pub fn exec(input: &str) -> String {
    let mut out = String::new();
    for (header, body) in cases(input) {
        run_case(&header, &body, &mut out);
    }
    out
}

// all message times are even, shutdown times odd: no ties between a shutdown and a message passing
const DELAYS: [u64; 6] = [2, 10, 1_000, 30_000, 1_000_000, 2_500_000_000];
// shutdown times are 1 mod 4, run-time connect times 3 mod 4: no ties among them either
const DOWNS: [u64; 8] = [1, 5, 13, 1_001, 30_001, 1_000_001, 2_500_000_001, 2_500_030_013];
const LATES: [u64; 6] = [3, 7, 1_003, 30_003, 1_000_003, 2_500_000_003];
// bitrates whose transmission time for the 64-byte test message (512 bit) is a whole, even number of ns
const BITRATES: [u64; 6] = [512, 1_024, 512_000, 5_120_000, 256_000_000, 51_200_000_000];
// in cases with finite bitrates the sends are this far apart, so every channel is idle again
const GAP: u64 = 300_000_000_000;

pub fn gen(seed: u64, count: usize, thorough: bool) -> String {
    let mut r = Rng::new(seed);
    let mut out = String::new();
    for k in 0..count {
        let nmods = r.range(1, 6) as usize;
        let hops = if thorough { r.range(1, 12) } else if r.chance(1, 3) { r.range(1, 4) } else { r.range(1, 12) } as usize;
        let extra = r.below(5) as usize;
        let ngates = hops + 1 + extra;
        // 0: latency-only channels; 1: channels with a finite bitrate; 2: part of the wiring happens at run time
        // 3: bursts over chains whose channels have a finite bitrate and queue
        let mode = r.below(4);
        writeln!(out, "case {k} hops={hops} mode={mode}").unwrap();
        let with_down = mode != 3 && nmods >= 2 && r.chance(1, 2);
        for m in 0..nmods {
            if with_down && r.chance(1, 3) {
                writeln!(out, "mod m{m} down={}", r.pick(&DOWNS)).unwrap();
            } else {
                writeln!(out, "mod m{m}").unwrap();
            }
        }
        // gates; some grouped into clusters on one module
        let mut g = 0;
        let mut cl = 0;
        let mut owners: Vec<u64> = Vec::new();
        let mut pending_single = false;
        while g < ngates {
            let m = r.below(nmods as u64);
            if r.chance(1, 3) && g + 1 < ngates {
                let size = (r.range(2, 3) as usize).min(ngates - g);
                if r.chance(1, 2) {
                    // the members are created one by one (`create_raw_gate`) in a random order, sometimes with
                    // another gate of the same module in between
                    let mut order: Vec<usize> = (0..size).collect();
                    for i in (1..size).rev() {
                        let j = r.below(i as u64 + 1) as usize;
                        order.swap(i, j);
                    }
                    let mut between = r.chance(1, 2) && g + size < ngates;
                    for (k, p) in order.iter().enumerate() {
                        writeln!(out, "gate g{} mod=m{m} cl=c{cl} pos={p} size={size} raw=1", g + p).unwrap();
                        if between && k == 0 {
                            writeln!(out, "gate g{} mod=m{m}", g + size).unwrap();
                            between = false;
                            pending_single = true;
                        }
                    }
                    for _ in 0..size {
                        owners.push(m);
                    }
                    if pending_single {
                        owners.push(m);
                        g += 1;
                        pending_single = false;
                    }
                } else {
                    for p in 0..size {
                        writeln!(out, "gate g{} mod=m{m} cl=c{cl} pos={p} size={size}", g + p).unwrap();
                        owners.push(m);
                    }
                }
                cl += 1;
                g += size;
            } else {
                writeln!(out, "gate g{g} mod=m{m}").unwrap();
                owners.push(m);
                g += 1;
            }
        }
        // chains: a random permutation of the gates, cut into the main chain (+ maybe a second one)
        let mut perm: Vec<usize> = (0..ngates).collect();
        for i in (1..ngates).rev() {
            let j = r.below(i as u64 + 1) as usize;
            perm.swap(i, j);
        }
        let mut chains: Vec<Vec<usize>> = vec![perm[..hops + 1].to_vec()];
        if extra >= 2 && r.chance(2, 3) {
            let len = r.range(2, extra as u64) as usize;
            chains.push(perm[hops + 1..hops + 1 + len].to_vec());
        }
        // a channel: (latency, bitrate)
        // mode 3: either several unbounded-queue finite-bitrate hops, or exactly one finite-bitrate hop (with a
        // bounded queue) in the whole case — then all messages of a burst reach it at the same instant
        // mode 1: some channels drop instead of queueing (both directions are used at the same time below), and in
        // cases without shut-down modules some have jitter
        let jcase = mode == 1 && !with_down && r.chance(1, 2);
        let single_limited = mode == 3 && r.chance(1, 3);
        let mut limited_left = if single_limited { 1 } else { 0 };
        let mut mkch = |r: &mut Rng| -> Option<(u64, u64, u64)> {
            if mode == 3 {
                if single_limited {
                    if limited_left > 0 && r.chance(1, 2) {
                        limited_left -= 1;
                        return Some((if r.chance(1, 2) { 0 } else { *r.pick(&DELAYS) }, *r.pick(&BITRATES), 1 + 64 * r.below(3)));
                    }
                    return if r.chance(1, 2) { None } else { Some((*r.pick(&DELAYS), 0, 0)) };
                }
                return match r.below(6) {
                    0 | 1 => None,
                    2 => Some((*r.pick(&DELAYS), 0, 0)),
                    _ => Some((if r.chance(1, 2) { 0 } else { *r.pick(&DELAYS) }, *r.pick(&BITRATES), 0)),
                };
            }
            if r.chance(1, 2) {
                None
            } else if mode == 1 && r.chance(2, 3) {
                // finite bitrate, half of them without any latency
                let dropc = if r.chance(1, 2) { 1000 } else { 0 };
                let jit = if jcase && r.chance(1, 2) { 10000 * r.range(1, 3) } else { 0 };
                Some((if r.chance(1, 2) { 0 } else { *r.pick(&DELAYS) }, *r.pick(&BITRATES), dropc + jit))
            } else if r.chance(1, 10) {
                Some((0, 0, 0))
            } else {
                Some((*r.pick(&DELAYS), 0, 0))
            }
        };
        let mut links: Vec<(usize, usize, Option<(u64, u64, u64)>)> = Vec::new();
        for c in &chains {
            for w in c.windows(2) {
                let ch = mkch(&mut r);
                if r.chance(1, 2) {
                    links.push((w[0], w[1], ch));
                } else {
                    links.push((w[1], w[0], ch));
                }
            }
        }
        for i in (1..links.len()).rev() {
            let j = r.below(i as u64 + 1) as usize;
            links.swap(i, j);
        }
        let chs = |c: Option<(u64, u64, u64)>| match c {
            None => "ch=none".to_string(),
            Some((l, 0, _)) => format!("ch={l}"),
            Some((l, b, 0)) => format!("ch={l} br={b}"),
            Some((l, b, x)) if x >= 1000 => format!(
                "ch={l} br={b}{}{}",
                if (x / 1000) % 10 == 1 { " drop=1" } else { "" },
                match x / 10000 {
                    1 => " jit=2",
                    2 => " jit=1000",
                    3 => " jit=100000",
                    _ => "",
                }
            ),
            Some((l, b, q)) => format!("ch={l} br={b} q={}", q - 1),
        };
        // mode 2: one to three links are connected by some module while the simulation runs
        let mut late_times: Vec<u64> = LATES.to_vec();
        let mut nlate = if mode == 2 { r.range(1, 3) as usize } else { 0 };
        let mut deferred: Vec<String> = Vec::new();
        let mut done: Vec<(usize, usize)> = Vec::new();
        // most often the link of the main chain's first gate is among them: a `send_in` issued on that gate at
        // t = 0 then starts on a gate that is still unconnected
        let c0 = chains[0][0];
        let defer_first = mode == 2 && r.chance(2, 3);
        for (a, b, ch) in &links {
            let is_first = *a == c0 || *b == c0;
            if nlate > 0 && ((defer_first && is_first) || r.chance(1, 3)) {
                nlate -= 1;
                let t = late_times.remove(r.below(late_times.len() as u64) as usize);
                deferred.push(format!("lconnect g{a} g{b} {} at={t} by=m{}", chs(*ch), r.below(nmods as u64)));
                continue;
            }
            writeln!(out, "connect g{a} g{b} {}", chs(*ch)).unwrap();
            done.push((*a, *b));
            // noise: repeated / mirrored connect, self connect, connect onto arbitrary gates
            match r.below(12) {
                0 => {
                    let (x, y) = *r.pick(&done);
                    let ch2 = mkch(&mut r);
                    if r.chance(1, 2) {
                        writeln!(out, "connect g{x} g{y} {}", chs(ch2)).unwrap();
                    } else {
                        writeln!(out, "connect g{y} g{x} {}", chs(ch2)).unwrap();
                    }
                }
                1 => {
                    let x = r.below(ngates as u64);
                    writeln!(out, "connect g{x} g{x} ch=none").unwrap();
                }
                // (not while part of the wiring is deferred: closing a ring under a travelling message makes it circulate forever)
                2 if mode != 2 && mode != 3 && r.chance(1, 3) => {
                    // arbitrary pair: may panic (full), may legitimately join or close something
                    let x = r.below(ngates as u64);
                    let y = r.below(ngates as u64);
                    writeln!(out, "connect g{x} g{y} {}", chs(Some((*r.pick(&DELAYS), 0, 0)))).unwrap();
                }
                3 | 4 => {
                    writeln!(out, "walk g{}", r.below(ngates as u64)).unwrap();
                }
                _ => {}
            }
        }
        if mode != 2 && mode != 3 && r.chance(1, 12) {
            // close the main chain into a ring
            let c = &chains[0];
            writeln!(out, "connect g{} g{} ch=none", c[c.len() - 1], c[0]).unwrap();
        }
        for g in 0..ngates {
            writeln!(out, "walk g{g}").unwrap();
        }
        for l in &deferred {
            writeln!(out, "{l}").unwrap();
        }
        // sends: both ends of every chain, some standalone / arbitrary gates
        let mut s = 0;
        let mut targets: Vec<usize> = Vec::new();
        for c in &chains {
            targets.push(c[0]);
            targets.push(c[c.len() - 1]);
        }
        for _ in 0..r.below(3) {
            targets.push(r.below(ngates as u64) as usize);
        }
        if mode == 2 {
            // issued at t = 0, moves after every run-time connect
            writeln!(out, "send s{s} gate=g{c0} at=0 delay=2500000010 from={}", if r.chance(1, 2) { "start" } else { "msg" }).unwrap();
            s += 1;
        }
        let mut prev_gate = usize::MAX;
        let mut slot_of_prev = 0u64;
        // mode 1: in half of the cases the two ends of the main chain send at the very same time: the two directions
        // of every hop are used at once (they are independent channels, also when the channel drops instead of queueing)
        let pairing = mode == 1 && r.chance(1, 2);
        let mut pair: Option<(u64, u64, u64)> = None;
        let first_end = chains[0][0];
        let last_end = chains[0][chains[0].len() - 1];
        for g in targets {
            let reps = if r.chance(1, 4) { 2 } else { 1 };
            for rep in 0..reps {
                let at = match r.below(4) {
                    0 | 1 => 0,
                    2 => 2 * r.range(1, 1000),
                    _ => *r.pick(&DELAYS),
                };
                let paired_first = pairing && rep == 0 && g == first_end && pair.is_none();
                let paired_second = pairing && rep == 0 && g == last_end && g != first_end && pair.is_some();
                if paired_second {
                    let (pslot, pat, pdelay) = pair.take().unwrap();
                    writeln!(out, "send s{s} gate=g{g} at={} delay={pdelay} from=msg", pslot * GAP + pat).unwrap();
                    s += 1;
                    continue;
                }
                // finite bitrates: one message (one burst) at a time in the whole network
                // (mode 3: sometimes together with the previous burst when that started on another gate: opposite
                // directions and different chains do not share a channel)
                let slot = if mode == 3 && s > 0 && prev_gate != g && slot_of_prev + 1 == s as u64 && r.chance(1, 3) { slot_of_prev } else { s as u64 };
                slot_of_prev = slot;
                prev_gate = g;
                let at = if mode == 1 || mode == 3 { slot * GAP + at } else { at };
                let delay = if r.chance(1, 2) { 0 } else { *r.pick(&DELAYS) + 2 * r.below(3) };
                let from = if at == 0 && r.chance(1, 2) { "start" } else { "msg" };
                if paired_first {
                    pair = Some((slot, at - slot * GAP, delay));
                    writeln!(out, "send s{s} gate=g{g} at={at} delay={delay} from=msg").unwrap();
                    s += 1;
                    continue;
                }
                let mut extra = String::new();
                // how the gate is addressed
                match r.below(4) {
                    0 => extra.push_str(" via=tuple"),
                    1 => extra.push_str(" via=ref"),
                    _ => {}
                }
                if mode == 3 {
                    // 2-4 messages back to back
                    if r.chance(3, 4) {
                        write!(extra, " burst={}", r.range(2, 4)).unwrap();
                    }
                    writeln!(out, "send s{s} gate=g{g} at={at} delay={delay} from={from}{extra}").unwrap();
                    s += 1;
                    continue;
                }
                // messages built with explicit ids
                if r.chance(1, 2) {
                    // mostly a module other than the one the chain leads to
                    let mut expected = owners[g];
                    for c in &chains {
                        if c[0] == g {
                            expected = owners[c[c.len() - 1]];
                        } else if c[c.len() - 1] == g {
                            expected = owners[c[0]];
                        }
                    }
                    let mut m = r.below(nmods as u64);
                    if m == expected && nmods >= 2 {
                        m = (m + 1) % nmods as u64;
                    }
                    write!(extra, " rcv=m{m}").unwrap();
                }
                if r.chance(1, 8) {
                    write!(extra, " snd=m{}", r.below(nmods as u64)).unwrap();
                }
                // forwarding: the receiver sends the received message on (1-3 further legs)
                if !jcase && r.chance(1, 2) {
                    let far = |x: usize| -> usize {
                        for c in &chains {
                            if c[0] == x {
                                return c[c.len() - 1];
                            }
                            if c[c.len() - 1] == x {
                                return c[0];
                            }
                        }
                        x
                    };
                    let mut cur = far(g);
                    let mut legs: Vec<String> = Vec::new();
                    for _ in 0..r.range(1, 3) {
                        let d = if mode != 1 && r.chance(1, 2) { 0 } else { *r.pick(&DELAYS) };
                        let rx = owners[cur];
                        let cands: Vec<usize> = (0..ngates).filter(|x| owners[*x] == rx).collect();
                        let ends: Vec<usize> = cands.iter().cloned().filter(|x| far(*x) != *x).collect();
                        let pick = r.below(6);
                        if pick < 2 {
                            // (mode 1: an immediate reply through the gate the message came in uses the other direction
                            // of every hop, while the forward direction may still be transmitting)
                            let d = if mode == 1 && legs.is_empty() && r.chance(1, 2) { 0 } else { d };
                            legs.push(format!("back:{d}"));
                            cur = far(cur);
                        } else if pick < 5 && !ends.is_empty() {
                            let x = *r.pick(&ends);
                            legs.push(format!("g{x}:{d}"));
                            cur = far(x);
                        } else {
                            // any gate (possibly of another module, possibly standalone or an inner gate)
                            let x = if r.chance(2, 3) { *r.pick(&cands) } else { r.below(ngates as u64) as usize };
                            legs.push(format!("g{x}:{d}"));
                            cur = far(x);
                        }
                    }
                    write!(extra, " fwd={}", legs.join(",")).unwrap();
                }
                writeln!(out, "send s{s} gate=g{g} at={at} delay={delay} from={from}{extra}").unwrap();
                s += 1;
            }
        }
        writeln!(out, "end").unwrap();
    }
    out
}

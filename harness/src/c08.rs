//! C08: gate chains built with the real `des::net` builder API and messages sent through them.
//!
//! Script lines (objects are named, so scripts survive line deletion):
//!   mod m<i> [down=<ns>]                       create module `m<i>`; with `down` the module calls
//!                                              `current().shutdown()` at that time (it is inactive afterwards)
//!   gate g<j> mod=m<i>                         single gate named `g<j>` on that module
//!   gate g<j> mod=m<i> cl=c<k> pos=<p> size=<s>   member `p` of the gate cluster `c<k>` (size `s`)
//!   connect g<a> g<b> ch=none|<ns>             `g<a>.connect(g<b>, channel)`; channel = latency <ns>,
//!                                              bitrate 0 (never busy), no jitter
//!   walk g<j>                                  observe kind / path_iter / next_gate / path_end / prev_hop
//!   send s<i> gate=g<j> at=<ns> delay=<ns> from=start|msg
//!                                              the owner of g<j> calls `send` (delay 0) or `send_in`
//!                                              at time <at> from `at_sim_start` (at = 0) or `handle_message`
//! Transcript: each executed line + ` -> answer`.
//!   connect … -> ok|panic
//!   walk g -> kind=<standalone|endpoint|transit> next=<g|none> end=<g|none> path=<g:ch,…|empty|none> prev=<g,…|empty|none>
//!   send … -> n=<deliveries> [rx=<m> t=<ns> sender=<m> receiver=<m> last=<g|none>] | skipped-transit
use crate::rng::Rng;
use crate::util::{cases, guarded, hval};
use des::net::gate::GateKind;
use des::prelude::*;
use std::collections::HashMap;
use std::fmt::Write;
use std::sync::{Arc, Mutex};

const TRIGGER: MessageKind = 7777;
const SHUTDOWN: MessageKind = 7778;
const DATA: MessageKind = 42;

#[derive(Clone, Debug)]
struct SendOp {
    idx: u16,
    gate_name: String,
    gate_pos: usize,
    at: u64,
    delay: u64,
    from_start: bool,
}

#[derive(Clone, Debug)]
struct Delivery {
    idx: u16,
    rx_path: String,
    t: u128,
    sender: u16,
    receiver: u16,
    last: Option<(String, String, usize)>, // owner path, gate name, pos
}

#[derive(Default)]
struct Shared {
    deliveries: Vec<Delivery>,
    ids: HashMap<u16, String>,
    skipped: Vec<u16>,
    disabled: Vec<u16>,
}

struct Node {
    down: Option<u64>,
    sends: Vec<SendOp>,
    shared: Arc<Mutex<Shared>>,
}

impl Node {
    fn do_send(&self, op: &SendOp) {
        let Some(gate) = current().gate(&op.gate_name, op.gate_pos) else {
            return;
        };
        if self.shared.lock().unwrap().disabled.contains(&op.idx) {
            return;
        }
        if gate.kind() == GateKind::Transit {
            // `Connection::new` asserts: would panic inside the module
            self.shared.lock().unwrap().skipped.push(op.idx);
            return;
        }
        let msg = Message::default().kind(DATA).id(op.idx);
        if op.delay == 0 {
            send(msg, gate);
        } else {
            send_in(msg, gate, Duration::from_nanos(op.delay));
        }
    }
}

impl Module for Node {
    fn at_sim_start(&mut self, _stage: usize) {
        self.shared
            .lock()
            .unwrap()
            .ids
            .insert(current().id().0, current().path().as_str().to_string());
        if let Some(d) = self.down {
            schedule_in(Message::default().kind(SHUTDOWN), Duration::from_nanos(d));
        }
        for op in self.sends.clone() {
            if op.from_start && op.at == 0 {
                self.do_send(&op);
            } else {
                schedule_in(
                    Message::default().kind(TRIGGER).id(op.idx),
                    Duration::from_nanos(op.at),
                );
            }
        }
    }

    fn handle_message(&mut self, msg: Message) {
        let h = msg.header();
        if h.kind == SHUTDOWN {
            current().shutdown();
            return;
        }
        if h.kind == TRIGGER {
            if let Some(op) = self.sends.iter().find(|o| o.idx == h.id).cloned() {
                self.do_send(&op);
            }
            return;
        }
        let last = h.last_gate.as_ref().map(|g| {
            (
                g.owner().path().as_str().to_string(),
                g.name().to_string(),
                g.pos(),
            )
        });
        let d = Delivery {
            idx: h.id,
            rx_path: current().path().as_str().to_string(),
            t: SimTime::now().as_nanos(),
            sender: h.sender_module_id.0,
            receiver: h.receiver_module_id.0,
            last,
        };
        self.shared.lock().unwrap().deliveries.push(d);
    }
}

fn channel(ns: u64) -> ChannelRef {
    Channel::new(ChannelMetrics {
        bitrate: 0,
        latency: Duration::from_nanos(ns),
        jitter: Duration::ZERO,
        drop_behaviour: ChannelDropBehaviour::Queue(None),
    })
}

struct GateInfo {
    owner: String,
    name: String,
    pos: usize,
}

enum Line {
    Plain(String),
    Send(String, u16),
}

fn kind_str(k: GateKind) -> &'static str {
    match k {
        GateKind::Standalone => "standalone",
        GateKind::Endpoint => "endpoint",
        GateKind::Transit => "transit",
    }
}

fn run_case(header: &str, body: &[String], out: &mut String) {
    writeln!(out, "{header}").unwrap();
    if std::env::var("HX_PANIC_MSG").is_err() {
        // des installs its own panic hook when a simulation is built; expected panics stay quiet
        std::panic::set_hook(Box::new(|_| {}));
    }
    // pass 1: which sends belong to which module
    let mut gate_decl: HashMap<String, GateInfo> = HashMap::new();
    let mut mods: Vec<String> = Vec::new();
    for line in body {
        let tok: Vec<&str> = line.split_whitespace().collect();
        match tok.as_slice() {
            ["mod", m, ..] => {
                if !mods.contains(&m.to_string()) {
                    mods.push(m.to_string())
                }
            }
            ["gate", g, rest @ ..] => {
                let l = rest.join(" ");
                let Some(m) = hval(&l, "mod") else { continue };
                if !mods.contains(&m) || gate_decl.contains_key(*g) {
                    continue;
                }
                let (name, pos) = match hval(&l, "cl") {
                    Some(c) => (c, hval(&l, "pos").and_then(|v| v.parse().ok()).unwrap_or(0)),
                    None => (g.to_string(), 0usize),
                };
                gate_decl.insert(g.to_string(), GateInfo { owner: m, name, pos });
            }
            _ => {}
        }
    }
    let mut sends_of: HashMap<String, Vec<SendOp>> = HashMap::new();
    let mut send_idx: u16 = 0;
    let mut send_ids: HashMap<String, u16> = HashMap::new();
    for line in body {
        let tok: Vec<&str> = line.split_whitespace().collect();
        if let ["send", s, rest @ ..] = tok.as_slice() {
            let l = rest.join(" ");
            let Some(g) = hval(&l, "gate") else { continue };
            let Some(info) = gate_decl.get(&g) else { continue };
            if send_ids.contains_key(*s) {
                continue;
            }
            let op = SendOp {
                idx: send_idx,
                gate_name: info.name.clone(),
                gate_pos: info.pos,
                at: hval(&l, "at").and_then(|v| v.parse().ok()).unwrap_or(0),
                delay: hval(&l, "delay").and_then(|v| v.parse().ok()).unwrap_or(0),
                from_start: hval(&l, "from").map(|v| v == "start").unwrap_or(false),
            };
            send_ids.insert(s.to_string(), send_idx);
            send_idx += 1;
            sends_of.entry(info.owner.clone()).or_default().push(op);
        }
    }

    // pass 2: build
    let shared = Arc::new(Mutex::new(Shared::default()));
    let mut sim = Sim::new(());
    let mut created_mods: Vec<String> = Vec::new();
    let mut gates: HashMap<String, GateRef> = HashMap::new();
    let mut rev: HashMap<(String, String, usize), String> = HashMap::new();
    let mut lines: Vec<Line> = Vec::new();
    // A `connect` that panics on its degree assertion does so while holding both gates' mutexes, which
    // poisons them: every later call on those gates panics with a lock error.  That is an artefact of
    // catching the panic (a real builder would have aborted), so lines touching such gates are dropped.
    let mut poisoned: Vec<String> = Vec::new();
    let gname = |rev: &HashMap<(String, String, usize), String>, g: &GateRef| -> String {
        rev.get(&(
            g.owner().path().as_str().to_string(),
            g.name().to_string(),
            g.pos(),
        ))
        .cloned()
        .unwrap_or_else(|| "?".to_string())
    };
    for line in body {
        let tok: Vec<&str> = line.split_whitespace().collect();
        match tok.as_slice() {
            ["mod", m, rest @ ..] => {
                if created_mods.contains(&m.to_string()) {
                    continue;
                }
                let node = Node {
                    down: hval(&rest.join(" "), "down").and_then(|v| v.parse().ok()),
                    sends: sends_of.get(*m).cloned().unwrap_or_default(),
                    shared: shared.clone(),
                };
                if guarded(|| sim.node(*m, node)).is_ok() {
                    created_mods.push(m.to_string());
                    lines.push(Line::Plain(format!("{line} -> ok")));
                }
            }
            ["gate", g, rest @ ..] => {
                let l = rest.join(" ");
                let Some(info) = gate_decl.get(*g) else { continue };
                if gates.contains_key(*g) || !created_mods.contains(&info.owner) {
                    continue;
                }
                let r = match hval(&l, "cl") {
                    Some(c) => {
                        let size: usize = hval(&l, "size").and_then(|v| v.parse().ok()).unwrap_or(1);
                        let pos = info.pos;
                        guarded(|| sim.gates(info.owner.as_str(), &c, size)).ok().and_then(|v| v.get(pos).cloned())
                    }
                    None => guarded(|| sim.gate(info.owner.as_str(), g)).ok(),
                };
                if let Some(gr) = r {
                    rev.insert((info.owner.clone(), gr.name().to_string(), gr.pos()), g.to_string());
                    gates.insert(g.to_string(), gr);
                    lines.push(Line::Plain(format!("{line} -> ok")));
                }
            }
            ["connect", a, b, ch] => {
                let (Some(ga), Some(gb)) = (gates.get(*a).cloned(), gates.get(*b).cloned()) else { continue };
                let chv = ch.strip_prefix("ch=").unwrap_or("none");
                let chan = chv.parse::<u64>().ok().map(channel);
                if poisoned.contains(&a.to_string()) || poisoned.contains(&b.to_string()) {
                    continue;
                }
                let r = guarded(move || ga.connect(gb, chan));
                if r.is_err() && a != b {
                    poisoned.push(a.to_string());
                    poisoned.push(b.to_string());
                }
                lines.push(Line::Plain(format!("{line} -> {}", if r.is_ok() { "ok" } else { "panic" })));
            }
            ["walk", g] => {
                let Some(gr) = gates.get(*g).cloned() else { continue };
                let r = guarded(|| {
                    let kind = gr.kind();
                    let next = gr.next_gate().map(|x| gname(&rev, &x)).unwrap_or_else(|| "none".into());
                    let end = gr.path_end().map(|x| gname(&rev, &x)).unwrap_or_else(|| "none".into());
                    let (path, prev) = match gr.path_iter() {
                        None => ("none".to_string(), "none".to_string()),
                        Some(it) => {
                            let cons: Vec<_> = it.take(64).collect();
                            if cons.is_empty() {
                                ("empty".to_string(), "empty".to_string())
                            } else {
                                let p: Vec<String> = cons
                                    .iter()
                                    .map(|c| {
                                        let ch = match c.channel() {
                                            Some(ch) => ch.metrics().latency.as_nanos().to_string(),
                                            None => "none".to_string(),
                                        };
                                        format!("{}:{}", gname(&rev, &c.endpoint), ch)
                                    })
                                    .collect();
                                let q: Vec<String> = cons
                                    .iter()
                                    .map(|c| c.prev_hop().map(|x| gname(&rev, &x)).unwrap_or_else(|| "none".into()))
                                    .collect();
                                (p.join(","), q.join(","))
                            }
                        }
                    };
                    format!("kind={} next={next} end={end} path={path} prev={prev}", kind_str(kind))
                });
                if r.is_err() && !poisoned.is_empty() {
                    continue;
                }
                lines.push(Line::Plain(format!("{line} -> {}", r.unwrap_or_else(|_| "panic".into()))));
            }
            ["send", s, rest @ ..] => {
                if let Some(idx) = send_ids.get(*s) {
                    if !poisoned.is_empty() {
                        let g = hval(&rest.join(" "), "gate").and_then(|g| gates.get(&g).cloned());
                        let walkable = g.map(|g| guarded(|| g.path_iter().map(|it| it.take(64).count())).is_ok()).unwrap_or(false);
                        if !walkable {
                            shared.lock().unwrap().disabled.push(*idx);
                            continue;
                        }
                    }
                    // only the first line that introduced this name counts
                    if !lines.iter().any(|l| matches!(l, Line::Send(_, i) if i == idx)) {
                        lines.push(Line::Send(line.clone(), *idx));
                    }
                }
            }
            _ => {}
        }
    }

    // run
    let rt = Builder::seeded(1).quiet().build(sim.freeze());
    let res = guarded(move || rt.run().map(|_| ()).map_err(|e| format!("{e}")));
    let run_note = match res {
        Ok(Ok(())) => "",
        Ok(Err(_)) => " run-error",
        Err(_) => " run-panic",
    };
    let sh = shared.lock().unwrap();
    for l in lines {
        match l {
            Line::Plain(s) => writeln!(out, "{s}").unwrap(),
            Line::Send(s, idx) => {
                if sh.skipped.contains(&idx) {
                    writeln!(out, "{s} -> skipped-transit").unwrap();
                    continue;
                }
                let ds: Vec<&Delivery> = sh.deliveries.iter().filter(|d| d.idx == idx).collect();
                if ds.is_empty() {
                    writeln!(out, "{s} -> n=0").unwrap();
                } else {
                    let d = ds[0];
                    let name = |id: u16| sh.ids.get(&id).cloned().unwrap_or_else(|| format!("#{id}"));
                    let last = match &d.last {
                        Some(k) => rev.get(k).cloned().unwrap_or_else(|| "?".into()),
                        None => "none".into(),
                    };
                    writeln!(
                        out,
                        "{s} -> n={} rx={} t={} sender={} receiver={} last={}",
                        ds.len(),
                        d.rx_path,
                        d.t,
                        name(d.sender),
                        name(d.receiver),
                        last
                    )
                    .unwrap();
                }
            }
        }
    }
    writeln!(out, "end{run_note}").unwrap();
}

pub fn exec(input: &str) -> String {
    let mut out = String::new();
    for (header, body) in cases(input) {
        run_case(&header, &body, &mut out);
    }
    out
}

// all message times are even, shutdown times odd: no ties between a shutdown and a message passing
const DELAYS: [u64; 6] = [2, 10, 1_000, 30_000, 1_000_000, 2_500_000_000];
const DOWNS: [u64; 8] = [1, 3, 11, 1_001, 30_001, 1_000_001, 2_500_000_001, 2_500_030_011];

pub fn gen(seed: u64, count: usize, thorough: bool) -> String {
    let mut r = Rng::new(seed);
    let mut out = String::new();
    for k in 0..count {
        let nmods = r.range(1, 6) as usize;
        let hops = if thorough { r.range(1, 12) } else if r.chance(1, 3) { r.range(1, 4) } else { r.range(1, 12) } as usize;
        let extra = r.below(5) as usize;
        let ngates = hops + 1 + extra;
        writeln!(out, "case {k} hops={hops}").unwrap();
        let with_down = nmods >= 2 && r.chance(1, 2);
        for m in 0..nmods {
            if with_down && r.chance(1, 3) {
                writeln!(out, "mod m{m} down={}", r.pick(&DOWNS)).unwrap();
            } else {
                writeln!(out, "mod m{m}").unwrap();
            }
        }
        // gates; some grouped into clusters on one module
        let mut g = 0;
        let mut cl = 0;
        while g < ngates {
            let m = r.below(nmods as u64);
            if r.chance(1, 4) && g + 1 < ngates {
                let size = (r.range(2, 3) as usize).min(ngates - g);
                for p in 0..size {
                    writeln!(out, "gate g{} mod=m{m} cl=c{cl} pos={p} size={size}", g + p).unwrap();
                }
                cl += 1;
                g += size;
            } else {
                writeln!(out, "gate g{g} mod=m{m}").unwrap();
                g += 1;
            }
        }
        // chains: a random permutation of the gates, cut into the main chain (+ maybe a second one)
        let mut perm: Vec<usize> = (0..ngates).collect();
        for i in (1..ngates).rev() {
            let j = r.below(i as u64 + 1) as usize;
            perm.swap(i, j);
        }
        let mut chains: Vec<Vec<usize>> = vec![perm[..hops + 1].to_vec()];
        if extra >= 2 && r.chance(2, 3) {
            let len = r.range(2, extra as u64) as usize;
            chains.push(perm[hops + 1..hops + 1 + len].to_vec());
        }
        let mut links: Vec<(usize, usize, Option<u64>)> = Vec::new();
        for c in &chains {
            for w in c.windows(2) {
                let ch = if r.chance(1, 2) { Some(*r.pick(&DELAYS)) } else { None };
                if r.chance(1, 2) {
                    links.push((w[0], w[1], ch));
                } else {
                    links.push((w[1], w[0], ch));
                }
            }
        }
        for i in (1..links.len()).rev() {
            let j = r.below(i as u64 + 1) as usize;
            links.swap(i, j);
        }
        let chs = |c: Option<u64>| c.map(|v| v.to_string()).unwrap_or_else(|| "none".into());
        let mut done: Vec<(usize, usize)> = Vec::new();
        for (a, b, ch) in &links {
            writeln!(out, "connect g{a} g{b} ch={}", chs(*ch)).unwrap();
            done.push((*a, *b));
            // noise: repeated / mirrored connect, self connect, connect onto arbitrary gates
            match r.below(12) {
                0 => {
                    let (x, y) = *r.pick(&done);
                    let ch2 = if r.chance(1, 2) { Some(*r.pick(&DELAYS)) } else { None };
                    if r.chance(1, 2) {
                        writeln!(out, "connect g{x} g{y} ch={}", chs(ch2)).unwrap();
                    } else {
                        writeln!(out, "connect g{y} g{x} ch={}", chs(ch2)).unwrap();
                    }
                }
                1 => {
                    let x = r.below(ngates as u64);
                    writeln!(out, "connect g{x} g{x} ch=none").unwrap();
                }
                2 if r.chance(1, 3) => {
                    // arbitrary pair: may panic (full), may legitimately join or close something
                    let x = r.below(ngates as u64);
                    let y = r.below(ngates as u64);
                    writeln!(out, "connect g{x} g{y} ch={}", chs(Some(*r.pick(&DELAYS)))).unwrap();
                }
                3 | 4 => {
                    writeln!(out, "walk g{}", r.below(ngates as u64)).unwrap();
                }
                _ => {}
            }
        }
        if r.chance(1, 12) {
            // close the main chain into a ring
            let c = &chains[0];
            writeln!(out, "connect g{} g{} ch=none", c[c.len() - 1], c[0]).unwrap();
        }
        for g in 0..ngates {
            writeln!(out, "walk g{g}").unwrap();
        }
        // sends: both ends of every chain, some standalone / arbitrary gates
        let mut s = 0;
        let mut targets: Vec<usize> = Vec::new();
        for c in &chains {
            targets.push(c[0]);
            targets.push(c[c.len() - 1]);
        }
        for _ in 0..r.below(3) {
            targets.push(r.below(ngates as u64) as usize);
        }
        for g in targets {
            let reps = if r.chance(1, 4) { 2 } else { 1 };
            for _ in 0..reps {
                let at = match r.below(4) {
                    0 | 1 => 0,
                    2 => 2 * r.range(1, 1000),
                    _ => *r.pick(&DELAYS),
                };
                let delay = if r.chance(1, 2) { 0 } else { *r.pick(&DELAYS) + 2 * r.below(3) };
                let from = if at == 0 && r.chance(1, 2) { "start" } else { "msg" };
                writeln!(out, "send s{s} gate=g{g} at={at} delay={delay} from={from}").unwrap();
                s += 1;
            }
        }
        writeln!(out, "end").unwrap();
    }
    out
}

//! C06: real des simulations (feature `async`) whose single module runs scripted tokio tasks.
#![allow(unused_imports, dead_code)]
//!
//! Script lines (objects are named by tag, so lines survive deletion):
//!   task <tag> <rt|loc> <ins> <ins> ...     a task program; `rt` = tokio::spawn, `loc` = tokio::task::spawn_local
//!   ev <time_ns> <ins> <ins> ...            a message delivered to the module at absolute time <time_ns>;
//!                                           the (synchronous) handler executes the instructions (s / w only)
//!   cev <time_ns> <ins> ...                 a message that a capturing ProcessingElement of the module CONSUMES: the
//!                                           element executes the instructions (w only) in `incoming`, i.e. outside
//!                                           the executor (a hand-off to a task through a channel); the handler is not run
//!   xev <time_ns> <ins> ...                 a message delivered to a SECOND module at <time_ns>; its handler executes the
//!                                           instructions (w / n only) on the conditions it shares with the first
//!                                           module (Arc captured at build time): a cross-module wake
//!   run                                     run the simulation; the transcript answer carries everything observed
//! Instructions (`*n` suffix = repeat n times):
//!   s<T>  spawn task T            w<K>  wake condition K once     a<K>  await condition K
//!   y     tokio::task::yield_now().await                          j<T>  await the JoinHandle of task T
//!   z<D>  des::time::sleep(D ns).await                            u<T>  des::time::sleep_until(T ns).await
//!   n<K>  Notify::notify_waiters() on condition K (K % 3 == 2)
//!   t<K>:<D>  des::time::timeout(D ns, notified()).await on Notify K (K % 3 == 2): the await and a Sleep at once,
//!             the loser is dropped
//! Condition K is a real tokio primitive chosen by K % 3:
//!   0 Semaphore (wake = add_permits(1), await = acquire().await + forget); any number of waiting tasks
//!   1 mpsc::unbounded_channel (wake = send(()) from anywhere, await = recv().await by ONE receiving task)
//!   2 Notify (wake = notify_one(), n = notify_waiters(), await = notified().await); any number of waiting tasks
//! Every task records (SimTime::now(), tag) when it is first polled and after every await.
//!
//! Transcript:  run -> L=<n> E=<n> C=<n> G=<n> res=<ok|err|panic> log=<t>:<tag>,<tag>;<t>:<tag>...
//!   log = the global sequence of records, grouped by observed time (records made during at_sim_end or later
//!   are dropped: they are "never" as far as simulated time is concerned);
//!   L / E / C = the *measured* budgets of the executor (observed through the order of the records): how many of
//!   2000 simultaneously ready spawn_local tasks one LocalSet tick polls before the runtime's tasks get their
//!   turn, how many of 2000 ready tokio::spawn tasks the runtime polls before the LocalSet is ticked again, and
//!   how many of 1000 available mpsc messages one poll receives before it is forced to yield; G = the distance
//!   between two timer-woken (inject queue) tasks in a stream of handler-spawned (local queue) tasks.
use crate::rng::Rng;
use crate::util::{cases, guarded, hval};
use des::net::processing::{ProcessingElement, ProcessingStack};
use des::prelude::*;
use std::collections::HashMap;
use std::fmt::Write;
use std::future::Future;
use std::pin::Pin;
use std::sync::atomic::{AtomicBool, Ordering};
use std::sync::{Arc, Mutex, OnceLock};
use std::time::Duration;
use tokio::sync::{mpsc, Notify, Semaphore};
use tokio::task::JoinHandle;

#[derive(Clone, Copy, Debug)]
enum Ins {
    Spawn(u32),
    Wake(u32),
    Wait(u32),
    Yield,
    Join(u32),
    Sleep(u64),
    SleepUntil(u64),
    NotifyAll(u32),
    WaitT(u32, u64),
}

fn parse_ins(tok: &str, out: &mut Vec<Ins>) {
    let (body, rep) = match tok.split_once('*') {
        Some((b, r)) => (b, r.parse::<usize>().unwrap_or(1).min(1_000_000)),
        None => (tok, 1),
    };
    if body.is_empty() || !body.is_ascii() {
        return;
    }
    let (op, arg) = body.split_at(1);
    if op == "t" {
        if let Some((k, d)) = arg.split_once(':') {
            if let (Ok(k), Ok(d)) = (k.parse::<u32>(), d.parse::<u64>()) {
                for _ in 0..rep {
                    out.push(Ins::WaitT(k, d));
                }
            }
        }
        return;
    }
    let n = arg.parse::<u32>().ok();
    let ins = match (op, n) {
        ("z", _) if arg.parse::<u64>().is_ok() => Ins::Sleep(arg.parse::<u64>().unwrap()),
        ("u", _) if arg.parse::<u64>().is_ok() => Ins::SleepUntil(arg.parse::<u64>().unwrap()),
        ("s", Some(n)) => Ins::Spawn(n),
        ("w", Some(n)) => Ins::Wake(n),
        ("a", Some(n)) => Ins::Wait(n),
        ("j", Some(n)) => Ins::Join(n),
        ("n", Some(n)) => Ins::NotifyAll(n),
        ("y", None) if arg.is_empty() => Ins::Yield,
        _ => return,
    };
    for _ in 0..rep {
        out.push(ins);
    }
}

enum Cond {
    Sem(Semaphore),
    Chan(mpsc::UnboundedSender<()>, Mutex<Option<mpsc::UnboundedReceiver<()>>>),
    Note(Notify),
}

struct World {
    progs: HashMap<u32, (bool, Vec<Ins>)>,
    conds: HashMap<u32, Cond>,
    started: Mutex<HashMap<u32, Option<JoinHandle<()>>>>,
    log: Mutex<Vec<(u64, u32)>>,
    ended: AtomicBool,
}

fn now_ns() -> u64 {
    SimTime::now().as_nanos() as u64
}

impl World {
    fn record(&self, tag: u32) {
        if !self.ended.load(Ordering::SeqCst) {
            self.log.lock().unwrap().push((now_ns(), tag));
        }
    }

    fn wake(&self, k: u32) {
        match self.conds.get(&k) {
            Some(Cond::Sem(s)) => s.add_permits(1),
            Some(Cond::Chan(tx, _)) => {
                let _ = tx.send(());
            }
            Some(Cond::Note(n)) => n.notify_one(),
            None => {}
        }
    }

    fn notify_all(&self, k: u32) {
        if let Some(Cond::Note(n)) = self.conds.get(&k) {
            n.notify_waiters();
        }
    }

    fn spawn(self: &Arc<Self>, t: u32) {
        let Some((loc, _)) = self.progs.get(&t) else {
            return;
        };
        if self.started.lock().unwrap().contains_key(&t) {
            return;
        }
        let fut = run_task(self.clone(), t);
        let h = if *loc {
            tokio::task::spawn_local(fut)
        } else {
            tokio::spawn(fut)
        };
        self.started.lock().unwrap().insert(t, Some(h));
    }

    fn exec_sync_wakes(&self, prog: &[Ins]) {
        for ins in prog {
            match *ins {
                Ins::Wake(k) => self.wake(k),
                Ins::NotifyAll(k) => self.notify_all(k),
                _ => {}
            }
        }
    }

    fn exec_sync(self: &Arc<Self>, prog: &[Ins]) {
        for ins in prog {
            match *ins {
                Ins::Spawn(t) => self.spawn(t),
                Ins::Wake(k) => self.wake(k),
                Ins::NotifyAll(k) => self.notify_all(k),
                _ => {}
            }
        }
    }
}

async fn wait(w: &Arc<World>, k: u32) {
    match w.conds.get(&k) {
        Some(Cond::Sem(s)) => {
            if let Ok(p) = s.acquire().await {
                p.forget();
            }
        }
        Some(Cond::Chan(_, slot)) => {
            let rx = slot.lock().unwrap().take();
            if let Some(mut rx) = rx {
                let _ = rx.recv().await;
                *slot.lock().unwrap() = Some(rx);
            } else {
                std::future::pending::<()>().await;
            }
        }
        Some(Cond::Note(n)) => n.notified().await,
        None => std::future::pending::<()>().await,
    }
}

fn run_task(w: Arc<World>, tag: u32) -> Pin<Box<dyn Future<Output = ()> + Send>> {
    Box::pin(async move {
        w.record(tag);
        let prog = w.progs.get(&tag).map(|p| p.1.clone()).unwrap_or_default();
        for ins in prog {
            match ins {
                Ins::Spawn(t) => w.spawn(t),
                Ins::Wake(k) => w.wake(k),
                Ins::NotifyAll(k) => w.notify_all(k),
                Ins::Wait(k) => {
                    wait(&w, k).await;
                    w.record(tag);
                }
                Ins::Yield => {
                    tokio::task::yield_now().await;
                    w.record(tag);
                }
                Ins::WaitT(k, d) => {
                    match w.conds.get(&k) {
                        Some(Cond::Note(n)) => {
                            let _ = des::time::timeout(Duration::from_nanos(d), n.notified()).await;
                        }
                        _ => wait(&w, k).await,
                    }
                    w.record(tag);
                }
                Ins::Sleep(d) => {
                    des::time::sleep(Duration::from_nanos(d)).await;
                    w.record(tag);
                }
                Ins::SleepUntil(t) => {
                    des::time::sleep_until(SimTime::from_duration(Duration::from_nanos(t))).await;
                    w.record(tag);
                }
                Ins::Join(t) => {
                    let h = w.started.lock().unwrap().get_mut(&t).and_then(|h| h.take());
                    match h {
                        Some(h) => {
                            let _ = h.await;
                        }
                        None => std::future::pending::<()>().await,
                    }
                    w.record(tag);
                }
            }
        }
    })
}

struct Node {
    w: Arc<World>,
    events: Arc<Vec<(u8, Vec<Ins>)>>,
}

/// consumes the messages of `cev` lines, performing their wakes outside the executor
struct Capture {
    w: Arc<World>,
    events: Arc<Vec<(u8, Vec<Ins>)>>,
}

impl ProcessingElement for Capture {
    fn incoming(&mut self, msg: Message) -> Option<Message> {
        let id = msg.header().id as usize;
        match self.events.get(id) {
            Some((1, prog)) => {
                self.w.exec_sync_wakes(prog);
                None
            }
            _ => Some(msg),
        }
    }
}

impl Module for Node {
    fn stack(&self, stack: ProcessingStack) -> ProcessingStack {
        let mut stack = stack;
        stack.append(Capture { w: self.w.clone(), events: self.events.clone() });
        stack
    }

    fn handle_message(&mut self, msg: Message) {
        let id = msg.header().id as usize;
        if let Some((0, prog)) = self.events.get(id) {
            self.w.exec_sync(prog);
        }
    }

    fn at_sim_end(&mut self) -> Result<(), RuntimeError> {
        self.w.ended.store(true, Ordering::SeqCst);
        Ok(())
    }
}

/// the second module: its handler wakes conditions it shares with the first one
struct Other {
    w: Arc<World>,
    events: Arc<Vec<(u8, Vec<Ins>)>>,
}

impl Module for Other {
    fn handle_message(&mut self, msg: Message) {
        let id = msg.header().id as usize;
        if let Some((2, prog)) = self.events.get(id) {
            self.w.exec_sync_wakes(prog);
        }
    }
}

/// event kinds: 0 = `ev`, 1 = `cev`, 2 = `xev`
struct Script {
    tasks: Vec<(u32, bool, Vec<Ins>)>,
    events: Vec<(u64, u8, Vec<Ins>)>,
}

fn parse(body: &[String]) -> (Script, bool) {
    let mut s = Script { tasks: Vec::new(), events: Vec::new() };
    let mut run = false;
    for line in body {
        let toks: Vec<&str> = line.split_whitespace().collect();
        match toks.first().copied() {
            Some("task") if toks.len() >= 3 => {
                let Some(tag) = toks[1].parse::<u32>().ok() else { continue };
                let loc = toks[2] == "loc";
                let mut prog = Vec::new();
                for t in &toks[3..] {
                    parse_ins(t, &mut prog);
                }
                s.tasks.push((tag, loc, prog));
            }
            Some("ev") | Some("cev") | Some("xev") if toks.len() >= 2 => {
                let Some(t) = toks[1].parse::<u64>().ok() else { continue };
                let mut prog = Vec::new();
                for t in &toks[2..] {
                    parse_ins(t, &mut prog);
                }
                s.events.push((t, match toks[0] { "cev" => 1, "xev" => 2, _ => 0 }, prog));
            }
            Some("run") => run = true,
            _ => {}
        }
    }
    (s, run)
}

/// run one scripted simulation on the real des runtime; returns (result, log)
fn simulate(s: &Script) -> (&'static str, Vec<(u64, u32)>) {
    let mut progs = HashMap::new();
    let mut conds = HashMap::new();
    let mut note = |prog: &Vec<Ins>| {
        for ins in prog {
            if let Ins::Wake(k) | Ins::Wait(k) | Ins::NotifyAll(k) | Ins::WaitT(k, _) = *ins {
                conds.entry(k).or_insert_with(|| match k % 3 {
                    0 => Cond::Sem(Semaphore::new(0)),
                    1 => {
                        let (tx, rx) = mpsc::unbounded_channel();
                        Cond::Chan(tx, Mutex::new(Some(rx)))
                    }
                    _ => Cond::Note(Notify::new()),
                });
            }
        }
    };
    for (tag, loc, prog) in &s.tasks {
        note(prog);
        progs.entry(*tag).or_insert((*loc, prog.clone()));
    }
    for (_, _, prog) in &s.events {
        note(prog);
    }
    let w = Arc::new(World {
        progs,
        conds,
        started: Mutex::new(HashMap::new()),
        log: Mutex::new(Vec::new()),
        ended: AtomicBool::new(false),
    });
    let events: Arc<Vec<(u8, Vec<Ins>)>> = Arc::new(s.events.iter().map(|e| (e.1, e.2.clone())).collect());
    let kinds: Vec<u8> = s.events.iter().map(|e| e.1).collect();
    let (w3, events3) = (w.clone(), events.clone());
    let w2 = w.clone();
    let times: Vec<u64> = s.events.iter().map(|e| e.0).collect();
    let res = guarded(move || {
        let mut sim = Sim::new(());
        sim.node("m", Node { w: w2, events });
        sim.node("o", Other { w: w3, events: events3 });
        let gate = sim.gate("m", "in");
        let ogate = sim.gate("o", "in");
        let mut rt = Builder::seeded(1).quiet().build(sim.freeze());
        for (i, t) in times.iter().enumerate() {
            rt.add_message_onto(
                if kinds[i] == 2 { ogate.clone() } else { gate.clone() },
                Message::default().id(i as u16),
                SimTime::from_duration(Duration::from_nanos(*t)),
            );
        }
        rt.run().is_ok()
    });
    w.ended.store(true, Ordering::SeqCst);
    // break the Arc cycles World -> JoinHandle -> task -> World
    w.started.lock().unwrap().clear();
    let log = std::mem::take(&mut *w.log.lock().unwrap());
    let r = match res {
        Ok(true) => "ok",
        Ok(false) => "err",
        Err(_) => "panic",
    };
    (r, log)
}

/// measured effective budgets (L, E, C), see the module doc
fn budgets() -> (usize, usize, usize, usize) {
    static B: OnceLock<(usize, usize, usize, usize)> = OnceLock::new();
    *B.get_or_init(|| {
        // L: one runtime task spawned first, then 2000 local tasks: the LocalSet tick comes first, so the number of
        //    local tasks recorded before the runtime task is the tick budget
        let s = Script {
            tasks: (0..=2000u32).map(|i| (i, i != 0, vec![])).collect(),
            events: vec![(1000, 0, (0..=2000u32).map(Ins::Spawn).collect()), (1_000_000_000, 0, vec![])],
        };
        let (_, log) = simulate(&s);
        let l = log.iter().take_while(|e| e.1 != 0).count();
        // E: a local task 0 waits for condition 3; 2000 runtime tasks become ready at once, the first one wakes
        //    condition 3: the local task continues when the runtime loop gives way to the next LocalSet tick
        let mut tasks: Vec<(u32, bool, Vec<Ins>)> = vec![(0, true, vec![Ins::Wait(3)]), (1, false, vec![Ins::Wake(3)])];
        tasks.extend((2..=2000u32).map(|i| (i, false, vec![])));
        let s = Script {
            tasks,
            events: vec![(1000, 0, vec![Ins::Spawn(0)]), (2000, 0, (1..=2000u32).map(Ins::Spawn).collect()), (1_000_000_000, 0, vec![])],
        };
        let (_, log) = simulate(&s);
        let e = log.iter().skip(1).take_while(|e| e.1 != 0).count();
        // C: 1000 messages are available to task 0, task 1 is queued behind it: the number of receives task 0 makes
        //    before task 1 gets its turn is the cooperative budget of one poll
        let mut ev: Vec<Ins> = vec![Ins::Wake(1); 1000];
        ev.push(Ins::Spawn(0));
        ev.push(Ins::Spawn(1));
        let s = Script {
            tasks: vec![(0, false, vec![Ins::Wait(1); 1000]), (1, false, vec![])],
            events: vec![(1000, 0, ev), (1_000_000_000, 0, vec![])],
        };
        let (_, log) = simulate(&s);
        let c = log.iter().take_while(|e| e.1 != 1).count().saturating_sub(1);
        // G: 200 runtime tasks (tags >= 1000) sleep until t = 5000 and are woken by the timer driver when the message
        //    of that instant arrives, i.e. outside the executor (inject queue); its handler spawns 2000 runtime tasks
        //    (local queue): the inject queue is looked at first on every G-th scheduler tick
        let mut tasks: Vec<(u32, bool, Vec<Ins>)> = (0..2000u32).map(|i| (i, false, vec![])).collect();
        tasks.extend((5000..5200u32).map(|i| (i, false, vec![Ins::SleepUntil(5000)])));
        let s = Script {
            tasks,
            events: vec![
                (1000, 0, (5000..5200u32).map(Ins::Spawn).collect()),
                (5000, 0, (0..2000u32).map(Ins::Spawn).collect()),
                (1_000_000_000, 0, vec![]),
            ],
        };
        let (_, log) = simulate(&s);
        let pos: Vec<usize> =
            log.iter().enumerate().filter(|(_, e)| e.0 == 5000 && e.1 >= 5000).map(|(i, _)| i).collect();
        let g = if pos.len() >= 3 { pos[2] - pos[1] } else { 0 };
        (l, e, c, g)
    })
}

pub fn exec(input: &str) -> String {
    let mut out = String::new();
    for (header, body) in cases(input) {
        writeln!(out, "{header}").unwrap();
        let (script, _) = parse(&body);
        for line in &body {
            if line.split_whitespace().next() == Some("run") {
                let (l, e, c, g) = budgets();
                let (res, log) = simulate(&script);
                let mut s = String::new();
                let mut last: Option<u64> = None;
                for (t, tag) in &log {
                    if last == Some(*t) {
                        write!(s, ",{tag}").unwrap();
                    } else {
                        if last.is_some() {
                            s.push(';');
                        }
                        write!(s, "{t}:{tag}").unwrap();
                        last = Some(*t);
                    }
                }
                if s.is_empty() {
                    s.push('-');
                }
                writeln!(out, "run -> L={l} E={e} C={c} G={g} res={res} log={s}").unwrap();
            } else {
                writeln!(out, "{line}").unwrap();
            }
        }
        writeln!(out, "end").unwrap();
    }
    out
}

// ----------------------------------------------------------------------------------------- generator

const NS: [u64; 8] = [1, 2, 60, 61, 62, 63, 200, 2000];

struct G {
    r: Rng,
    tasks: Vec<(u32, bool, Vec<String>)>,
    next_tag: u32,
    next_cond: u32,
}

impl G {
    fn tag(&mut self) -> u32 {
        self.next_tag += 1;
        self.next_tag
    }
    /// a fresh condition; Notify (k % 3 == 2) only when it will be woken at most once
    fn cond(&mut self, single_wake: bool) -> u32 {
        loop {
            self.next_cond += 1;
            if self.next_cond % 3 != 2 || single_wake {
                return self.next_cond;
            }
        }
    }
    /// a fresh condition of primitive `m` (0 Semaphore, 1 mpsc, 2 Notify)
    fn cond_of(&mut self, m: u32) -> u32 {
        loop {
            self.next_cond += 1;
            if self.next_cond % 3 == m {
                return self.next_cond;
            }
        }
    }
    fn kind(&mut self, mode: u64) -> bool {
        match mode {
            0 => false,
            1 => true,
            _ => self.r.chance(1, 2),
        }
    }
    fn task(&mut self, loc: bool, prog: Vec<String>) -> u32 {
        let t = self.tag();
        self.tasks.push((t, loc, prog));
        t
    }
}

fn rep(ins: String, n: u64) -> String {
    if n == 1 {
        ins
    } else {
        format!("{ins}*{n}")
    }
}

pub fn gen(seed: u64, count: usize, thorough: bool) -> String {
    let mut r = Rng::new(seed);
    let mut out = String::new();
    for id in 0..count {
        let mut g = G { r: r.fork(), tasks: Vec::new(), next_tag: 0, next_cond: 0 };
        // handler programs of the (1..3) "work" events; a late, unrelated event follows
        let nev = g.r.range(1, 3) as usize;
        let mut evs: Vec<Vec<String>> = vec![Vec::new(); nev];
        // the instants of the work events are fixed first: sleepers aim at them, just beside them, between them
        let mut times: Vec<u64> = Vec::new();
        let mut t = 0u64;
        for _ in 0..nev {
            t += *g.r.pick(&[7u64, 1000, 1_000_000, 2_500_000_000]);
            times.push(t);
        }
        // messages consumed by the capturing element: (slot = after work event i, wakes)
        let mut cevs: Vec<(usize, Vec<String>)> = Vec::new();
        // messages to the second module, which wakes conditions of the first one
        let mut xevs: Vec<(usize, Vec<String>)> = Vec::new();
        let timer_n: [u64; 6] = [1, 60, 61, 62, 200, 2000];
        // 0 tokio::spawn only, 1 spawn_local only, 2 mixed
        let mode = match g.r.below(8) {
            0..=2 => 0,
            3..=4 => 1,
            _ => 2,
        };
        let nfam = g.r.range(1, 3);
        // size class: mostly small so that thousands of cases run; the budget boundary sizes regularly
        let big = g.r.chance(1, if thorough { 4 } else { 12 });
        for _ in 0..nfam {
            let e = g.r.below(nev as u64) as usize;
            let n = if big {
                *g.r.pick(&NS)
            } else if g.r.chance(1, 6) {
                *g.r.pick(&NS[2..6])
            } else {
                g.r.range(1, 8)
            };
            match g.r.below(20) {
                0 => {
                    // burst: n tasks ready at once
                    for _ in 0..n {
                        let loc = g.kind(mode);
                        let t = g.task(loc, vec![]);
                        evs[e].push(format!("s{t}"));
                    }
                }
                1 => {
                    // burst of waiters released together by a later instruction of the same or a later event
                    let e2 = g.r.range(e as u64, nev as u64 - 1) as usize;
                    let mut wakes = Vec::new();
                    for _ in 0..n.min(300) {
                        let loc = g.kind(mode);
                        let k = g.cond(true);
                        let t = g.task(loc, vec![format!("a{k}")]);
                        evs[e].push(format!("s{t}"));
                        wakes.push(format!("w{k}"));
                    }
                    evs[e2].extend(wakes);
                }
                2 => {
                    // wake chain of depth d: handler wakes the first, each wakes the next
                    let d = n.min(400);
                    let conds: Vec<u32> = (0..=d).map(|_| g.cond(true)).collect();
                    for i in 0..d as usize {
                        let loc = g.kind(mode);
                        let t = g.task(loc, vec![format!("a{}", conds[i]), format!("w{}", conds[i + 1])]);
                        evs[0].push(format!("s{t}"));
                    }
                    let loc = g.kind(mode);
                    let t = g.task(loc, vec![format!("a{}", conds[d as usize])]);
                    evs[0].push(format!("s{t}"));
                    evs[e].push(format!("w{}", conds[0]));
                }
                3 => {
                    // fan-in: m producers each send once (or the handler sends m), one consumer receives m in a row
                    let m = if big { *g.r.pick(&[3u64, 100, 127, 128, 129, 300]) } else { g.r.range(2, 6) };
                    let k = g.cond(false);
                    let loc = g.kind(mode);
                    let c = g.task(loc, vec![rep(format!("a{k}"), m)]);
                    evs[0].push(format!("s{c}"));
                    if g.r.chance(1, 2) {
                        evs[e].push(rep(format!("w{k}"), m));
                    } else {
                        for _ in 0..m {
                            let loc = g.kind(mode);
                            let p = g.task(loc, vec![format!("w{k}")]);
                            evs[e].push(format!("s{p}"));
                        }
                    }
                }
                4 => {
                    // join tree: parent spawns c children (which may wait for a wake) and joins them all
                    let c = n.min(150);
                    let ploc = g.kind(mode);
                    let mut prog = Vec::new();
                    let mut joins = Vec::new();
                    let e2 = g.r.range(e as u64, nev as u64 - 1) as usize;
                    for _ in 0..c {
                        // a local child may only be spawned from a local parent
                        let loc = if ploc { g.kind(mode) } else { false };
                        let child = if g.r.chance(1, 3) {
                            let k = g.cond(true);
                            evs[e2].push(format!("w{k}"));
                            g.task(loc, vec![format!("a{k}")])
                        } else {
                            g.task(loc, vec![])
                        };
                        prog.push(format!("s{child}"));
                        joins.push(format!("j{child}"));
                    }
                    prog.extend(joins);
                    let p = g.task(ploc, prog);
                    evs[e].push(format!("s{p}"));
                }
                5 => {
                    // yielding tasks, interleaved with a wake so that the order of the re-queueing shows
                    for _ in 0..n.min(70) {
                        let loc = g.kind(mode);
                        let y = g.r.range(1, 3);
                        let k = g.cond(true);
                        let t = g.task(loc, vec![rep("y".into(), y), format!("w{k}")]);
                        let loc2 = g.kind(mode);
                        let u = g.task(loc2, vec![format!("a{k}"), "y".into()]);
                        evs[e].push(format!("s{t}"));
                        evs[0].push(format!("s{u}"));
                    }
                }
                7 | 8 => {
                    // burst of sleepers with the same deadline: woken by the timer driver outside the executor
                    // (runtime tasks: inject queue), optionally each handing on to a waiter
                    let n = if big { *g.r.pick(&timer_n) } else if g.r.chance(1, 5) { *g.r.pick(&timer_n[1..4]) } else { g.r.range(1, 6) };
                    let e2 = g.r.range(e as u64, nev as u64 - 1) as usize;
                    // absolute deadline: a later work event's instant (the message is delivered first and its handler
                    // competes through the local queue), one tick beside it, between events, or after the last one
                    let base = times[e];
                    let dl = match g.r.below(5) {
                        0 => times[e2],
                        1 => times[e2] + 1,
                        2 => times[e2].saturating_sub(1).max(base),
                        3 => base + g.r.range(1, 5000),
                        _ => times[nev - 1] + g.r.range(1, 1_000_000),
                    };
                    let rel = g.r.chance(1, 2);
                    let chain = n <= 200 && g.r.chance(1, 2);
                    for _ in 0..n {
                        let loc = g.kind(mode);
                        let sl = if rel { format!("z{}", dl.saturating_sub(base)) } else { format!("u{dl}") };
                        let mut prog = vec![sl];
                        if chain {
                            let k = g.cond(true);
                            let loc2 = g.kind(mode);
                            let u = g.task(loc2, vec![format!("a{k}")]);
                            evs[0].push(format!("s{u}"));
                            prog.push(format!("w{k}"));
                        }
                        let t = g.task(loc, prog);
                        evs[e].push(format!("s{t}"));
                    }
                    // competitors spawned by the handler of the deadline's instant
                    if g.r.chance(1, 2) {
                        for _ in 0..g.r.range(1, 70) {
                            let loc = g.kind(mode);
                            let t = g.task(loc, vec![]);
                            evs[e2].push(format!("s{t}"));
                        }
                    }
                }
                17 | 18 => {
                    // timeouts: an await on a Notify and a Sleep at once; the wake comes before, at, or after the
                    // deadline, or never; several tasks may share the Notify and the deadline
                    let m = if big { *g.r.pick(&[1u64, 30, 62, 200]) } else { g.r.range(1, 5) };
                    let shared = g.r.chance(1, 2);
                    let mut k = g.cond_of(2);
                    let base = times[e];
                    let e2 = g.r.range(e as u64, nev as u64 - 1) as usize;
                    let dl = match g.r.below(4) {
                        0 => times[e2],
                        1 => times[e2] + 1,
                        2 => base + g.r.range(0, 3000),
                        _ => times[nev - 1] + g.r.range(1, 100_000),
                    };
                    let mut ks = Vec::new();
                    for _ in 0..m {
                        if !shared {
                            k = g.cond_of(2);
                        }
                        ks.push(k);
                        let loc = g.kind(mode);
                        let mut prog = vec![format!("t{k}:{}", dl.saturating_sub(base))];
                        if g.r.chance(1, 3) {
                            prog.push(format!("t{k}:{}", g.r.range(0, 2000)));
                        }
                        let t = g.task(loc, prog);
                        evs[e].push(format!("s{t}"));
                    }
                    // wakes: by the handler of a work event, by a task, by a consumed message, or by another module
                    for _ in 0..g.r.below(m + 2) {
                        let kk = *g.r.pick(&ks);
                        let ins = if g.r.chance(1, 4) { format!("n{kk}") } else { format!("w{kk}") };
                        match g.r.below(4) {
                            0 => {
                                let loc = g.kind(mode);
                                let p = g.task(loc, vec![ins]);
                                evs[e2].push(format!("s{p}"));
                            }
                            1 => cevs.push((e2, vec![ins])),
                            2 => xevs.push((e2, vec![ins])),
                            _ => evs[e2].push(ins),
                        }
                    }
                }
                16 => {
                    // a poll that uses up the cooperative budget (128 receives) and is then deferred at an await
                    // that cannot complete yet: the task registers there in a later poll that observes nothing
                    if big {
                        let k = g.cond_of(1);
                        let k2 = g.cond_of(0);
                        let loc = g.kind(mode);
                        let t = g.task(loc, vec![rep(format!("a{k}"), 128), format!("a{k2}")]);
                        evs[e].push(rep(format!("w{k}"), 128));
                        evs[e].push(format!("s{t}"));
                        let e2 = g.r.range(e as u64, nev as u64 - 1) as usize;
                        if e2 > e {
                            evs[e2].push(format!("w{k2}"));
                        }
                    }
                }
                9 => {
                    // sleep sequences: several deadlines per task, zero sleeps, deadlines in the past
                    for _ in 0..n.min(40) {
                        let loc = g.kind(mode);
                        let mut prog = Vec::new();
                        for _ in 0..g.r.range(1, 4) {
                            prog.push(match g.r.below(6) {
                                0 => "z0".to_string(),
                                1 => format!("u{}", times[g.r.below(nev as u64) as usize]),
                                2 => format!("z{}", g.r.range(1, 3)),
                                3 => format!("z{}", *g.r.pick(&[7u64, 1000, 1_000_000])),
                                4 => "y".to_string(),
                                _ => format!("u{}", g.r.range(0, 3000)),
                            });
                        }
                        let t = g.task(loc, prog);
                        evs[e].push(format!("s{t}"));
                    }
                }
                10 => {
                    // hand-off: a message consumed by the capturing element wakes waiting tasks (outside the
                    // executor), which pass the baton on
                    let mut wakes = Vec::new();
                    for _ in 0..n.min(100) {
                        let loc = g.kind(mode);
                        let k = g.cond(true);
                        let mut prog = vec![format!("a{k}")];
                        if g.r.chance(1, 2) {
                            let k2 = g.cond(true);
                            let loc2 = g.kind(mode);
                            let u = g.task(loc2, vec![format!("a{k2}")]);
                            evs[0].push(format!("s{u}"));
                            prog.push(format!("w{k2}"));
                        }
                        let t = g.task(loc, prog);
                        evs[0].push(format!("s{t}"));
                        wakes.push(format!("w{k}"));
                    }
                    cevs.push((e, wakes));
                }
                11 => {
                    // several tasks wait on ONE semaphore; it gets fewer, as many, or more permits than waits
                    let m = n.min(80);
                    let k = g.cond_of(0);
                    let mut waits = 0;
                    for _ in 0..m {
                        let loc = g.kind(mode);
                        let w = g.r.range(1, 2);
                        waits += w;
                        let t = g.task(loc, vec![rep(format!("a{k}"), w)]);
                        evs[g.r.below(e as u64 + 1) as usize].push(format!("s{t}"));
                    }
                    let total = match g.r.below(3) {
                        0 => waits.saturating_sub(g.r.range(1, 2)),
                        1 => waits,
                        _ => waits + g.r.range(1, 3),
                    };
                    for _ in 0..total {
                        let e2 = g.r.range(e as u64, nev as u64 - 1) as usize;
                        if g.r.chance(1, 3) {
                            let loc = g.kind(mode);
                            let p = g.task(loc, vec![format!("w{k}")]);
                            evs[e2].push(format!("s{p}"));
                        } else {
                            evs[e2].push(format!("w{k}"));
                        }
                    }
                }
                12 => {
                    // several tasks wait on ONE Notify: notify_waiters releases them all, notify_one the oldest,
                    // a notify_one without waiter is stored (once)
                    let m = n.min(80);
                    let k = g.cond_of(2);
                    for _ in 0..m {
                        let loc = g.kind(mode);
                        let w = g.r.range(1, 2);
                        let t = g.task(loc, vec![rep(format!("a{k}"), w)]);
                        evs[g.r.below(e as u64 + 1) as usize].push(format!("s{t}"));
                    }
                    for _ in 0..g.r.range(1, 5) {
                        let e2 = g.r.below(nev as u64) as usize;
                        let ins = if g.r.chance(1, 2) { format!("n{k}") } else { rep(format!("w{k}"), g.r.range(1, 3)) };
                        if g.r.chance(1, 3) {
                            let loc = g.kind(mode);
                            let p = g.task(loc, vec![ins]);
                            evs[e2].push(format!("s{p}"));
                        } else {
                            evs[e2].push(ins);
                        }
                    }
                }
                13 => {
                    // a JoinHandle awaited by a task that did not spawn the child
                    for _ in 0..n.min(30) {
                        let k = g.cond(true);
                        let lc = g.kind(mode);
                        let child = g.task(lc, vec![format!("a{k}")]);
                        let lj = g.kind(mode);
                        let joiner = g.task(lj, vec![format!("j{child}")]);
                        evs[e].push(format!("s{child}"));
                        evs[e].push(format!("s{joiner}"));
                        let e2 = g.r.range(e as u64, nev as u64 - 1) as usize;
                        evs[e2].push(format!("w{k}"));
                    }
                }
                14 => {
                    // cross-module: another module's event wakes tasks of this module through shared conditions;
                    // they continue at this module's next own event
                    let mut wakes = Vec::new();
                    for _ in 0..n.min(100) {
                        let loc = g.kind(mode);
                        let k = g.cond(false);
                        let mut prog = vec![format!("a{k}")];
                        if g.r.chance(1, 2) {
                            let k2 = g.cond(true);
                            let loc2 = g.kind(mode);
                            let u = g.task(loc2, vec![format!("a{k2}")]);
                            evs[0].push(format!("s{u}"));
                            prog.push(format!("w{k2}"));
                        }
                        let t = g.task(loc, prog);
                        evs[0].push(format!("s{t}"));
                        wakes.push(format!("w{k}"));
                    }
                    xevs.push((e, wakes));
                }
                15 => {
                    // nested spawns: a local task spawns runtime and local children, runtime children spawn runtime
                    // grandchildren that wake the local ones
                    for _ in 0..n.min(25) {
                        let k = g.cond(true);
                        let gl = g.task(true, vec![format!("a{k}")]);
                        let grand = g.task(false, vec![format!("w{k}")]);
                        let child = g.task(false, vec![format!("s{grand}")]);
                        let parent = g.task(true, vec![format!("s{gl}"), format!("s{child}")]);
                        evs[e].push(format!("s{parent}"));
                    }
                }
                _ => {
                    // ping-pong between two tasks through semaphores / channels, d rounds
                    let d = n.min(200);
                    let (ka, kb) = (g.cond(false), g.cond(false));
                    let la = g.kind(mode);
                    let lb = g.kind(mode);
                    let mut pa = Vec::new();
                    let mut pb = Vec::new();
                    for _ in 0..d {
                        pa.push(format!("a{ka}"));
                        pa.push(format!("w{kb}"));
                        pb.push(format!("a{kb}"));
                        pb.push(format!("w{ka}"));
                    }
                    let a = g.task(la, pa);
                    let b = g.task(lb, pb);
                    evs[0].push(format!("s{a}"));
                    evs[0].push(format!("s{b}"));
                    evs[e].push(format!("w{ka}"));
                }
            }
        }
        // rare: an event whose task work takes a few hundred milliseconds of REAL time (700 000 executor turns): exec
        // has to keep turning however long that takes
        if g.r.chance(1, if thorough { 600 } else { 2000 }) {
            let k = *g.r.pick(&[1u64, 4]);
            let e = g.r.below(nev as u64) as usize;
            for _ in 0..k {
                let loc = g.kind(mode);
                let t = g.task(loc, vec![rep("y".into(), 700_000 / k)]);
                evs[e].push(format!("s{t}"));
            }
        }
        writeln!(out, "case {id}").unwrap();
        for (t, loc, prog) in &g.tasks {
            writeln!(out, "task {t} {} {}", if *loc { "loc" } else { "rt" }, prog.join(" ")).unwrap();
        }
        for (i, ev) in evs.iter().enumerate() {
            writeln!(out, "ev {} {}", times[i], ev.join(" ")).unwrap();
            // consumed messages follow the work event of their slot, before the next one
            let mut tc = times[i];
            for (what, list) in [("cev", &cevs), ("xev", &xevs)] {
                for (slot, wakes) in list {
                    if *slot == i {
                        tc += 1;
                        if i + 1 < nev && tc >= times[i + 1] {
                            break;
                        }
                        writeln!(out, "{what} {tc} {}", wakes.join(" ")).unwrap();
                    }
                }
            }
        }
        let mut t = *times.last().unwrap() + 1_000_000;
        // the late unrelated events that make left-behind work visible
        let nl = g.r.range(1, 2);
        for _ in 0..nl {
            t += 100_000_000_000;
            writeln!(out, "ev {t}").unwrap();
        }
        writeln!(out, "run").unwrap();
        writeln!(out, "end").unwrap();
    }
    out
}

//! C11: limited runs — generator only; execution is shared with C02 (src/c02.rs).
pub fn gen(seed: u64, count: usize, thorough: bool) -> String {
    crate::c02::gen_for(11, seed, count, thorough)
}
pub fn exec(input: &str) -> String {
    crate::c02::exec(input)
}

//! C07: one channel direction (`a.out --ch--> b.in`) inside a real des simulation.
//!
//! Script:
//!   case <id> bitrate=<bit/s> lat=<ns> jit=<ns> drop=<drop|qinf|q<bytes>> seed=<n>
//!       optional `tmpl=1`: the link under test is not wired at build time; in `at_sim_start` the sender first
//!       sends a 64-byte dummy over an auxiliary link `a.aux --> b.aux` with the same metrics (busy at once with a
//!       finite bitrate) and then connects `a.out --> b.in` handing `Gate::connect` the *auxiliary link's channel*
//!       as the template — `connect` gives a link its own channel instances with that configuration, so the link
//!       under test must behave exactly like one built from fresh metrics (idle, empty queue)
//!   h <gap> <e|l|s> <tag>:<bodylen> <tag>:<bodylen> …
//!       one handler of the sending module, `gap` ns after the previous handler (the first one
//!       relative to t=0); inside it the listed messages are sent with `send(..)` back to back
//!       (a burst).  Flag: `e` = the wake-up of this handler was scheduled *before* the sends of
//!       the previous handler (so it is dispatched before a same-instant ChannelUnbusyNotif),
//!       `l` = after them (dispatched after a same-instant unbusy), `s` = run inside
//!       `at_sim_start` (only honoured for the first line with gap 0).
//!       Messages are named by their tag (unique u64); message length = 64 + bodylen.
//!
//! Transcript: the script lines annotated with the absolute handler time, interleaved in
//! dispatch order with `ev` lines (ignored when a transcript is fed back to `exec`):
//!   ev obs   t= busy= tft= [qb= qp=]                       handler entry (sender)
//!   ev offer t= tag= len= tx= started= busy= tft= [qb= qp=] one `send`; tx = calculate_busy(msg) read from
//!                                                          the implementation; started = probe fired
//!                                                          during the call; state after the call
//!   ev deq   t= tag=                                       probe fired outside a `send` (unbusy path)
//!   ev rx    t= tag= busy= tft= [qb= qp=]                  arrival at the receiving module
//!   ev fin   t= busy= tft= [qb= qp=] err=<0|1>             after `run()` returned
//! qb/qp (queued bytes / packets) come from the channel's `Debug` output, which shows them only
//! while the channel is busy.
use crate::rng::Rng;
use crate::util::{cases, guarded, hval};
use des::net::channel::ChannelProbe;
use des::prelude::*;
use std::fmt::Write;
use std::sync::{Arc, Mutex};

const WAKE: u16 = 77;
const DUMMY: u16 = 78;

#[derive(Clone, Debug)]
struct Pay {
    tag: u64,
    blen: usize,
}
impl MessageBody for Pay {
    fn byte_len(&self) -> usize {
        self.blen
    }
}

#[derive(Clone, Debug)]
struct HLine {
    gap: u64,
    flag: char,
    sends: Vec<(u64, usize)>,
}

#[derive(Default)]
struct Shared {
    log: Vec<String>,
    in_send: bool,
    started_in_send: bool,
    chan: Option<ChannelRef>,
    handler_times: Vec<(usize, u128)>,
}

fn now_ns() -> u128 {
    SimTime::now().as_nanos()
}

fn chan_state(ch: &ChannelRef) -> String {
    let dbg = format!("{ch:?}");
    let mut s = format!(
        "busy={} tft={}",
        ch.is_busy() as u8,
        ch.transmission_finish_time().as_nanos()
    );
    if let Some(i) = dbg.find("bytes: ") {
        let rest = &dbg[i + 7..];
        let n: String = rest.chars().take_while(|c| c.is_ascii_digit()).collect();
        write!(s, " qb={n}").unwrap();
    }
    if let Some(i) = dbg.find("packets: ") {
        let rest = &dbg[i + 9..];
        let n: String = rest.chars().take_while(|c| c.is_ascii_digit()).collect();
        write!(s, " qp={n}").unwrap();
    }
    s
}

struct Probe(Arc<Mutex<Shared>>);
impl ChannelProbe for Probe {
    fn on_message_transmit(&mut self, _: &ChannelMetrics, msg: &Message) {
        // NB: the channel's lock is held here: do not touch the channel
        let tag = msg.try_content::<Pay>().map(|p| p.tag).unwrap_or(u64::MAX);
        let mut sh = self.0.lock().unwrap();
        if sh.in_send {
            sh.started_in_send = true;
        } else {
            let t = now_ns();
            sh.log.push(format!("ev deq t={t} tag={tag}"));
        }
    }
}

struct Sender {
    sh: Arc<Mutex<Shared>>,
    lines: Vec<HLine>,
}

thread_local! {
    /// `tmpl=1`: the far end of the link under test, wired in `at_sim_start` from a busy template channel
    static PEER: std::cell::RefCell<Option<GateRef>> = const { std::cell::RefCell::new(None) };
}

impl Sender {
    fn schedule(&self, idx: usize) {
        if let Some(l) = self.lines.get(idx) {
            schedule_in(
                Message::default().kind(WAKE).with_content(idx as u64),
                Duration::from_nanos(l.gap),
            );
        }
    }

    fn run_line(&mut self, idx: usize) {
        let line = self.lines[idx].clone();
        let ch = self.sh.lock().unwrap().chan.clone().expect("channel");
        {
            let mut sh = self.sh.lock().unwrap();
            let t = now_ns();
            sh.handler_times.push((idx, t));
            let st = chan_state(&ch);
            sh.log.push(format!("ev obs t={t} {st}"));
        }
        let next_early = self.lines.get(idx + 1).map(|l| l.flag == 'e').unwrap_or(false);
        if next_early {
            self.schedule(idx + 1);
        }
        for (tag, blen) in line.sends {
            let msg = Message::default().kind(1).with_content(Pay { tag, blen });
            let len = msg.length();
            let tx = ch.calculate_busy(&msg).as_nanos();
            {
                let mut sh = self.sh.lock().unwrap();
                sh.in_send = true;
                sh.started_in_send = false;
            }
            send(msg, "out");
            let mut sh = self.sh.lock().unwrap();
            sh.in_send = false;
            let started = sh.started_in_send as u8;
            let t = now_ns();
            let st = chan_state(&ch);
            sh.log
                .push(format!("ev offer t={t} tag={tag} len={len} tx={tx} started={started} {st}"));
        }
        if !next_early {
            self.schedule(idx + 1);
        }
    }
}

impl Module for Sender {
    fn at_sim_start(&mut self, _stage: usize) {
        if let Some(peer) = PEER.with(|p| p.borrow_mut().take()) {
            send(Message::default().kind(DUMMY), "aux");
            let template = current().gate("aux", 0).unwrap().channel().unwrap();
            current().gate("out", 0).unwrap().connect(peer, Some(template));
        }
        let ch = current().gate("out", 0).unwrap().channel().unwrap();
        ch.attach_probe(Probe(self.sh.clone()));
        self.sh.lock().unwrap().chan = Some(ch);
        match self.lines.first() {
            Some(l) if l.flag == 's' && l.gap == 0 => self.run_line(0),
            Some(_) => self.schedule(0),
            None => {}
        }
    }

    fn handle_message(&mut self, msg: Message) {
        if msg.header().kind == WAKE {
            let idx = *msg.content::<u64>() as usize;
            self.run_line(idx);
        }
    }
}

struct Receiver {
    sh: Arc<Mutex<Shared>>,
}

impl Module for Receiver {
    fn handle_message(&mut self, msg: Message) {
        if msg.header().kind == DUMMY {
            return;
        }
        let tag = msg.try_content::<Pay>().map(|p| p.tag).unwrap_or(u64::MAX);
        let mut sh = self.sh.lock().unwrap();
        let t = now_ns();
        let st = sh.chan.as_ref().map(chan_state).unwrap_or_default();
        sh.log.push(format!("ev rx t={t} tag={tag} {st}"));
    }
}

fn parse_drop(s: &str) -> ChannelDropBehaviour {
    match s {
        "drop" => ChannelDropBehaviour::Drop,
        "qinf" => ChannelDropBehaviour::Queue(None),
        _ => match s.strip_prefix('q').and_then(|v| v.parse::<usize>().ok()) {
            Some(n) => ChannelDropBehaviour::Queue(Some(n)),
            None => ChannelDropBehaviour::Drop,
        },
    }
}

fn parse_hline(line: &str) -> Option<HLine> {
    let tok: Vec<&str> = line.split_whitespace().collect();
    if tok.len() < 3 || tok[0] != "h" {
        return None;
    }
    let gap: u64 = tok[1].parse().ok()?;
    let flag = tok[2].chars().next()?;
    let mut sends = Vec::new();
    for t in &tok[3..] {
        let mut it = t.split(':');
        let tag: u64 = it.next()?.parse().ok()?;
        let blen: usize = it.next()?.parse().ok()?;
        sends.push((tag, blen));
    }
    Some(HLine { gap, flag, sends })
}

/// integer approximation of the transmission time (ns) of a message of `len` bytes
fn tx_ns(len: u64, bitrate: u64) -> u64 {
    if bitrate == 0 {
        0
    } else {
        ((len as u128 * 8 * 1_000_000_000 + bitrate as u128 / 2) / bitrate as u128) as u64
    }
}

pub fn exec(input: &str) -> String {
    let mut out = String::new();
    for (header, body) in cases(input) {
        let bitrate: usize = hval(&header, "bitrate").and_then(|v| v.parse().ok()).unwrap_or(0);
        let lat: u64 = hval(&header, "lat").and_then(|v| v.parse().ok()).unwrap_or(0);
        let jit: u64 = hval(&header, "jit").and_then(|v| v.parse().ok()).unwrap_or(0);
        let seed: u64 = hval(&header, "seed").and_then(|v| v.parse().ok()).unwrap_or(1);
        let drop = parse_drop(&hval(&header, "drop").unwrap_or_else(|| "drop".into()));
        let tmpl = hval(&header, "tmpl").as_deref() == Some("1");
        writeln!(out, "{header}").unwrap();

        let lines: Vec<HLine> = body.iter().filter_map(|l| parse_hline(l)).collect();
        let raw: Vec<&String> = body.iter().filter(|l| parse_hline(l).is_some()).collect();
        let sh = Arc::new(Mutex::new(Shared::default()));

        // calendar-queue bucket width adapted to the time scale of the case (the real scan loop is
        // linear in gap / width)
        let scale = tx_ns(64, bitrate as u64).max(lat).max(jit).max(4);
        let width = (scale / 4).max(1);

        let sh2 = sh.clone();
        let lines2 = lines.clone();
        let res = guarded(move || {
            let mut sim = Sim::new(());
            sim.node("a", Sender { sh: sh2.clone(), lines: lines2 });
            sim.node("b", Receiver { sh: sh2.clone() });
            let g_out = sim.gate("a", "out");
            let g_in = sim.gate("b", "in");
            let channel = Channel::new(ChannelMetrics::new(
                bitrate,
                Duration::from_nanos(lat),
                Duration::from_nanos(jit),
                drop,
            ));
            if tmpl {
                let a_aux = sim.gate("a", "aux");
                let b_aux = sim.gate("b", "aux");
                a_aux.connect(b_aux, Some(channel));
                PEER.with(|p| *p.borrow_mut() = Some(g_in));
            } else {
                g_out.connect(g_in, Some(channel));
            }
            let rt = Builder::seeded(seed)
                .quiet()
                .cqueue_options(64, Duration::from_nanos(width))
                .build(sim.freeze());
            match rt.run() {
                Ok((_, t, _)) => (t.as_nanos(), 0u8),
                Err(_) => (now_ns(), 1u8),
            }
        });
        let (tfin, err) = match res {
            Ok(v) => v,
            Err(_) => (0, 2),
        };
        let mut shd = sh.lock().unwrap();
        // annotated script lines first, then the event log in dispatch order
        for (i, l) in raw.iter().enumerate() {
            match shd.handler_times.iter().find(|h| h.0 == i) {
                Some((_, t)) => writeln!(out, "{l} -> at={t}").unwrap(),
                None => writeln!(out, "{l} -> never").unwrap(),
            }
        }
        for l in &shd.log {
            writeln!(out, "{l}").unwrap();
        }
        let st = shd.chan.as_ref().map(chan_state).unwrap_or_else(|| "busy=0 tft=0".into());
        writeln!(out, "ev fin t={tfin} {st} err={err}").unwrap();
        writeln!(out, "end").unwrap();
        // break the cycle channel -> probe -> shared state -> channel
        shd.chan = None;
    }
    out
}

const BITRATES: [u64; 7] = [0, 1, 8, 1_000, 1_000_000, 1_000_000_000_000, 2_000_000_000_000];
const LATS: [u64; 6] = [0, 1, 1_000, 1_000_000, 100_000_000, 1_000_000_000];
const JITS: [u64; 6] = [0, 0, 1, 1_000, 1_000_000, 50_000_000];
const BODIES: [u64; 9] = [0, 1, 64, 448, 512, 936, 1_000, 65_472, 999_936];

pub fn gen(seed: u64, count: usize, thorough: bool) -> String {
    let mut r = Rng::new(seed);
    let mut out = String::new();
    for k in 0..count {
        let bitrate = *r.pick(&BITRATES);
        let lat = *r.pick(&LATS);
        let jit = if r.chance(1, 2) { 0 } else { *r.pick(&JITS) };
        // base body length of the case; most messages use it
        let base = if bitrate >= 1_000_000_000_000 && r.chance(1, 2) {
            *r.pick(&[0u64, 999_936, 65_472, 512])
        } else {
            *r.pick(&BODIES[..7])
        };
        let blen = 64 + base;
        let drop = match r.below(8) {
            0 | 1 => "drop".to_string(),
            2 | 3 => "qinf".to_string(),
            4 => "q0".to_string(),
            _ => {
                let kk = r.range(1, 3);
                let d = r.below(3) as i64 - 1;
                format!("q{}", (kk * blen) as i64 + d)
            }
        };
        let t = tx_ns(blen, bitrate);
        // a third of the cases wire the link under test at run time from a (busy) template channel (`tmpl=1`);
        // derived from the seed value so that the random stream of the generator is unchanged
        let sd = r.below(1000);
        let tmpl = if sd % 3 == 0 { " tmpl=1" } else { "" };
        writeln!(out, "case {k} bitrate={bitrate} lat={lat} jit={jit} drop={drop} seed={sd}{tmpl}").unwrap();
        let nh = if thorough { r.range(1, 14) } else { r.range(1, 7) };
        let mut tag = 0u64;
        for i in 0..nh {
            // gaps around multiples of the transmission time: <, =, > and far apart
            let gap = match r.below(12) {
                0 => 0,
                1 | 2 => t,
                3 => t.saturating_sub(1),
                4 => t + 1,
                5 => t / 2,
                6 => t * r.range(2, 3),
                7 => (t * r.range(2, 3) + r.below(3)).saturating_sub(1),
                8 => r.below(4),
                9 => t + lat,
                10 => t * r.range(1, 6) + lat + jit,
                _ => t.saturating_mul(r.range(0, 4)) / 3,
            };
            let flag = if i == 0 && r.chance(1, 3) {
                's'
            } else if r.chance(1, 2) {
                'e'
            } else {
                'l'
            };
            let gap = if flag == 's' { 0 } else { gap };
            let ns = match r.below(8) {
                0 => 0,
                1 | 2 | 3 => 1,
                4 | 5 => r.range(2, 3),
                _ => r.range(3, 6),
            };
            write!(out, "h {gap} {flag}").unwrap();
            for _ in 0..ns {
                tag += 1;
                let b = if r.chance(3, 4) {
                    base
                } else if bitrate >= 1_000_000_000_000 {
                    *r.pick(&[0u64, 0, 64, 999_936, 65_472])
                } else {
                    *r.pick(&BODIES[..7])
                };
                write!(out, " {tag}:{b}").unwrap();
            }
            writeln!(out).unwrap();
        }
        writeln!(out, "end").unwrap();
    }
    // Big bursts (their own random stream, so the cases above are unchanged): 33..80 sends inside one handler over
    // an unlimited-bitrate (or zero-transmission-time) channel without jitter, the next wake-up scheduled *before*
    // the sends (`e`) and due later or earlier than the deliveries — the handler's emission buffer then holds more
    // than 32 same-instant exit events behind an event with another timestamp. Offer order must survive.
    let mut r = Rng::new(seed ^ 0x5eed_b16b_0057);
    for k in 0..(count / 24).max(2) {
        let bitrate: u64 = if r.chance(3, 4) { 0 } else { 2_000_000_000_000 };
        let lat = *r.pick(&LATS);
        let drop = if r.chance(1, 4) { "drop" } else { "qinf" };
        let sd = r.below(1000);
        let tmpl = if sd % 3 == 0 { " tmpl=1" } else { "" };
        writeln!(out, "case b{k} bitrate={bitrate} lat={lat} jit=0 drop={drop} seed={sd}{tmpl}").unwrap();
        let mut tag = 0u64;
        for i in 0..r.range(1, 3) {
            let gap = match r.below(4) {
                0 => lat + 1 + r.below(5),
                1 => lat.saturating_sub(1),
                2 => lat,
                _ => r.below(4),
            };
            let flag = if i == 0 && r.chance(1, 4) { 's' } else if r.chance(3, 4) { 'e' } else { 'l' };
            let gap = if flag == 's' { 0 } else { gap };
            write!(out, "h {gap} {flag}").unwrap();
            for _ in 0..r.range(33, 80) {
                tag += 1;
                write!(out, " {tag}:0").unwrap();
            }
            writeln!(out).unwrap();
        }
        writeln!(out, "end").unwrap();
    }
    out
}

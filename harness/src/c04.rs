//! C04: seeded simulations are reproducible.
//!
//! Every case is one (model, seed): a generated multi-module `des` network (2-6 modules, some of them
//! children in the module tree, directed links with latency + jitter or channel-less, scripted modules
//! that draw `des::runtime::random`, send / schedule messages and spawn tokio tasks which `sleep`,
//! `tokio::select!` over 2-3 sleeps, draw and send).  `exec` executes the SAME (model, seed)
//!
//!   a1, a2  twice back to back in this process,
//!   b       once more after an unrelated "noise" simulation of a different size (so that every
//!           process-global counter, the leftover clock / RNG and the allocator state differ),
//!   c       in a child process (`hx c04 exec` re-invoked through `std::env::current_exe()` with
//!           `HX_C04_CHILD=1`; one child handles all cases of the batch that carry `child=1`),
//!
//! and writes the four canonical traces into the transcript.  The Lean driver compares the traces of
//! the real runs with each other (kind=reject clause=nondeterminism) and with the trace of the model
//! `Repro.run` replayed on the recorded random stream (kind=diverge).
//!
//! Script lines (objects are named by paths / tags, any line may be deleted):
//!   mod <path> ttl=<n>                  a module; order of lines = creation order; a module whose parent
//!                                       does not exist (yet) does not exist
//!   link <src> <dst> lat=<ns> jit=<ns> [rate=<bit/s>]
//!                                       gate o_<dst> of <src> --channel--> gate i_<src> of <dst>; with a bitrate the
//!                                       channel is busy while it transmits and queues (Queue(None)) what comes then;
//!                                       a probe logs every start of a transmission (`xmit <src> <dst> <serial>`)
//!   link <src> <dst> direct             the same without a channel
//!   ndl base=<k>                        the network is built from an NDL description generated from the `mod` / `link`
//!                                       lines (`ndl_text`): root `^` = entry type `Top`, which inherits type `Base`
//!                                       (the first k submodules) and adds the others; flat, channel-less links
//!   body map|set <n>                    every `send` carries (serial, HashMap<u32, String> | HashSet<String>) with n entries of
//!                                       different sizes; the probe's `xmit` line ends with Message::length()
//!   rule <path> start|end|msg:<kind> <step>...      first matching rule wins
//!   task <tag> <step>...
//!   step = draw | draw32 | send:<dst>:<kind>[:<delay>] (send / send_in) | sched:<delay>:<kind> | spawn:<task>
//!        | schedr:<kind>                             x = random::<u64>(); schedule_in(.., x % 8 ns)
//!        | spin:<n>:<every>                          n times yield_now().await, a draw after every <every>-th (tasks)
//!        | sig:<name> | wait:<name>                  tokio Semaphore of the module: add_permits(1) / acquire().await (tasks)
//!        | sleep:<ns> | sel:<ns>,<ns>[,<ns>]        (spawn: handlers only; sleep, sel: tasks only)
//!        | shut | restart:<ns>                       `current().shutdown()` / `shutdow_and_restart_in(ns)`, from
//!                                                    handlers and tasks; at most 2 per module and run
//! A shutdown is processed after the event: the module's tokio runtime and its tasks are dropped, `Module::reset`
//! runs on the runtime of the next incarnation (logged as `reset`), a restart replays `at_sim_start`.
//! A message carries kind (selects the rule), ttl (header id; emissions need ttl > 0 and emit ttl-1) and
//! a serial number (content) that counts the emissions of the run.
//!
//! Header: cq=<n>:<ns> bopts=<letters>: how the Builder is configured after `seeded(seed)` (see `BuildCfg`); such a
//! case is executed a fifth time (`g`) with the plain builder / default calendar-queue geometry.  nomodel=1: the case
//! uses `spawnl:<task>` (tokio::task::spawn_local; logged as `L.<tag>`), the driver only compares the executions.
//! Header: seed=<u64> noise=<seed of the noise simulation> child=0|1 clock=0|1 burn=<n> (advance the
//! process-global module-id counter by n before the first execution).
//! Transcript: header extended with `tq=front|skip` (measured behaviour of `TimerQueue::next`, a model
//! parameter), the script lines, then per run R in a1 a2 b c
//!   o <R> <time> <path> <what> <who> <src> <args...>     canonical observation (no ids, no addresses)
//!   d <R> <path> <task>                                  unfinished task dropped with the simulation
//!   tx <src> <dst> <ns>                                  measured transmission time of a message on a link with a bitrate
//!   bt <R> <ns>                                          (header `clock=1`) `SimTime::now()` while the network is built
//!   res <R> ok time=<ns> events=<n> left=<n> | err=<kind>
use crate::rng::Rng;
use crate::util::{cases, guarded, hval};
use des::prelude::*;
use std::fmt::Write;
use std::future::Future;
use std::io::Write as IoWrite;
use std::pin::Pin;
use std::sync::{Arc, Mutex};
use std::task::{Context, Poll};

// ------------------------------------------------------------------------------------------ script

#[derive(Clone, Debug)]
enum Step {
    Draw,
    Draw32,
    Send(String, u16, u64),
    Sig(String),
    Wait(String),
    Schedr(u16),
    Spin(u64, u64),
    Sched(u64, u16),
    Spawn(String),
    SpawnL(String),
    Sleep(u64),
    Sel(Vec<u64>),
    Shut,
    Restart(u64),
}

#[derive(Clone, Debug, PartialEq)]
enum On {
    Start,
    End,
    Msg(u16),
}

#[derive(Clone, Debug)]
struct Link {
    src: String,
    dst: String,
    /// latency, jitter, bitrate
    chan: Option<(u64, u64, u64)>,
}

#[derive(Default, Debug)]
struct Net {
    mods: Vec<(String, u16)>,
    links: Vec<Link>,
    rules: Vec<(String, On, Vec<Step>)>,
    tasks: Vec<(String, Vec<Step>)>,
    /// `ndl base=<k>`: the network is built from a generated NDL description (see `ndl_text`)
    ndl: Option<usize>,
    /// `body map|set <n>`: every `send` carries, next to its serial number, a std HashMap<u32, String> / HashSet<String>
    /// with n entries of different sizes (the same logical content in every execution)
    body: Option<(bool, usize)>,
}

/// length of the i-th map value / set element
fn map_val_len(i: usize) -> usize {
    1 + (i * 7) % 13
}
fn set_elem_len(i: usize) -> usize {
    3 + (i * 5) % 11
}

fn body_map(n: usize) -> std::collections::HashMap<u32, String> {
    (0..n).map(|i| ((i as u32).wrapping_mul(2_654_435_761), "x".repeat(map_val_len(i)))).collect()
}
fn body_set(n: usize) -> std::collections::HashSet<String> {
    (0..n).map(|i| format!("{:03}{}", i, "y".repeat(set_elem_len(i) - 3))).collect()
}

/// the message of an emission: serial number, and the hash-table body if the case asks for one
fn with_body(net: &Net, msg: Message, serial: u64) -> Message {
    match net.body {
        Some((true, n)) => msg.with_content((serial, body_map(n))),
        Some((false, n)) => msg.with_content((serial, body_set(n))),
        None => msg.with_content(serial),
    }
}

fn serial_of(msg: &Message) -> u64 {
    if let Some(x) = msg.try_content::<u64>() {
        return *x;
    }
    if let Some(x) = msg.try_content::<(u64, std::collections::HashMap<u32, String>)>() {
        return x.0;
    }
    if let Some(x) = msg.try_content::<(u64, std::collections::HashSet<String>)>() {
        return x.0;
    }
    0
}

fn parse_step(t: &str) -> Option<Step> {
    let p: Vec<&str> = t.split(':').collect();
    match p.as_slice() {
        ["draw"] => Some(Step::Draw),
        ["draw32"] => Some(Step::Draw32),
        ["send", dst, k] => Some(Step::Send(dst.to_string(), k.parse().ok()?, 0)),
        ["send", dst, k, d] => Some(Step::Send(dst.to_string(), k.parse().ok()?, d.parse().ok()?)),
        ["schedr", k] => Some(Step::Schedr(k.parse().ok()?)),
        ["spin", n, e] => {
            let e: u64 = e.parse().ok()?;
            if e == 0 {
                return None;
            }
            Some(Step::Spin(n.parse().ok()?, e))
        }
        ["sig", n] => Some(Step::Sig(n.to_string())),
        ["wait", n] => Some(Step::Wait(n.to_string())),
        ["sched", d, k] => Some(Step::Sched(d.parse().ok()?, k.parse().ok()?)),
        ["spawn", t] => Some(Step::Spawn(t.to_string())),
        ["spawnl", t] => Some(Step::SpawnL(t.to_string())),
        ["sleep", d] => Some(Step::Sleep(d.parse().ok()?)),
        ["shut"] => Some(Step::Shut),
        ["restart", d] => Some(Step::Restart(d.parse().ok()?)),
        ["sel", ds] => {
            let v: Option<Vec<u64>> = ds.split(',').map(|x| x.parse().ok()).collect();
            let v = v?;
            if v.len() == 2 || v.len() == 3 {
                Some(Step::Sel(v))
            } else {
                None
            }
        }
        _ => None,
    }
}

fn parent_of(path: &str) -> Option<&str> {
    path.rfind('.').map(|i| &path[..i])
}

fn parse(body: &[String]) -> Net {
    let mut net = Net::default();
    for line in body {
        let t: Vec<&str> = line.split_whitespace().collect();
        match t.as_slice() {
            ["mod", path, rest @ ..] => {
                if path.is_empty() || path.split('.').any(|c| c.is_empty()) {
                    continue;
                }
                if net.mods.iter().any(|m| m.0 == *path) {
                    continue;
                }
                if let Some(p) = parent_of(path) {
                    if !net.mods.iter().any(|m| m.0 == p) {
                        continue;
                    }
                }
                let mut ttl = 0u16;
                for kv in rest {
                    if let Some(v) = kv.strip_prefix("ttl=") {
                        ttl = v.parse().unwrap_or(0);
                    }
                }
                net.mods.push((path.to_string(), ttl));
            }
            _ => {}
        }
    }
    for line in body {
        let t: Vec<&str> = line.split_whitespace().collect();
        if let ["body", kind, n] = t.as_slice() {
            if let Ok(n) = n.parse::<usize>() {
                if (*kind == "map" || *kind == "set") && n <= 999 {
                    net.body = Some((*kind == "map", n));
                }
            }
        }
        if let ["ndl", kv] = t.as_slice() {
            if let Some(k) = kv.strip_prefix("base=").and_then(|v| v.parse::<usize>().ok()) {
                net.ndl = Some(k);
            }
        }
    }
    if net.ndl.is_some() {
        // an NDL network is flat: the root `^` (the entry type) and its submodules
        net.mods.retain(|m| !m.0.contains('.'));
    }
    let has = |net: &Net, p: &str| net.mods.iter().any(|m| m.0 == p);
    for line in body {
        let t: Vec<&str> = line.split_whitespace().collect();
        match t.as_slice() {
            ["link", src, dst, rest @ ..] => {
                if !has(&net, src) || !has(&net, dst) || src == dst {
                    continue;
                }
                if net.links.iter().any(|l| l.src == *src && l.dst == *dst) {
                    continue;
                }
                let mut lat = None;
                let mut jit = None;
                let mut direct = false;
                let mut rate = 0u64;
                for kv in rest {
                    if let Some(v) = kv.strip_prefix("rate=") {
                        rate = v.parse::<u64>().unwrap_or(0);
                    }
                    if let Some(v) = kv.strip_prefix("lat=") {
                        lat = v.parse::<u64>().ok();
                    } else if let Some(v) = kv.strip_prefix("jit=") {
                        jit = v.parse::<u64>().ok();
                    } else if *kv == "direct" {
                        direct = true;
                    }
                }
                let chan = if direct || net.ndl.is_some() {
                    None
                } else {
                    match (lat, jit) {
                        (Some(l), Some(j)) => Some((l, j, rate)),
                        _ => continue,
                    }
                };
                net.links.push(Link { src: src.to_string(), dst: dst.to_string(), chan });
            }
            ["rule", path, on, steps @ ..] => {
                let on = match *on {
                    "start" => On::Start,
                    "end" => On::End,
                    o => match o.strip_prefix("msg:").and_then(|k| k.parse::<u16>().ok()) {
                        Some(k) => On::Msg(k),
                        None => continue,
                    },
                };
                let steps: Vec<Step> = steps.iter().filter_map(|s| parse_step(s)).collect();
                net.rules.push((path.to_string(), on, steps));
            }
            ["task", tag, steps @ ..] => {
                if net.tasks.iter().any(|x| x.0 == *tag) {
                    continue;
                }
                let steps: Vec<Step> = steps.iter().filter_map(|s| parse_step(s)).collect();
                net.tasks.push((tag.to_string(), steps));
            }
            _ => {}
        }
    }
    net
}

// ------------------------------------------------------------------------------------------ real code


struct Shared {
    log: Vec<String>,
    drops: Vec<String>,
    serial: u64,
    /// `ModuleId` (process-global counter) -> path, filled while the simulation is built
    ids: Vec<(u16, String)>,
    /// `Module::reset` calls per module path (= incarnation number)
    incs: Vec<(String, u32)>,
    /// semaphores of the modules: (module path, name)
    sems: Vec<((String, String), Arc<tokio::sync::Semaphore>)>,
}

fn sem_of(path: &str, name: &str) -> Arc<tokio::sync::Semaphore> {
    let mut s = sh();
    if let Some(x) = s.sems.iter().find(|x| x.0 .0 == path && x.0 .1 == name) {
        return x.1.clone();
    }
    let n = Arc::new(tokio::sync::Semaphore::new(0));
    s.sems.push(((path.to_string(), name.to_string()), n.clone()));
    n
}

/// fires whenever the channel starts a transmission (`Channel::send_message` on an idle channel), also outside
/// of any module event (unbusy notifications, delayed sends): the place where the jitter is drawn
struct XProbe {
    src: String,
    dst: String,
}
impl des::net::channel::ChannelProbe for XProbe {
    fn on_message_transmit(&mut self, _: &ChannelMetrics, msg: &Message) {
        let serial = serial_of(msg);
        let t = SimTime::now().as_nanos();
        // the length the channel computes the transmission time from
        sh().log.push(format!("{t} - xmit {} {} {serial} {}", self.src, self.dst, msg.length()));
    }
}

fn make_channel(l: &Link) -> Option<des::net::channel::ChannelRef> {
    l.chan.map(|(lat, jit, rate)| {
        let ch = Channel::new(ChannelMetrics::new(
            rate as usize,
            Duration::from_nanos(lat),
            Duration::from_nanos(jit),
            ChannelDropBehaviour::Queue(None),
        ));
        ch.attach_probe(XProbe { src: l.src.clone(), dst: l.dst.clone() });
        ch
    })
}

/// transmission time of one (72 byte) harness message on the channel of a link, as the code computes it
fn tx_of(net: &Net, l: &Link) -> u128 {
    match make_channel(l) {
        Some(ch) => ch.calculate_busy(&with_body(net, Message::default(), 0)).as_nanos(),
        None => 0,
    }
}

static SH: Mutex<Shared> =
    Mutex::new(Shared { log: Vec::new(), drops: Vec::new(), serial: 0, ids: Vec::new(), incs: Vec::new(), sems: Vec::new() });

/// at most this many shutdowns per module and run, so that every script terminates
const MAX_INC: u32 = 2;

fn inc_of(path: &str) -> u32 {
    sh().incs.iter().find(|x| x.0 == path).map(|x| x.1).unwrap_or(0)
}

fn sh() -> std::sync::MutexGuard<'static, Shared> {
    SH.lock().unwrap_or_else(|e| e.into_inner())
}

/// one canonical observation: `<time> <path of the active module> <what> <who> <peer> <args...>`
/// the script name of the active module: the root of an NDL network has the empty path
fn cur_path() -> String {
    let p = current().path();
    if p.as_str().is_empty() {
        "^".to_string()
    } else {
        p.as_str().to_string()
    }
}

fn obs(what: &str, who: &str, peer: &str, args: &[u64]) {
    let t = SimTime::now().as_nanos();
    let path = cur_path();
    let mut l = format!("{t} {} {what} {who} {peer}", path.as_str());
    for a in args {
        write!(l, " {a}").unwrap();
    }
    sh().log.push(l);
}

fn gate_o(dst: &str) -> String {
    format!("o_{}", dst.replace('.', "-"))
}
fn gate_i(src: &str) -> String {
    format!("i_{}", src.replace('.', "-"))
}

/// the steps that handlers and tasks share
fn step_sync(net: &Net, path: &str, st: &Step, ttl: u16, who: &str) {
    match st {
        Step::Draw => {
            let x = des::runtime::random::<u64>();
            obs("draw", who, "-", &[x]);
        }
        Step::Draw32 => {
            let x = des::runtime::random::<u32>();
            obs("draw32", who, "-", &[x as u64]);
        }
        Step::Send(dst, kind, delay) => {
            if ttl == 0 || !net.links.iter().any(|l| l.src == path && l.dst == *dst) {
                return;
            }
            let serial = {
                let mut s = sh();
                s.serial += 1;
                s.serial
            };
            obs("send", who, dst, &[*kind as u64, (ttl - 1) as u64, serial, *delay]);
            let msg = with_body(net, Message::default().kind(*kind).id(ttl - 1), serial);
            if *delay == 0 {
                send(msg, gate_o(dst).as_str());
            } else {
                send_in(msg, gate_o(dst).as_str(), Duration::from_nanos(*delay));
            }
        }
        Step::Schedr(kind) => {
            let x = des::runtime::random::<u64>();
            obs("draw", who, "-", &[x]);
            if ttl == 0 {
                return;
            }
            let serial = {
                let mut s = sh();
                s.serial += 1;
                s.serial
            };
            obs("sched", who, "-", &[*kind as u64, (ttl - 1) as u64, serial, x % 8]);
            schedule_in(Message::default().kind(*kind).id(ttl - 1).with_content(serial), Duration::from_nanos(x % 8));
        }
        Step::Spin(_, _) => {}
        Step::Sig(name) => {
            obs("sig", who, "-", &[]);
            sem_of(path, name).add_permits(1);
        }
        Step::Wait(_) => {}
        Step::Sched(delay, kind) => {
            if ttl == 0 {
                return;
            }
            let serial = {
                let mut s = sh();
                s.serial += 1;
                s.serial
            };
            obs("sched", who, "-", &[*kind as u64, (ttl - 1) as u64, serial, *delay]);
            schedule_in(Message::default().kind(*kind).id(ttl - 1).with_content(serial), Duration::from_nanos(*delay));
        }
        Step::Shut => {
            if inc_of(path) < MAX_INC {
                obs("shutdown", who, "-", &[0]);
                current().shutdown();
            }
        }
        Step::Restart(d) => {
            if inc_of(path) < MAX_INC {
                obs("shutdown", who, "-", &[1, *d]);
                current().shutdow_and_restart_in(Duration::from_nanos(*d));
            }
        }
        Step::Spawn(_) | Step::SpawnL(_) | Step::Sleep(_) | Step::Sel(_) => {}
    }
}

/// logs the unfinished tasks that are dropped together with their module's tokio runtime
struct DropGuard {
    path: String,
    tag: String,
    done: bool,
}
impl Drop for DropGuard {
    fn drop(&mut self) {
        if !self.done {
            sh().drops.push(format!("{} {}", self.path, self.tag));
        }
    }
}

/// one branch of a `select!`: records that it was polled
struct Probe {
    idx: u8,
    inner: Pin<Box<des::time::Sleep>>,
    polled: Arc<Mutex<Vec<u8>>>,
}
impl Future for Probe {
    type Output = ();
    fn poll(mut self: Pin<&mut Self>, cx: &mut Context<'_>) -> Poll<()> {
        let idx = self.idx;
        self.polled.lock().unwrap().push(idx);
        self.inner.as_mut().poll(cx)
    }
}

/// the `select!` future itself: logs, per poll, which branches were polled in which order
struct MarkPoll {
    tag: String,
    inner: Pin<Box<dyn Future<Output = u64> + Send>>,
    polled: Arc<Mutex<Vec<u8>>>,
}
impl Future for MarkPoll {
    type Output = u64;
    fn poll(mut self: Pin<&mut Self>, cx: &mut Context<'_>) -> Poll<u64> {
        self.polled.lock().unwrap().clear();
        let r = self.inner.as_mut().poll(cx);
        let v: Vec<u64> = self.polled.lock().unwrap().iter().map(|x| *x as u64).collect();
        obs("sp", &self.tag, "-", &v);
        r
    }
}

fn do_select(tag: &str, ds: &[u64]) -> MarkPoll {
    let polled = Arc::new(Mutex::new(Vec::<u8>::new()));
    let ds: Vec<u64> = ds.to_vec();
    let p2 = polled.clone();
    let inner: Pin<Box<dyn Future<Output = u64> + Send>> = if ds.len() == 2 {
        Box::pin(async move {
            let mk = |i: usize| Probe { idx: i as u8, inner: Box::pin(des::time::sleep(Duration::from_nanos(ds[i]))), polled: p2.clone() };
            tokio::select! {
                _ = mk(0) => 0u64,
                _ = mk(1) => 1u64,
            }
        })
    } else {
        Box::pin(async move {
            let mk = |i: usize| Probe { idx: i as u8, inner: Box::pin(des::time::sleep(Duration::from_nanos(ds[i]))), polled: p2.clone() };
            tokio::select! {
                _ = mk(0) => 0u64,
                _ = mk(1) => 1u64,
                _ = mk(2) => 2u64,
            }
        })
    };
    MarkPoll { tag: tag.to_string(), inner, polled }
}

fn spawn_task(net: Arc<Net>, path: String, tag: String, steps: Vec<Step>, ttl: u16, local: bool) {
    // a task on the module's LocalSet is logged as `L.<tag>` (such tasks are outside the Lean model: `nomodel=1`)
    let tag = if local { format!("L.{tag}") } else { tag };
    let fut = async move {
        let mut guard = DropGuard { path: path.clone(), tag: tag.clone(), done: false };
        for st in &steps {
            match st {
                Step::Sleep(d) => {
                    des::time::sleep(Duration::from_nanos(*d)).await;
                    obs("woke", &tag, "-", &[]);
                }
                Step::Sel(ds) => {
                    let w = do_select(&tag, ds).await;
                    obs("sel", &tag, "-", &[w]);
                }
                Step::Spin(n, every) => {
                    for i in 1..=*n {
                        tokio::task::yield_now().await;
                        if i % *every == 0 {
                            let x = des::runtime::random::<u64>();
                            obs("draw", &tag, "-", &[x]);
                        }
                    }
                }
                Step::Wait(name) => {
                    let sem = sem_of(&path, name);
                    if let Ok(p) = sem.acquire().await {
                        p.forget();
                    }
                    obs("got", &tag, "-", &[]);
                }
                s => step_sync(&net, &path, s, ttl, &tag),
            }
        }
        guard.done = true;
    };
    if local {
        tokio::task::spawn_local(fut);
    } else {
        tokio::spawn(fut);
    }
}

struct Node {
    net: Arc<Net>,
}

impl Node {
    fn ttl0(&self) -> u16 {
        let path = cur_path();
        self.net.mods.iter().find(|m| m.0 == path).map(|m| m.1).unwrap_or(0)
    }
    fn run_rule(&self, on: On, ttl: u16) {
        let path = cur_path();
        let Some(rule) = self.net.rules.iter().find(|r| r.0 == path && r.1 == on) else { return };
        for st in &rule.2 {
            match st {
                Step::Spawn(tag) => {
                    if let Some(t) = self.net.tasks.iter().find(|t| t.0 == *tag) {
                        spawn_task(self.net.clone(), path.clone(), tag.clone(), t.1.clone(), ttl, false);
                    }
                }
                Step::SpawnL(tag) => {
                    if let Some(t) = self.net.tasks.iter().find(|t| t.0 == *tag) {
                        spawn_task(self.net.clone(), path.clone(), tag.clone(), t.1.clone(), ttl, true);
                    }
                }
                s => step_sync(&self.net, &path, s, ttl, "H"),
            }
        }
    }
}

impl Module for Node {
    fn reset(&mut self) {
        // called by `ModuleRef::reset` right after the runtime of the next incarnation has been built
        let path = cur_path();
        {
            let mut s = sh();
            match s.incs.iter_mut().find(|x| x.0 == path) {
                Some(x) => x.1 += 1,
                None => s.incs.push((path, 1)),
            }
        }
        obs("reset", "H", "-", &[]);
    }
    fn at_sim_start(&mut self, _stage: usize) {
        obs("start", "H", "-", &[]);
        let ttl0 = self.ttl0(); self.run_rule(On::Start, ttl0);
    }
    fn handle_message(&mut self, msg: Message) {
        let kind = msg.header().kind;
        let ttl = msg.header().id;
        let sender = msg.header().sender_module_id.0;
        let serial = serial_of(&msg);
        // the sender's ModuleId is resolved to a path: ids are compared, never printed
        let src = sh().ids.iter().find(|x| x.0 == sender).map(|x| x.1.clone()).unwrap_or_else(|| "-".into());
        obs("msg", "H", &src, &[kind as u64, ttl as u64, serial]);
        self.run_rule(On::Msg(kind), ttl);
    }
    fn at_sim_end(&mut self) -> Result<(), RuntimeError> {
        obs("end", "H", "-", &[]);
        let ttl0 = self.ttl0(); self.run_rule(On::End, ttl0);
        Ok(())
    }
}

/// The NDL description of an `ndl base=<k>` case: every submodule has its own type `T_<name>` (its gates), the
/// first `k` submodules belong to the type `Base`, the entry type `Top` inherits `Base`, adds the other submodules
/// and connects the gates of all links (channel-less)
fn ndl_text(net: &Net, k: usize) -> String {
    let subs: Vec<&String> = net.mods.iter().map(|m| &m.0).filter(|p| p.as_str() != "^").collect();
    let k = k.min(subs.len());
    let mut t = String::from("entry: Top\nmodules:\n");
    for p in &subs {
        let mut gates: Vec<String> = Vec::new();
        for l in &net.links {
            if l.src == **p && l.dst != "^" {
                gates.push(gate_o(&l.dst));
            }
            if l.dst == **p && l.src != "^" {
                gates.push(gate_i(&l.src));
            }
        }
        if gates.is_empty() {
            writeln!(t, "  T_{p}: {{}}").unwrap();
        } else {
            writeln!(t, "  T_{p}:\n    gates:").unwrap();
            for g in gates {
                writeln!(t, "    - {g}").unwrap();
            }
        }
    }
    if k == 0 {
        writeln!(t, "  Base: {{}}").unwrap();
    } else {
        writeln!(t, "  Base:\n    submodules:").unwrap();
        for p in &subs[..k] {
            writeln!(t, "      {p}: T_{p}").unwrap();
        }
    }
    writeln!(t, "  Top:\n    inherit: Base").unwrap();
    if k < subs.len() {
        writeln!(t, "    submodules:").unwrap();
        for p in &subs[k..] {
            writeln!(t, "      {p}: T_{p}").unwrap();
        }
    }
    let cons: Vec<&Link> = net.links.iter().filter(|l| l.src != "^" && l.dst != "^").collect();
    if !cons.is_empty() {
        writeln!(t, "    connections:").unwrap();
        for l in cons {
            writeln!(t, "    - peers:\n      - {}/{}\n      - {}/{}", l.src, gate_o(&l.dst), l.dst, gate_i(&l.src)).unwrap();
        }
    }
    t
}

struct RunOut {
    log: Vec<String>,
    drops: Vec<String>,
    /// `SimTime::now()` as seen while the network is built (before `Builder::build`)
    built_at: u128,
    res: String,
}

static BUILT_AT: Mutex<u128> = Mutex::new(0);

/// how the `Builder` is configured: header `bopts=<letters>` = the options in call order (q quiet, i max_itr(huge),
/// t max_time(huge), s start_time(0), c cqueue_options(n, t) with `cq=<n>:<ns>`); default: just `quiet`
#[derive(Clone)]
struct BuildCfg {
    order: Vec<char>,
    cq: Option<(usize, u64)>,
}

impl BuildCfg {
    fn plain() -> Self {
        BuildCfg { order: vec!['q'], cq: None }
    }
    fn of(header: &str) -> Self {
        let cq = hval(header, "cq").and_then(|v| {
            let p: Vec<&str> = v.split(':').collect();
            match p.as_slice() {
                [n, t] => Some((n.parse::<usize>().ok()?, t.parse::<u64>().ok()?)),
                _ => None,
            }
        });
        let mut order: Vec<char> = hval(header, "bopts").map(|v| v.chars().filter(|c| "qitsc".contains(*c)).collect()).unwrap_or_default();
        if !order.contains(&'q') {
            order.push('q');
        }
        if cq.is_some() && !order.contains(&'c') {
            order.push('c');
        }
        BuildCfg { order, cq }
    }
    fn apply(&self, mut b: Builder) -> Builder {
        for c in &self.order {
            b = match c {
                'q' => b.quiet(),
                'i' => b.max_itr(usize::MAX / 2),
                't' => b.max_time(SimTime::from_duration(Duration::from_secs(1 << 40))),
                's' => b.start_time(SimTime::ZERO),
                'c' => match self.cq {
                    Some((n, t)) => b.cqueue_options(n, Duration::from_nanos(t)),
                    None => b,
                },
                _ => b,
            };
        }
        b
    }
}

fn simulate(net: &Arc<Net>, seed: u64, cfg: &BuildCfg) -> RunOut {
    {
        let mut s = sh();
        s.log.clear();
        s.drops.clear();
        s.serial = 0;
        s.ids.clear();
        s.incs.clear();
        s.sems.clear();
    }
    let net2 = net.clone();
    let cfg2 = cfg.clone();
    let r = guarded(move || {
        let net = net2;
        let mut sim = Sim::new(());
        if let Some(k) = net.ndl {
            // the network comes from an NDL description: `transform` decides the order of the submodules, which
            // is the order in which the modules are created, started and ended
            let text = ndl_text(&net, k);
            let def: des_net_utils::ndl::def::Def = match serde_yml::from_str(&text) {
                Ok(d) => d,
                Err(_) => return "err=ndl-yaml".to_string(),
            };
            let net3 = net.clone();
            let mut reg = des::net::ndl::Registry::new().with_fallback(move || Node { net: net3.clone() });
            if sim.nodes_from_ndl(&def, &mut reg).is_err() {
                return "err=ndl-build".to_string();
            }
            let paths: Vec<ObjectPath> = sim.nodes().collect();
            for p in paths {
                if let Some(m) = sim.globals().get(&p) {
                    let name = if p.as_str().is_empty() { "^".to_string() } else { p.as_str().to_string() };
                    sh().ids.push((m.id().0, name));
                }
            }
        } else {
            for (path, _) in &net.mods {
                sim.node(path.as_str(), Node { net: net.clone() });
                if let Some(m) = sim.globals().get(&ObjectPath::from(path.as_str())) {
                    let id = m.id().0;
                    sh().ids.push((id, path.clone()));
                }
            }
        }
        for l in net.links.iter().filter(|_| net.ndl.is_none()) {
            let o = sim.gate(l.src.as_str(), &gate_o(&l.dst));
            let i = sim.gate(l.dst.as_str(), &gate_i(&l.src));
            o.clone().connect(i, make_channel(l));
            // `connect` installs a duplicate of the channel on the gate: the probe goes onto that one
            if let Some(ch) = o.channel() {
                ch.attach_probe(XProbe { src: l.src.clone(), dst: l.dst.clone() });
            }
        }
        *BUILT_AT.lock().unwrap_or_else(|e| e.into_inner()) = SimTime::now().as_nanos();
        let rt = cfg2.apply(Builder::seeded(seed)).build(sim.freeze());
        match rt.run() {
            Ok((app, t, prof)) => {
                let s = format!("ok time={} events={} left={}", t.as_nanos(), prof.event_count, prof.remaining.len());
                drop(prof);
                drop(app);
                s
            }
            Err(e) => {
                let e: String = format!("{e:?}").chars().filter(|c| c.is_ascii_alphanumeric()).take(60).collect();
                format!("err=runtime:{e}")
            }
        }
    });
    let res = match r {
        Ok(s) => s,
        Err(p) => {
            let p: String = p.chars().filter(|c| c.is_ascii_alphanumeric()).take(60).collect();
            format!("err=panic:{p}")
        }
    };
    let mut s = sh();
    let built_at = *BUILT_AT.lock().unwrap_or_else(|e| e.into_inner());
    RunOut { log: std::mem::take(&mut s.log), drops: std::mem::take(&mut s.drops), built_at, res }
}

/// behaviour of `TimerQueue::next` behind an emptied front slot (a parameter of the model):
/// `skip` = the deadline of the first slot that still has an entry, `front` = only the front slot counts
fn probe_tq() -> &'static str {
    let body: Vec<String> = ["mod p ttl=0", "rule p start spawn:t", "task t sel:1,5 sleep:10"].iter().map(|s| s.to_string()).collect();
    let net = Arc::new(parse(&body));
    let out = simulate(&net, 1, &BuildCfg::plain());
    if out.res.contains("time=11 ") {
        "skip"
    } else {
        "front"
    }
}

/// header `burn=<n>`: advance the process-global `MODULE_ID` counter by `n` before the first execution of
/// the case (what `n` modules of earlier simulations in this process would have done)
fn burn_module_ids(header: &str) {
    let n: u64 = hval(header, "burn").and_then(|v| v.parse().ok()).unwrap_or(0);
    for _ in 0..n.min(1 << 20) {
        drop(des::net::module::ModuleContext::standalone(ObjectPath::from("burn")));
    }
}

fn is_result_line(l: &str) -> bool {
    l.starts_with("o ") || l.starts_with("d ") || l.starts_with("bt ") || l.starts_with("res ") || l.starts_with("tx ")
}

fn emit_run(out: &mut String, name: &str, r: &RunOut, clock: bool) {
    if clock {
        writeln!(out, "bt {name} {}", r.built_at).unwrap();
    }
    for l in &r.log {
        writeln!(out, "o {name} {l}").unwrap();
    }
    for l in &r.drops {
        writeln!(out, "d {name} {l}").unwrap();
    }
    writeln!(out, "res {name} {}", r.res).unwrap();
}

pub fn exec(input: &str) -> String {
    let child_mode = std::env::var("HX_C04_CHILD").map(|v| v == "1").unwrap_or(false);
    let cs: Vec<(String, Vec<String>)> = cases(input)
        .into_iter()
        .map(|(h, b)| {
            let h: String = h.split_whitespace().filter(|t| !t.starts_with("tq=")).collect::<Vec<_>>().join(" ");
            (h, b.into_iter().filter(|l| !is_result_line(l)).collect())
        })
        .collect();
    let mut out = String::new();
    if child_mode {
        // single-run mode: every case once, in order
        for (header, body) in &cs {
            let net = Arc::new(parse(body));
            let seed: u64 = hval(header, "seed").and_then(|v| v.parse().ok()).unwrap_or(1);
            burn_module_ids(header);
            let r = simulate(&net, seed, &BuildCfg::of(header));
            writeln!(out, "{header}").unwrap();
            let clock = hval(header, "clock").map(|v| v == "1").unwrap_or(false);
            emit_run(&mut out, "c", &r, clock);
            writeln!(out, "end").unwrap();
        }
        return out;
    }
    // the child works on its batch while this process does its own runs
    let wants_child: Vec<bool> = cs.iter().map(|(h, _)| hval(h, "child").map(|v| v == "1").unwrap_or(false)).collect();
    let mut child = None;
    if wants_child.iter().any(|b| *b) {
        let mut feed = String::new();
        for ((h, b), w) in cs.iter().zip(&wants_child) {
            if *w {
                writeln!(feed, "{h}").unwrap();
                for l in b {
                    writeln!(feed, "{l}").unwrap();
                }
                writeln!(feed, "end").unwrap();
            }
        }
        if let Ok(exe) = std::env::current_exe() {
            if let Ok(mut ch) = std::process::Command::new(exe)
                .args(["c04", "exec"])
                .env("HX_C04_CHILD", "1")
                .stdin(std::process::Stdio::piped())
                .stdout(std::process::Stdio::piped())
                .stderr(std::process::Stdio::null())
                .spawn()
            {
                if let Some(mut si) = ch.stdin.take() {
                    let _ = si.write_all(feed.as_bytes());
                }
                child = Some(ch);
            }
        }
    }
    let tq = probe_tq();
    let mut mine: Vec<(RunOut, RunOut, RunOut, Option<RunOut>)> = Vec::new();
    for (header, body) in &cs {
        let net = Arc::new(parse(body));
        let seed: u64 = hval(header, "seed").and_then(|v| v.parse().ok()).unwrap_or(1);
        let noise: u64 = hval(header, "noise").and_then(|v| v.parse().ok()).unwrap_or(7);
        burn_module_ids(header);
        let cfg = BuildCfg::of(header);
        let a1 = simulate(&net, seed, &cfg);
        let a2 = simulate(&net, seed, &cfg);
        // an unrelated simulation: other size, other seed, other end time
        let mut nr = Rng::new(noise);
        let mut ntext = String::new();
        gen_case(&mut nr, &mut ntext, true, false);
        let nbody: Vec<String> = ntext.lines().map(|l| l.to_string()).collect();
        let nnet = Arc::new(parse(&nbody));
        let _ = simulate(&nnet, noise ^ 0x5555, &BuildCfg::plain());
        let b = simulate(&net, seed, &cfg);
        // a case with a calendar-queue geometry is executed a fifth time under the default geometry and the plain
        // builder: the trace must not depend on the geometry (nor on the other, non-binding, builder options)
        let g = if cfg.cq.is_some() { Some(simulate(&net, seed, &BuildCfg::plain())) } else { None };
        mine.push((a1, a2, b, g));
    }
    // child results, in the order in which the cases were fed
    let mut child_runs: Vec<Vec<String>> = Vec::new();
    let mut child_ok = false;
    if let Some(ch) = child {
        if let Ok(o) = ch.wait_with_output() {
            child_ok = o.status.success();
            let text = String::from_utf8_lossy(&o.stdout).to_string();
            let mut cur: Option<Vec<String>> = None;
            for line in text.lines() {
                if line.starts_with("case ") {
                    cur = Some(Vec::new());
                } else if line == "end" {
                    if let Some(c) = cur.take() {
                        child_runs.push(c);
                    }
                } else if let Some(c) = cur.as_mut() {
                    c.push(line.to_string());
                }
            }
        }
    }
    let mut ci = 0usize;
    for (((header, body), w), (a1, a2, b, g)) in cs.iter().zip(&wants_child).zip(&mine) {
        writeln!(out, "{header} tq={tq}").unwrap();
        for l in body {
            writeln!(out, "{l}").unwrap();
        }
        // measured transmission times (a parameter of the model)
        let pnet = parse(body);
        for l in &pnet.links {
            if let Some((_, _, rate)) = l.chan {
                if rate != 0 {
                    writeln!(out, "tx {} {} {}", l.src, l.dst, tx_of(&pnet, l)).unwrap();
                }
            }
        }
        let clock = hval(header, "clock").map(|v| v == "1").unwrap_or(false);
        emit_run(&mut out, "a1", a1, clock);
        emit_run(&mut out, "a2", a2, clock);
        emit_run(&mut out, "b", b, clock);
        if let Some(g) = g {
            emit_run(&mut out, "g", g, clock);
        }
        if *w {
            match child_runs.get(ci) {
                Some(lines) if child_ok => {
                    for l in lines {
                        writeln!(out, "{l}").unwrap();
                    }
                }
                _ => writeln!(out, "res c err=child-failed").unwrap(),
            }
            ci += 1;
        }
        writeln!(out, "end").unwrap();
    }
    out
}

// ------------------------------------------------------------------------------------------ generator

/// calendar-queue geometries (number of buckets, bucket width in ns)
const GEOMETRIES: [(usize, u64); 8] =
    [(1, 1), (2, 3), (4, 1), (3, 5), (7, 1_000), (32, 2_500_000), (1028, 1_000_000_000), (16, 7)];
const DELAYS: [u64; 8] = [0, 1, 1, 2, 2, 3, 5, 1000];
const LATS: [u64; 8] = [0, 1, 2, 2, 3, 5, 10, 1000];
const JITS: [u64; 8] = [0, 0, 1, 2, 4, 7, 50, 1000];

fn gen_steps(r: &mut Rng, out: &mut String, in_task: bool, peers: &[String], kinds: u64, tasks: &[String], draws_only: bool, may_shut: bool, local: bool) {
    let n = r.range(1, 4);
    let mut emitting = 0;
    for _ in 0..n {
        if may_shut && r.chance(1, 4) {
            if r.chance(1, 5) {
                write!(out, " shut").unwrap();
            } else {
                write!(out, " restart:{}", r.pick(&DELAYS)).unwrap();
            }
            continue;
        }
        let x = if draws_only { r.below(3) } else { r.below(if in_task { 14 } else { 11 }) };
        match x {
            0 | 1 => write!(out, " draw").unwrap(),
            2 => write!(out, " draw32").unwrap(),
            3 | 4 | 5 => {
                if emitting < 2 && !peers.is_empty() {
                    emitting += 1;
                    write!(out, " send:{}:{}", r.pick(peers), r.range(1, kinds)).unwrap();
                    // one send in four is a `send_in`
                    if r.chance(1, 4) {
                        write!(out, ":{}", r.pick(&DELAYS[1..])).unwrap();
                    }
                } else {
                    write!(out, " draw").unwrap();
                }
            }
            6 => {
                if emitting < 2 {
                    emitting += 1;
                    write!(out, " sched:{}:{}", r.pick(&DELAYS), r.range(1, kinds)).unwrap();
                }
            }
            7 => write!(out, " sig:{}", r.pick(&["x", "y"])).unwrap(),
            8 | 9 | 10 if !in_task => {
                if emitting < 2 && !tasks.is_empty() {
                    emitting += 1;
                    // `nomodel` cases: half of the tasks go onto the module's LocalSet
                    let how = if local && r.chance(1, 2) { "spawnl" } else { "spawn" };
                    write!(out, " {how}:{}", r.pick(tasks)).unwrap();
                }
            }
            8 | 9 => {
                if r.chance(1, 4) {
                    // a few cooperative yields: the task is re-queued at the end of every executor turn
                    write!(out, " spin:{}:{}", r.range(1, 5), r.range(1, 2)).unwrap();
                } else {
                    write!(out, " sleep:{}", r.pick(&DELAYS)).unwrap();
                }
            }
            10 => write!(out, " wait:{}", r.pick(&["x", "y"])).unwrap(),
            _ => {
                // select over 2-3 sleeps; mostly equal deadlines, so that the seeded start index decides
                let k = r.range(2, 3);
                let d = *r.pick(&DELAYS);
                let ds: Vec<String> = (0..k).map(|_| if r.chance(3, 4) { d.to_string() } else { r.pick(&DELAYS).to_string() }).collect();
                write!(out, " sel:{}", ds.join(",")).unwrap();
            }
        }
    }
}

/// bitrates that make the transmission of one 72-byte harness message take about 1, 2, 3, 5, 10, 1000 ns
const RATES: [u64; 6] = [576_000_000_000, 288_000_000_000, 192_000_000_000, 115_200_000_000, 57_600_000_000, 576_000_000];

/// one generated network (the lines between `case` and `end`)
fn gen_case(r: &mut Rng, out: &mut String, noise: bool, local: bool) {
    // one case in six is built from an NDL description: a base type with 3-8 submodules, the entry type inherits
    // it and adds 1-3 submodules of its own; every module draws at start and schedules by the draw, so the order in
    // which NDL elaboration lists the submodules (= creation = start order) decides who draws what
    let ndl = !noise && r.chance(1, 6);
    let base = r.range(3, 8) as usize;
    let nmods = if ndl { base + r.range(1, 3) as usize } else if noise { r.range(3, 9) as usize } else { r.range(2, 6) as usize };
    if ndl {
        writeln!(out, "ndl base={base}").unwrap();
        writeln!(out, "mod ^ ttl={}", r.range(0, 2)).unwrap();
    }
    let mut paths: Vec<String> = Vec::new();
    for i in 0..nmods {
        // some modules are children of earlier ones (module-tree order differs from creation order)
        let p = if !ndl && i > 0 && r.chance(1, 3) {
            let parent = r.pick(&paths).clone();
            if parent.matches('.').count() < 2 {
                format!("{parent}.n{i}")
            } else {
                format!("n{i}")
            }
        } else {
            format!("n{i}")
        };
        writeln!(out, "mod {p} ttl={}", r.range(1, 3)).unwrap();
        paths.push(p);
    }
    // in 2 cases of 5 one or two modules shut down / restart themselves.  Links INTO such a module carry no
    // jitter: the jitter of a delivery that an inactive module ignores cannot be read off the trace
    let mut restartable = vec![false; nmods];
    if r.chance(2, 5) {
        for _ in 0..r.range(1, 2) {
            restartable[r.below(nmods as u64) as usize] = true;
        }
    }
    // topology: chain, star or random tree; every edge in both directions
    let shape = r.below(3);
    let mut edges: Vec<(usize, usize)> = Vec::new();
    for i in 1..nmods {
        let j = match shape {
            0 => i - 1,
            1 => 0,
            _ => r.below(i as u64) as usize,
        };
        edges.push((j, i));
    }
    if nmods > 2 && r.chance(1, 3) {
        let a = r.below(nmods as u64) as usize;
        let b = r.below(nmods as u64) as usize;
        if a != b && !edges.contains(&(a, b)) && !edges.contains(&(b, a)) {
            edges.push((a, b));
        }
    }
    let mut peers: Vec<Vec<String>> = vec![Vec::new(); nmods];
    let mut has_rate = false;
    for (a, b) in &edges {
        for (s, d) in [(*a, *b), (*b, *a)] {
            if ndl || r.chance(1, 6) {
                writeln!(out, "link {} {} direct", paths[s], paths[d]).unwrap();
            } else {
                let jit = if restartable[d] { 0 } else { *r.pick(&JITS) };
                // one channel in three has a bitrate: it is busy while it transmits and queues what comes then
                let rate = if r.chance(1, 3) { format!(" rate={}", r.pick(&RATES)) } else { String::new() };
                has_rate |= !rate.is_empty();
                writeln!(out, "link {} {} lat={} jit={jit}{rate}", paths[s], paths[d], r.pick(&LATS)).unwrap();
            }
            peers[s].push(paths[d].clone());
        }
    }
    // with bitrate channels around, one case in three sends hash-table bodies (17-64 entries of different sizes): the
    // message length, hence transmission time, busy periods and delivery times, must not depend on the table's
    // iteration order
    if has_rate && r.chance(1, 3) {
        writeln!(out, "body {} {}", if r.chance(1, 2) { "map" } else { "set" }, r.range(17, 64)).unwrap();
    }
    let kinds = r.range(2, 4);
    if ndl && r.chance(1, 2) {
        writeln!(out, "rule ^ start draw").unwrap();
    }
    let ntasks = r.range(1, 4) as usize;
    let tasks: Vec<String> = (0..ntasks).map(|i| format!("t{i}")).collect();
    // tasks that only restartable modules spawn: `s0` = a select! the seeded start index decides (it runs again
    // in every incarnation, on the runtime built by `AsyncCoreExt::reset`), `q*` may shut the module down
    let any_restart = restartable.iter().any(|b| *b);
    let mut rtasks: Vec<String> = tasks.clone();
    if any_restart {
        rtasks.push("s0".into());
        for i in 0..r.range(0, 2) {
            rtasks.push(format!("q{i}"));
        }
    }
    for (i, p) in paths.iter().enumerate() {
        let rs = restartable[i];
        let tl: &[String] = if rs { &rtasks } else { &tasks };
        if rs || ndl || (local && i == 0) || r.chance(4, 5) {
            write!(out, "rule {p} start").unwrap();
            if rs {
                write!(out, " spawn:s0").unwrap();
            }
            if local && i == 0 {
                // a LocalSet task whose select! the seeded start index decides
                write!(out, " spawnl:ls spawnl:ls").unwrap();
            }
            if ndl || r.chance(1, 8) {
                write!(out, " schedr:{}", r.range(1, kinds)).unwrap();
            }
            gen_steps(r, out, false, &peers[i], kinds, tl, false, rs, local);
            writeln!(out).unwrap();
        }
        for k in 1..=kinds {
            if r.chance(3, 4) {
                write!(out, "rule {p} msg:{k}").unwrap();
                gen_steps(r, out, false, &peers[i], kinds, tl, false, rs, local);
                writeln!(out).unwrap();
            }
        }
        // at_sim_end: draws, and in half of the rules emissions (send / schedule_in / spawned tasks that send
        // during the final tick): SimLifecycle::at_sim_end does not flush the emission buffer, so these are
        // what a simulation leaves behind in BUF_CTX when it is dropped.  The noise simulation always does.
        if noise || r.chance(1, 3) {
            write!(out, "rule {p} end").unwrap();
            let draws_only = !noise && r.chance(1, 2);
            gen_steps(r, out, false, &peers[i], kinds, tl, draws_only, false, local);
            if noise {
                write!(out, " sched:{}:1", r.pick(&DELAYS)).unwrap();
                if let Some(d) = peers[i].first() {
                    write!(out, " send:{d}:1").unwrap();
                }
                write!(out, " spawn:{}", r.pick(&tasks)).unwrap();
            }
            writeln!(out).unwrap();
        }
    }
    if local {
        let d = *r.pick(&DELAYS);
        writeln!(out, "task ls sel:{d},{d} draw sel:{d},{d},{d} draw").unwrap();
    }
    let all: Vec<String> = paths.clone();
    for t in &rtasks {
        write!(out, "task {t}").unwrap();
        if t == "s0" {
            let k = r.range(2, 3);
            let d = *r.pick(&DELAYS);
            let ds: Vec<String> = (0..k).map(|_| d.to_string()).collect();
            write!(out, " sel:{}", ds.join(",")).unwrap();
            if r.chance(1, 2) {
                write!(out, " sel:{}", ds.join(",")).unwrap();
            }
            write!(out, " draw").unwrap();
            writeln!(out).unwrap();
            continue;
        }
        // a task runs on whichever module spawns it: it may name any peer (unknown links are skipped)
        let q = t.starts_with('q');
        gen_steps(r, out, true, &all, kinds, &tasks, false, q, local);
        if r.chance(1, 2) {
            gen_steps(r, out, true, &all, kinds, &tasks, false, q, local);
        }
        writeln!(out).unwrap();
    }
}

pub fn gen(seed: u64, count: usize, _thorough: bool) -> String {
    let mut r = Rng::new(seed);
    let mut out = String::new();
    for k in 0..count {
        let s = r.next() >> r.below(60);
        // one case in 16 also records the clock as seen while the network is built
        let clock = if r.chance(1, 16) { " clock=1" } else { "" };
        // one case in three configures the builder: a calendar-queue geometry and non-binding limits / start time,
        // in a random call order (the trace must not depend on any of it: a fifth execution `g` uses the plain builder)
        let mut cfg = String::new();
        if r.chance(1, 3) {
            let (n, t) = *r.pick(&GEOMETRIES);
            let mut opts: Vec<char> = vec!['q', 'c'];
            for o in ['i', 't', 's'] {
                if r.chance(1, 2) {
                    opts.push(o);
                }
            }
            for i in (1..opts.len()).rev() {
                let j = r.below(i as u64 + 1) as usize;
                opts.swap(i, j);
            }
            cfg = format!(" cq={n}:{t} bopts={}", opts.iter().collect::<String>());
        }
        // one case in eight also uses spawn_local tasks: executions-only comparison, no model replay
        let local = r.chance(1, 8);
        let nm = if local { " nomodel=1" } else { "" };
        writeln!(out, "case {k} seed={s} noise={} child=1{clock}{cfg}{nm}", r.range(1, 1 << 20)).unwrap();
        gen_case(&mut r, &mut out, false, local);
        writeln!(out, "end").unwrap();
    }
    out
}

//! C09 (and, through `c13.rs`, C13): module shutdown / restart and panic containment in the net
//! kernel.
//!
//! Every case is one real `des` network simulation (`Sim` builder, `async` feature): 2-5 scripted
//! modules, connected by gate chains (directly or THROUGH two transit gates owned by a third
//! module, with or without a channel on one of the connections).  Module behaviour is a script
//! that the Lean model `Net` (lean/Desverif/Model/Net.lean) interprets as well; every callback,
//! task resumption, `reset` call, send and log action appends one observation line to a global
//! log, and the result of `Runtime::run` (Ok / the list of failed module paths) is appended.
//!
//! Script lines (objects are named by tags, any line may be deleted):
//!   mod <M> stages=<n> catch=<0|1>          a module (creation order = line order); catch=1: the
//!                                           stereotype declares panics as caught
//!   link <A> <B> via=<T|-> chan=<-|pos:lat:tx:q|d>
//!                                           gate chain A.o_B -> [T.ti_A_B -> T.to_A_B ->] B.i_A;
//!                                           channel on connection number <pos> (0-based) with
//!                                           latency <lat> ns, transmission time <tx> ns
//!                                           (0 | 4 | 1000), q = Queue(None), d = Drop
//!   act <M> <hook> <key> <action...>        appends one action to the list of (M, hook, key)
//!        hook = msg (key = message id) | start (key = stage) | end (key = 0) | task (key = task tag)
//!        action = send <dst> <delay> <id>   send / send_in over the gate chain to <dst>
//!               | sched <delay> <id>        schedule_in on the own module
//!               | spawn <tag> <sleep> [join|must] [local]
//!                                           tokio::spawn (`local`: tokio::task::spawn_local; inside the body of
//!                                           a tokio::spawn task `local` is ignored): sleep <sleep> ns (>= 1), log, then the
//!                                           actions of (M, task, tag); `join`: handle given to try_join, `must`: to current().join
//!               | shutdown | restart_in <d> | restart_at <t>
//!               | panic | log <n>
//!               | rpanic                    panics iff `Module::reset` of this module was called before (a module that
//!                                           cannot come up again); logged like `panic`
//!   init <M> <id> <time>                    message injected before the run (handle_message_on)
//! Transcript: the same lines (link lines annotated ` -> tx=<measured>`), then
//!   obs <M> <kind> <a> <b> <ns>             kind = msg id serial | start stage - | end - - | reset - - |
//!                                           task tag - | snd id serial | sch id serial | log n - |
//!                                           dwn <restart time|-> - (a shutdown request) |
//!                                           pan <0 callback|1 task> <1 if try_join'ed> (just before a panic) |
//!                                           harness-only lines (not produced by the model, judged by the
//!                                           driver's acceptance checker): spw tag sleep (a task is spawned; spm if
//!                                           its handle goes to `current().join`, the must_join list; the n-th such
//!                                           line of a module announces its task number n), trs n (task number n
//!                                           resumes; precedes its `task` line),
//!                                           pes - - / pee - - (event_start / event_end of the module's
//!                                           pass-through processing element)
//!   res ok | res err <panic:M|join:M|other>... | res crash <text>     result of run()
//!   glob ctx=<free|held>                    try_current() after the run
//! (`c13 exec` runs the simulation a second time in the same process: `obs2` / `res2` / `glob2`.)
//! Every message carries a serial number (header.kind) = sender index * 4096 + the sender's send
//! counter (sender 15 = injected before the run).
use crate::rng::Rng;
use crate::util::{cases, guarded};
use des::net::{JoinError, PanicError};
use des::prelude::*;
use std::collections::HashMap;
use std::fmt::Write;
use std::sync::atomic::{AtomicU16, Ordering};
use std::sync::{Arc, Mutex};

// ------------------------------------------------------------------------------------------ script

#[derive(Clone, Debug)]
pub(crate) enum Action {
    Send(String, u64, u16),
    Sched(u64, u16),
    /// tag, sleep, try_join, spawn_local, join (must_join)
    Spawn(u64, u64, bool, bool, bool),
    Shutdown,
    RestartIn(u64),
    RestartAt(u64),
    Panic,
    Rpanic,
    Log(u64),
}

#[derive(Clone, Debug, Default)]
pub(crate) struct ModSpec {
    tag: String,
    idx: usize,
    stages: usize,
    catch: bool,
    acts: HashMap<(String, u64), Vec<Action>>,
    links: Vec<String>,
    /// number of `Module::reset` calls of the running simulation
    resets: Arc<std::sync::atomic::AtomicUsize>,
    /// number of tasks spawned by the module in the running simulation
    spawns: Arc<std::sync::atomic::AtomicUsize>,
}

#[derive(Clone, Debug)]
pub(crate) struct Chan {
    pos: usize,
    lat: u64,
    tx: u64,
    queue: bool,
}

#[derive(Clone, Debug)]
pub(crate) struct Link {
    a: String,
    b: String,
    via: Option<String>,
    chan: Option<Chan>,
}

#[derive(Default)]
pub(crate) struct Script {
    mods: Vec<ModSpec>,
    links: Vec<Link>,
    inits: Vec<(String, u16, u64)>,
}

fn parse_action(t: &[&str], mods: &[String]) -> Option<Action> {
    match t {
        ["send", dst, delay, id] => {
            if !mods.iter().any(|m| m == dst) {
                return None;
            }
            Some(Action::Send(dst.to_string(), delay.parse().ok()?, id.parse().ok()?))
        }
        ["sched", delay, id] => Some(Action::Sched(delay.parse().ok()?, id.parse().ok()?)),
        ["spawn", tag, sleep, flags @ ..] => {
            let (join, must, local) = match flags {
                [] => (false, false, false),
                ["join"] => (true, false, false),
                ["must"] => (false, true, false),
                ["local"] => (false, false, true),
                ["join", "local"] => (true, false, true),
                ["must", "local"] => (false, true, true),
                _ => return None,
            };
            Some(Action::Spawn(tag.parse().ok()?, sleep.parse::<u64>().ok()?.max(1), join, local, must))
        }
        ["shutdown"] => Some(Action::Shutdown),
        ["restart_in", d] => Some(Action::RestartIn(d.parse().ok()?)),
        ["restart_at", t] => Some(Action::RestartAt(t.parse().ok()?)),
        ["panic"] => Some(Action::Panic),
        ["rpanic"] => Some(Action::Rpanic),
        ["log", n] => Some(Action::Log(n.parse().ok()?)),
        _ => None,
    }
}

fn bitrate_of(tx: u64) -> Option<usize> {
    match tx {
        0 => Some(0),
        4 => Some(128_000_000_000),
        1000 => Some(512_000_000),
        _ => None,
    }
}

pub(crate) fn parse(body: &[String]) -> Script {
    let mut sc = Script::default();
    for line in body {
        let t: Vec<&str> = line.split_whitespace().collect();
        if let ["mod", m, rest @ ..] = t.as_slice() {
            if sc.mods.iter().any(|x| x.tag == *m) {
                continue;
            }
            let mut ms = ModSpec { tag: m.to_string(), idx: sc.mods.len(), stages: 1, ..Default::default() };
            for kv in rest {
                if let Some(v) = kv.strip_prefix("stages=") {
                    ms.stages = v.parse().unwrap_or(1);
                }
                if let Some(v) = kv.strip_prefix("catch=") {
                    ms.catch = v == "1";
                }
            }
            sc.mods.push(ms);
        }
    }
    let modtags: Vec<String> = sc.mods.iter().map(|m| m.tag.clone()).collect();
    let known = |m: &str| modtags.iter().any(|x| x == m);
    for line in body {
        let t: Vec<&str> = line.split_whitespace().collect();
        match t.as_slice() {
            ["link", a, b, via, chan] => {
                if !known(a) || !known(b) || a == b || sc.links.iter().any(|l| l.a == *a && l.b == *b) {
                    continue;
                }
                let Some(via) = via.strip_prefix("via=") else { continue };
                let Some(chan) = chan.strip_prefix("chan=") else { continue };
                let via = if via == "-" {
                    None
                } else if known(via) && via != *a && via != *b {
                    Some(via.to_string())
                } else {
                    continue;
                };
                let nconn = if via.is_some() { 3 } else { 1 };
                let chan = if chan == "-" {
                    None
                } else {
                    let p: Vec<&str> = chan.split(':').collect();
                    let [pos, lat, tx, pol] = p.as_slice() else { continue };
                    let (Ok(pos), Ok(lat), Ok(tx)) = (pos.parse::<usize>(), lat.parse::<u64>(), tx.parse::<u64>()) else { continue };
                    if pos >= nconn || bitrate_of(tx).is_none() || (*pol != "q" && *pol != "d") {
                        continue;
                    }
                    Some(Chan { pos, lat, tx, queue: *pol == "q" })
                };
                sc.links.push(Link { a: a.to_string(), b: b.to_string(), via, chan });
            }
            ["act", m, hook, key, rest @ ..] => {
                let Ok(key) = key.parse::<u64>() else { continue };
                if !["msg", "start", "end", "task"].contains(hook) {
                    continue;
                }
                let Some(a) = parse_action(rest, &modtags) else { continue };
                if let Some(ms) = sc.mods.iter_mut().find(|x| x.tag == *m) {
                    ms.acts.entry((hook.to_string(), key)).or_default().push(a);
                }
            }
            ["init", m, id, time] => {
                let (Ok(id), Ok(time)) = (id.parse::<u16>(), time.parse::<u64>()) else { continue };
                if known(m) {
                    sc.inits.push((m.to_string(), id, time));
                }
            }
            _ => {}
        }
    }
    // a send to a module without a link does not exist: both sides skip it
    let links: Vec<(String, String)> = sc.links.iter().map(|l| (l.a.clone(), l.b.clone())).collect();
    for m in sc.mods.iter_mut() {
        m.links = links.iter().filter(|l| l.0 == m.tag).map(|l| l.1.clone()).collect();
    }
    sc
}

// ------------------------------------------------------------------------------------------ real code

static LOG: Mutex<Vec<String>> = Mutex::new(Vec::new());
/// per-sender message counters (index 15 = messages injected before the run)
static SERIAL: [AtomicU16; 16] = [const { AtomicU16::new(0) }; 16];

fn next_serial(sender: usize) -> u16 {
    let n = SERIAL[sender % 16].fetch_add(1, Ordering::SeqCst);
    (sender as u16 % 16) * 4096 + n % 4096
}

fn log(module: &str, kind: &str, a: Option<u64>, b: Option<u64>) {
    let t = SimTime::now().as_nanos();
    let f = |v: Option<u64>| v.map(|v| v.to_string()).unwrap_or_else(|| "-".into());
    LOG.lock().unwrap().push(format!("obs {module} {kind} {} {} {t}", f(a), f(b)));
}

/// `in_set`: the code runs inside the module's `LocalSet` (a callback, or a `spawn_local` task), so
/// `spawn_local` may be used; the body of a `tokio::spawn` task uses `tokio::spawn` throughout
fn run_actions(spec: &Arc<ModSpec>, hook: &str, key: u64, in_task: bool, joined: bool, in_set: bool) {
    let Some(list) = spec.acts.get(&(hook.to_string(), key)) else { return };
    for a in list {
        match a {
            Action::Send(dst, delay, id) => {
                if !spec.links.iter().any(|l| l == dst) {
                    continue;
                }
                let serial = next_serial(spec.idx);
                log(&spec.tag, "snd", Some(*id as u64), Some(serial as u64));
                let msg = Message::default().id(*id).kind(serial);
                let gate = format!("o_{dst}");
                if *delay == 0 {
                    send(msg, gate.as_str());
                } else {
                    send_in(msg, gate.as_str(), Duration::from_nanos(*delay));
                }
            }
            Action::Sched(delay, id) => {
                let serial = next_serial(spec.idx);
                log(&spec.tag, "sch", Some(*id as u64), Some(serial as u64));
                schedule_in(Message::default().id(*id).kind(serial), Duration::from_nanos(*delay));
            }
            Action::Spawn(tag, sleep, join, local, must) => {
                let spec2 = spec.clone();
                let (tag, sleep, join, must) = (*tag, *sleep, *join, *must);
                let local = *local && in_set;
                // the n-th `spw` / `spm` line of a module announces its task number n
                let number = spec.spawns.fetch_add(1, Ordering::SeqCst) as u64;
                log(&spec.tag, if must { "spm" } else { "spw" }, Some(tag), Some(sleep));
                let body = async move {
                    des::time::sleep(Duration::from_nanos(sleep)).await;
                    log(&spec2.tag, "trs", Some(number), None);
                    log(&spec2.tag, "task", Some(tag), None);
                    run_actions(&spec2, "task", tag, true, join, local);
                };
                let h = if local { tokio::task::spawn_local(body) } else { tokio::spawn(body) };
                if must {
                    current().join(h);
                } else if join {
                    current().try_join(h);
                }
            }
            Action::Shutdown => {
                log(&spec.tag, "dwn", None, None);
                current().shutdown()
            }
            Action::RestartIn(d) => {
                log(&spec.tag, "dwn", Some(SimTime::now().as_nanos() as u64 + *d), None);
                current().shutdow_and_restart_in(Duration::from_nanos(*d))
            }
            Action::RestartAt(t) => {
                log(&spec.tag, "dwn", Some(*t), None);
                current().shutdow_and_restart_at(SimTime::from_duration(Duration::from_nanos(*t)))
            }
            Action::Panic => {
                log(&spec.tag, "pan", Some(in_task as u64), Some(joined as u64));
                panic!("scripted panic")
            }
            Action::Rpanic => {
                if spec.resets.load(Ordering::SeqCst) > 0 {
                    log(&spec.tag, "pan", Some(in_task as u64), Some(joined as u64));
                    panic!("scripted panic of a restarted module")
                }
            }
            Action::Log(n) => log(&spec.tag, "log", Some(*n), None),
        }
    }
}

struct Scripted {
    spec: Arc<ModSpec>,
}

/// a pass-through processing element: makes the event brackets of a module observable
struct Bracket {
    module: String,
}

impl des::net::processing::ProcessingElement for Bracket {
    fn event_start(&mut self) {
        log(&self.module, "pes", None, None);
    }
    fn event_end(&mut self) {
        log(&self.module, "pee", None, None);
    }
}

impl Module for Scripted {
    fn stack(&self, stack: des::net::processing::ProcessingStack) -> des::net::processing::ProcessingStack {
        let mut stack = stack;
        stack.append(Bracket { module: self.spec.tag.clone() });
        stack
    }
    fn reset(&mut self) {
        self.spec.resets.fetch_add(1, Ordering::SeqCst);
        log(&self.spec.tag, "reset", None, None);
    }
    fn num_sim_start_stages(&self) -> usize {
        self.spec.stages
    }
    fn at_sim_start(&mut self, stage: usize) {
        log(&self.spec.tag, "start", Some(stage as u64), None);
        run_actions(&self.spec, "start", stage as u64, false, false, true);
    }
    fn handle_message(&mut self, msg: Message) {
        let h = msg.header();
        log(&self.spec.tag, "msg", Some(h.id as u64), Some(h.kind as u64));
        let id = h.id as u64;
        run_actions(&self.spec, "msg", id, false, false, true);
    }
    fn at_sim_end(&mut self) -> Result<(), RuntimeError> {
        log(&self.spec.tag, "end", None, None);
        run_actions(&self.spec, "end", 0, false, false, true);
        Ok(())
    }
}

fn simulate(sc: &Script) -> String {
    LOG.lock().unwrap().clear();
    for c in SERIAL.iter() {
        c.store(0, Ordering::SeqCst);
    }
    let mut sim = Sim::new(());
    for m in &sc.mods {
        m.resets.store(0, Ordering::SeqCst);
        m.spawns.store(0, Ordering::SeqCst);
        sim.node(m.tag.as_str(), Scripted { spec: Arc::new(m.clone()) });
    }
    for l in &sc.links {
        let mut gates = vec![sim.gate(l.a.as_str(), &format!("o_{}", l.b))];
        if let Some(t) = &l.via {
            gates.push(sim.gate(t.as_str(), &format!("ti_{}_{}", l.a, l.b)));
            gates.push(sim.gate(t.as_str(), &format!("to_{}_{}", l.a, l.b)));
        }
        gates.push(sim.gate(l.b.as_str(), &format!("i_{}", l.a)));
        for k in 0..gates.len() - 1 {
            let ch = match &l.chan {
                Some(c) if c.pos == k => {
                    let ch = Channel::new(ChannelMetrics::new(
                        bitrate_of(c.tx).unwrap_or(0),
                        Duration::from_nanos(c.lat),
                        Duration::ZERO,
                        if c.queue { ChannelDropBehaviour::Queue(None) } else { ChannelDropBehaviour::Drop },
                    ));
                    let tx = ch.calculate_busy(&Message::default()).as_nanos() as u64;
                    if tx != c.tx {
                        return format!("crash tx-mismatch:{}:{}", c.tx, tx);
                    }
                    Some(ch)
                }
                _ => None,
            };
            gates[k].clone().connect(gates[k + 1].clone(), ch);
        }
    }
    let mut rt = Builder::seeded(1).quiet().max_itr(20_000).build(sim.freeze());
    for m in &sc.mods {
        if m.catch {
            if let Some(module) = rt.app.globals().get(&ObjectPath::from(m.tag.as_str())) {
                module.set_stereotyp(des::net::module::Stereotyp { on_panic_catch: true, ..des::net::module::Stereotyp::HOST });
            }
        }
    }
    for (m, id, time) in &sc.inits {
        let Some(module) = rt.app.globals().get(&ObjectPath::from(m.as_str())) else { continue };
        let serial = next_serial(15);
        rt.handle_message_on(module, Message::default().id(*id).kind(serial), SimTime::from_duration(Duration::from_nanos(*time)));
    }
    match rt.run() {
        Ok(_) => "ok".to_string(),
        Err(e) => {
            let mut s = String::from("err");
            for x in e.iter() {
                let any = x.as_any();
                if let Some(p) = any.downcast_ref::<PanicError>() {
                    write!(s, " panic:{}", p.path.as_str()).unwrap();
                } else if let Some(j) = any.downcast_ref::<JoinError>() {
                    let k = format!("{:?}", j.kind);
                    let k = if k.starts_with("Paniced") { "join" } else if k.starts_with("NotFinished") { "unfinished" } else { "tokio" };
                    write!(s, " {k}:{}", j.path.as_str()).unwrap();
                } else {
                    write!(s, " other").unwrap();
                }
            }
            s
        }
    }
}

/// one run of the script: the log lines, the result line, the state of the globals afterwards
pub(crate) fn run_once(sc: &Script, suffix: &str, out: &mut String) {
    let res = guarded(|| simulate(sc));
    for l in LOG.lock().unwrap().iter() {
        match l.strip_prefix("obs ") {
            Some(rest) => writeln!(out, "obs{suffix} {rest}").unwrap(),
            None => writeln!(out, "{l}").unwrap(),
        }
    }
    match res {
        Ok(r) => writeln!(out, "res{suffix} {r}").unwrap(),
        Err(p) => {
            let p: String = p.chars().filter(|c| !c.is_whitespace()).take(60).collect();
            writeln!(out, "res{suffix} crash {p}").unwrap()
        }
    }
    let ctx = if try_current().is_none() { "free" } else { "held" };
    writeln!(out, "glob{suffix} ctx={ctx}").unwrap();
}

pub(crate) fn exec_with(input: &str, twice: bool) -> String {
    let mut out = String::new();
    for (header, body) in cases(input) {
        writeln!(out, "{header}").unwrap();
        let body: Vec<String> = body
            .into_iter()
            .filter(|l| !l.starts_with("obs") && !l.starts_with("res") && !l.starts_with("glob"))
            .collect();
        for l in &body {
            writeln!(out, "{l}").unwrap();
        }
        let sc = parse(&body);
        run_once(&sc, "", &mut out);
        if twice {
            run_once(&sc, "2", &mut out);
        }
        writeln!(out, "end").unwrap();
    }
    out
}

pub fn exec(input: &str) -> String {
    exec_with(input, false)
}

// ------------------------------------------------------------------------------------------ generator

const DELAYS: [u64; 8] = [0, 0, 1, 2, 3, 5, 10, 1000];
const SLEEPS: [u64; 6] = [1, 2, 3, 5, 10, 1000];
const TIMES: [u64; 14] = [0, 0, 1, 2, 3, 5, 7, 10, 12, 15, 1000, 1001, 1005, 2000];

/// `panics`: 0 = none (C09), otherwise the per-list chance (in 1/20) of a panic action (C13)
pub(crate) fn gen_with(seed: u64, count: usize, thorough: bool, panics: u64) -> String {
    let mut r = Rng::new(seed);
    let mut out = String::new();
    for k in 0..count {
        writeln!(out, "case {k}").unwrap();
        let nmods = r.range(2, if thorough { 5 } else { 4 }) as usize;
        let mods: Vec<String> = (0..nmods).map(|i| format!("M{i}")).collect();
        for m in &mods {
            let stages = *r.pick(&[1u64, 1, 1, 2, 2, 3, 0]);
            let catch = if panics > 0 && r.chance(1, 2) { 1 } else { 0 };
            writeln!(out, "mod {m} stages={stages} catch={catch}").unwrap();
        }
        let mut links: Vec<(usize, usize)> = Vec::new();
        for a in 0..nmods {
            for b in 0..nmods {
                if a == b || !r.chance(3, 4) {
                    continue;
                }
                let via = if nmods >= 3 && r.chance(2, 5) {
                    let others: Vec<usize> = (0..nmods).filter(|t| *t != a && *t != b).collect();
                    format!("M{}", r.pick(&others))
                } else {
                    "-".to_string()
                };
                let nconn = if via == "-" { 1 } else { 3 };
                let chan = if r.chance(2, 5) {
                    format!("{}:{}:{}:{}", r.below(nconn), r.pick(&[0u64, 1, 3, 10]), r.pick(&[0u64, 4, 4, 1000]), r.pick(&["q", "d"]))
                } else {
                    "-".to_string()
                };
                writeln!(out, "link M{a} M{b} via={via} chan={chan}").unwrap();
                links.push((a, b));
            }
        }
        // ids and task tags share one ranked number space 1..=n; objects of rank >= safe never shut
        // down, so the start stages (replayed by every restart) cannot cause another restart
        let n = r.range(6, 12);
        let safe = n - r.range(1, 3);
        // per module: its tasks are all tokio::spawn, all spawn_local, or a mix
        let locp: Vec<u64> = (0..nmods).map(|_| *r.pick(&[0u64, 5, 5, 10])).collect();
        let emit = |r: &mut Rng, m: usize, lo: u64, may_down: bool, out: &mut String, hook: &str, key: u64| {
            // lo = smallest id / tag this list may produce
            if lo > n {
                return;
            }
            let len = r.range(1, 4);
            let panic_at = if panics > 0 && r.below(20) < panics { Some(r.below(len + 1)) } else { None };
            for i in 0..=len {
                if panic_at == Some(i) {
                    // `rpanic`: only a module that has been reset before panics here (start stages of
                    // a restart, handlers / tasks of a later incarnation)
                    let word = if r.chance(1, if hook == "start" { 2 } else { 4 }) { "rpanic" } else { "panic" };
                    writeln!(out, "act M{m} {hook} {key} {word}").unwrap();
                }
                if i == len {
                    break;
                }
                let dsts: Vec<usize> = links.iter().filter(|l| l.0 == m).map(|l| l.1).collect();
                let x = r.below(20);
                if x < 6 && !dsts.is_empty() {
                    writeln!(out, "act M{m} {hook} {key} send M{} {} {}", r.pick(&dsts), r.pick(&DELAYS), r.range(lo, n)).unwrap();
                } else if x < 9 {
                    writeln!(out, "act M{m} {hook} {key} sched {} {}", r.pick(&DELAYS), r.range(lo, n)).unwrap();
                } else if x < 13 && hook != "end" {
                    // handle dropped | try_join | join (= AsyncFn::require_join: must finish, reported else)
                    let join = match r.below(4) {
                        0 => "",
                        3 => " must",
                        _ => " join",
                    };
                    let local = if r.below(10) < locp[m] { " local" } else { "" };
                    writeln!(out, "act M{m} {hook} {key} spawn {} {}{join}{local}", r.range(lo, n), r.pick(&SLEEPS)).unwrap();
                } else if x < 17 && may_down {
                    match r.below(6) {
                        0 | 1 => writeln!(out, "act M{m} {hook} {key} shutdown").unwrap(),
                        2 | 3 | 4 => writeln!(out, "act M{m} {hook} {key} restart_in {}", r.pick(&[0u64, 1, 2, 3, 5, 10, 1000])).unwrap(),
                        _ => writeln!(out, "act M{m} {hook} {key} restart_at {}", r.pick(&[5u64, 12, 1000, 1005, 3000, 5000])).unwrap(),
                    }
                } else {
                    writeln!(out, "act M{m} {hook} {key} log {}", r.below(100)).unwrap();
                }
            }
        };
        for m in 0..nmods {
            for id in 1..=n {
                if r.chance(3, 5) {
                    emit(&mut r, m, id + 1, id < safe, &mut out, "msg", id);
                }
            }
            for tag in 2..=n {
                if r.chance(1, 2) {
                    emit(&mut r, m, tag + 1, tag < safe, &mut out, "task", tag);
                }
            }
            for stage in 0..3 {
                if r.chance(1, 2) {
                    emit(&mut r, m, safe, false, &mut out, "start", stage);
                    if r.chance(1, 8) {
                        // a plain shutdown in a start stage cannot loop
                        writeln!(out, "act M{m} start {stage} shutdown").unwrap();
                    }
                }
            }
            if r.chance(1, 3) {
                emit(&mut r, m, safe, false, &mut out, "end", 0);
            }
        }
        let ninit = r.range(2, if thorough { 12 } else { 8 });
        for _ in 0..ninit {
            let m = r.below(nmods as u64);
            let id = if r.chance(2, 3) { r.range(1, safe) } else { r.range(1, n) };
            writeln!(out, "init M{m} {id} {}", r.pick(&TIMES)).unwrap();
        }
        writeln!(out, "end").unwrap();
    }
    out
}

pub fn gen(seed: u64, count: usize, thorough: bool) -> String {
    gen_with(seed, count, thorough, 0)
}

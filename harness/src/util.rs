//! helpers shared by the per-property harness modules
use std::panic::{catch_unwind, AssertUnwindSafe};

/// run `f`, mapping a panic to `Err(message)`
#[allow(dead_code)]
pub fn guarded<T>(f: impl FnOnce() -> T) -> Result<T, String> {
    match catch_unwind(AssertUnwindSafe(f)) {
        Ok(v) => Ok(v),
        Err(e) => {
            let msg = if let Some(s) = e.downcast_ref::<&str>() {
                s.to_string()
            } else if let Some(s) = e.downcast_ref::<String>() {
                s.clone()
            } else {
                "<non-string panic>".to_string()
            };
            Err(msg)
        }
    }
}

/// split the stdin text into cases: (header line, body lines)
#[allow(dead_code)]
pub fn cases(input: &str) -> Vec<(String, Vec<String>)> {
    let mut out = Vec::new();
    let mut cur: Option<(String, Vec<String>)> = None;
    for line in input.lines() {
        let line = line.trim();
        if line.is_empty() || line.starts_with('#') {
            continue;
        }
        if line.starts_with("case ") {
            if let Some(c) = cur.take() {
                out.push(c);
            }
            cur = Some((line.to_string(), Vec::new()));
        } else if line == "end" {
            if let Some(c) = cur.take() {
                out.push(c);
            }
        } else if let Some(c) = cur.as_mut() {
            // strip a previous annotation so annotated transcripts can be re-executed
            let l = match line.find(" -> ") {
                Some(i) => &line[..i],
                None => line,
            };
            c.1.push(l.to_string());
        }
    }
    if let Some(c) = cur.take() {
        out.push(c);
    }
    out
}

/// `key=value` lookup in a header line
#[allow(dead_code)]
pub fn hval(header: &str, key: &str) -> Option<String> {
    for tok in header.split_whitespace() {
        if let Some(rest) = tok.strip_prefix(key) {
            if let Some(v) = rest.strip_prefix('=') {
                return Some(v.to_string());
            }
        }
    }
    None
}

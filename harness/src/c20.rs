//! C20: dropping a simulation releases every module, task, message body and processing element
//! exactly once, and a new simulation can be run in the same process afterwards.
//!
//! Every case is one real `des` network simulation built through the public API, run up to a
//! stopping point, and then dropped together with everything `finish()` returned.  Every
//! user-visible object carries a destructor counter (`Tracked`): the module struct, every
//! processing element, the value captured by every spawned task, the body of every message and a
//! `ChannelProbe` attached to one channel of every link.
//!
//! Script lines (objects are named by tags, so any line may be deleted):
//!   case <id> stop=never0|never|itr:<n>|time:<ns>|full drop=ap|pa end=finish|nofinish|apperr|unwind
//!        end=finish  : start, dispatch_all (limits from the Builder), finish(), drop what it returned
//!        end=nofinish: manual stepping: start, dispatch_n_events / dispatch_events_until / dispatch_all, then the
//!                      Runtime is dropped WITHOUT finish()
//!        end=apperr  : as finish, but the inner application's at_sim_end returns Err (finish() returns Err)
//!        end=unwind  : a panic unwinds through the started Runtime while it is in scope (caught by the harness)
//!   mod <M> parent=<P|-> pe=<n> stages=<s> [kind=new|failable|io wait=recv|hold|done]
//!                                                   module; path = <P's path>.<M>.  With kind= the module is built with
//!                                                   AsyncFn::new / failable / io: its generator captures a counted value
//!                                                   (obj cap <M>#k) and its task reads and drops messages (recv), keeps the
//!                                                   first message and sleeps 1000 s so that later ones stay unread in its
//!                                                   channel (hold), or ends at once (done); `do` lines do not apply to it
//!   chain <C> ch=none|q|qs|d ring=0|1 mods=<M,M,…>  gate `C` on every listed module, consecutive gates
//!                                                   connected (ring=1: last to first as well); q = Queue(None),
//!                                                   qs = Queue(250 B), d = Drop; 8 kbit/s, 1 ms latency, 100 B bodies
//!   do <M> start <stage> <action…>                  action executed in at_sim_start(stage) of <M>
//!   do <M> msg <id> <action…>                       … in handle_message of a message with header id <id>
//!   do <M> end 0 <action…>                          … in at_sim_end
//!     actions:  send <C> <id> <delay> <B|->         send / send_in over own gate <C>, body tag <B> (- = no body)
//!               sched <id> <delay> <B|->            schedule_in
//!               task <T> sleep <ns> <rt|loc> <none|try|must>      task capturing Tracked(T), sleeps, ends
//!               task <T> recv <0|1> <rt|loc> <none|try|must>      task blocked on an mpsc receive that never comes
//!                                                   (0: the sender lives in the module struct, 1: in the task itself)
//!               task <T> ssend <ns> <C> <id> <B|->  task sleeps, then sends over <C>
//!               keep                                (msg hook) store the received message in the module struct
//!               parent drop|keep                    current().parent(): the handle is dropped at once / kept until the callback ends
//!               child <M> drop|keep                 current().child(<name of M>), likewise
//!               shutdown | restart <ns>             current().shutdown() / shutdow_and_restart_in (once per module)
//!               panic                               the handler panics (module error)
//!               pepanic                             (msg hook) a processing element of <M> panics in `incoming` on that
//!                                                   message id: outside the module harness, the panic unwinds out of run()
//!   A body tag `z` is a zero-sized flow-control credit with a counting destructor (all credits of a case are counted
//!   together: `obj zbody credits#0 c=<created> s= d= l=`).
//!   init <M> <id> <time|max> <B|->                  message injected with handle_message_on before the run
//!   A time / delay `max` is SimTime::MAX ("never fires" watchdog; `sched <id> max <B>` = schedule_at(.., SimTime::MAX)).
//!   Such an event must never become the NEXT event of a started run (peeking at it scans the calendar for ever), so a
//!   script that contains one is run with a fence event at 3600 s, a time limit (<= 1 s) instead of an event-count limit,
//!   and never through finish()'s drain (end=finish is executed as end=nofinish).
//! Transcript: the same lines, then
//!   stop now=<ns> fes=<n> down=<M,…|-> kept=<n> queued=<n> held=<n>   state after the event loop, before finish()
//!   asked <M,…|->                                               modules whose current().parent() succeeded at least once
//!   q <C> <dir> <n,n,…>                                         queued packets per link of chain <C> (fwd / bwd)
//!   fin res=ok|err|panic rem=<n> hm=<n> ex=<n> ub=<n> rs=<n> aw=<n>   finish(): remaining events by kind
//!   obj <kind> <tag#k> c=<created> s=<dropped at stop> d=<dropped right after the drop> l=<dropped after sim2 and sim3>
//!   sim2 <trace> / sim3 <trace>                                 second and third simulation run in the same process afterwards:
//!                                                               clock readings while the network is built (n, cx, kx, cy, ky, m), then the run
use crate::rng::Rng;
use crate::util::{cases, guarded, hval};
use des::net::processing::{ProcessingElement, ProcessingStack};
use des::prelude::*;
use std::collections::HashMap;
use std::fmt::Write;
use std::sync::{Arc, Mutex};
use tokio::sync::mpsc;

// ------------------------------------------------------------------------------------------ counters

#[derive(Default)]
struct Obj {
    kind: &'static str,
    tag: String,
    created: u32,
    dropped: u32,
    at_stop: u32,
    after_drop: u32,
}

#[derive(Default)]
struct Registry {
    objs: Vec<Obj>,
    inst: HashMap<String, u32>,
    kept: u32,
    held: u32,
    zidx: Option<usize>,
    asked: Vec<String>,
    log2: Vec<String>,
}

static REG: Mutex<Option<Registry>> = Mutex::new(None);

fn reg<R>(f: impl FnOnce(&mut Registry) -> R) -> R {
    let mut g = REG.lock().unwrap_or_else(|e| e.into_inner());
    f(g.get_or_insert_with(Registry::default))
}

#[derive(Debug)]
struct Tracked(usize);

impl Tracked {
    fn new(kind: &'static str, tag: &str) -> Tracked {
        reg(|r| {
            let k = r.inst.entry(format!("{kind}:{tag}")).or_insert(0);
            let name = format!("{tag}#{k}");
            *k += 1;
            r.objs.push(Obj { kind, tag: name, created: 1, dropped: 0, at_stop: 0, after_drop: 0 });
            Tracked(r.objs.len() - 1)
        })
    }
}

impl Drop for Tracked {
    fn drop(&mut self) {
        reg(|r| {
            if let Some(o) = r.objs.get_mut(self.0) {
                o.dropped += 1;
            }
        });
    }
}

#[derive(Debug)]
struct Body(#[allow(dead_code)] Tracked);
impl MessageBody for Body {
    fn byte_len(&self) -> usize {
        100
    }
}

/// a zero-sized body (flow-control credit) with a counting destructor
#[derive(Debug)]
struct Credit;
impl Credit {
    fn new() -> Credit {
        reg(|r| {
            let i = match r.zidx {
                Some(i) => i,
                None => {
                    r.objs.push(Obj { kind: "zbody", tag: "credits#0".into(), created: 0, dropped: 0, at_stop: 0, after_drop: 0 });
                    r.zidx = Some(r.objs.len() - 1);
                    r.objs.len() - 1
                }
            };
            r.objs[i].created += 1;
        });
        Credit
    }
}
impl Drop for Credit {
    fn drop(&mut self) {
        reg(|r| {
            if let Some(i) = r.zidx {
                r.objs[i].dropped += 1;
            }
        });
    }
}
impl MessageBody for Credit {
    fn byte_len(&self) -> usize {
        100
    }
}

fn mk_msg(id: u16, body: &str) -> Message {
    let m = Message::default().id(id);
    if body == "-" {
        m
    } else if body == "z" {
        let mut m = m;
        m.set_content_non_clonable(Credit::new());
        m
    } else {
        let mut m = m;
        m.set_content_non_clonable(Body(Tracked::new("body", body)));
        m
    }
}

// ------------------------------------------------------------------------------------------ script

#[derive(Clone, Debug)]
enum Act {
    Send { chain: String, id: u16, delay: u64, body: String },
    Sched { id: u16, delay: u64, body: String },
    TaskSleep { tag: String, ns: u64, local: bool, join: String },
    TaskRecv { tag: String, own: bool, local: bool, join: String },
    TaskSend { tag: String, ns: u64, chain: String, id: u16, body: String },
    Keep,
    Shutdown,
    Restart(u64),
    Panic,
    PePanic,
    Parent(bool),
    Child(String, bool),
}

#[derive(Clone, Debug, Default)]
struct ModSpec {
    tag: String,
    path: String,
    pe: usize,
    stages: usize,
    kind: String,
    wait: String,
    start: HashMap<u64, Vec<Act>>,
    msg: HashMap<u64, Vec<Act>>,
    end: Vec<Act>,
}

#[derive(Clone, Debug)]
struct ChainSpec {
    tag: String,
    ch: String,
    ring: bool,
    mods: Vec<String>,
}

#[derive(Default)]
struct Script {
    mods: Vec<ModSpec>,
    chains: Vec<ChainSpec>,
    inits: Vec<(String, u16, u64, String)>,
}

fn parse_act(t: &[&str], chains: &[ChainSpec], own: &str) -> Option<Act> {
    let has_chain = |c: &str| chains.iter().any(|x| x.tag == c && x.mods.iter().any(|m| m == own));
    match t {
        ["send", c, id, delay, body] => {
            if !has_chain(c) {
                return None;
            }
            Some(Act::Send { chain: c.to_string(), id: id.parse().ok()?, delay: delay.parse().ok()?, body: body.to_string() })
        }
        ["sched", id, delay, body] => Some(Act::Sched { id: id.parse().ok()?, delay: if *delay == "max" { u64::MAX } else { delay.parse().ok()? }, body: body.to_string() }),
        ["task", tag, "sleep", ns, loc, join] => Some(Act::TaskSleep { tag: tag.to_string(), ns: ns.parse().ok()?, local: *loc == "loc", join: join.to_string() }),
        ["task", tag, "recv", own, loc, join] => Some(Act::TaskRecv { tag: tag.to_string(), own: *own == "1", local: *loc == "loc", join: join.to_string() }),
        ["task", tag, "ssend", ns, c, id, body] => {
            if !has_chain(c) {
                return None;
            }
            Some(Act::TaskSend { tag: tag.to_string(), ns: ns.parse().ok()?, chain: c.to_string(), id: id.parse().ok()?, body: body.to_string() })
        }
        ["keep"] => Some(Act::Keep),
        ["parent", k] => Some(Act::Parent(*k == "keep")),
        ["child", c, k] => Some(Act::Child(c.to_string(), *k == "keep")),
        ["shutdown"] => Some(Act::Shutdown),
        ["restart", ns] => Some(Act::Restart(ns.parse().ok()?)),
        ["panic"] => Some(Act::Panic),
        ["pepanic"] => Some(Act::PePanic),
        _ => None,
    }
}

fn parse(body: &[String]) -> Script {
    let mut sc = Script::default();
    for line in body {
        let t: Vec<&str> = line.split_whitespace().collect();
        if let ["mod", m, rest @ ..] = t.as_slice() {
            if sc.mods.iter().any(|x| x.tag == *m) || m.contains('.') {
                continue;
            }
            let l = rest.join(" ");
            let parent = hval(&l, "parent").unwrap_or_else(|| "-".into());
            let path = match sc.mods.iter().find(|x| x.tag == parent) {
                Some(p) => format!("{}.{}", p.path, m),
                None => m.to_string(),
            };
            sc.mods.push(ModSpec {
                tag: m.to_string(),
                path,
                pe: hval(&l, "pe").and_then(|v| v.parse().ok()).unwrap_or(0),
                stages: hval(&l, "stages").and_then(|v| v.parse().ok()).unwrap_or(1),
                kind: hval(&l, "kind").unwrap_or_default(),
                wait: hval(&l, "wait").unwrap_or_else(|| "recv".into()),
                ..Default::default()
            });
        }
    }
    for line in body {
        let t: Vec<&str> = line.split_whitespace().collect();
        if let ["chain", c, rest @ ..] = t.as_slice() {
            if sc.chains.iter().any(|x| x.tag == *c) {
                continue;
            }
            let l = rest.join(" ");
            let mut mods: Vec<String> = Vec::new();
            for m in hval(&l, "mods").unwrap_or_default().split(',') {
                if sc.mods.iter().any(|x| x.tag == m) && !mods.iter().any(|x| x == m) {
                    mods.push(m.to_string());
                }
            }
            if mods.len() < 2 {
                continue;
            }
            let ring = hval(&l, "ring").map(|v| v == "1").unwrap_or(false) && mods.len() >= 3;
            sc.chains.push(ChainSpec { tag: c.to_string(), ch: hval(&l, "ch").unwrap_or_else(|| "none".into()), ring, mods });
        }
    }
    let chains = sc.chains.clone();
    for line in body {
        let t: Vec<&str> = line.split_whitespace().collect();
        match t.as_slice() {
            ["do", m, hook, key, act @ ..] => {
                let Ok(key) = key.parse::<u64>() else { continue };
                let Some(ms) = sc.mods.iter_mut().find(|x| x.tag == *m) else { continue };
                if !ms.kind.is_empty() {
                    continue;
                }
                let Some(a) = parse_act(act, &chains, m) else { continue };
                match *hook {
                    "start" => ms.start.entry(key).or_default().push(a),
                    "msg" => ms.msg.entry(key).or_default().push(a),
                    "end" => ms.end.push(a),
                    _ => {}
                }
            }
            ["init", m, id, time, b] => {
                let time = if *time == "max" { Ok(u64::MAX) } else { time.parse::<u64>() };
                let (Ok(id), Ok(time)) = (id.parse::<u16>(), time) else { continue };
                if sc.mods.iter().any(|x| x.tag == *m) {
                    sc.inits.push((m.to_string(), id, time, b.to_string()));
                }
            }
            _ => {}
        }
    }
    sc
}

// ------------------------------------------------------------------------------------------ real code

struct Probe {
    #[allow(dead_code)]
    t: Tracked,
}
impl des::net::channel::ChannelProbe for Probe {
    fn on_message_transmit(&mut self, _: &ChannelMetrics, _: &Message) {}
}

/// connect two gates; the channel that ends up in `b`'s connection gets a tracked probe
fn connect(a: GateRef, b: GateRef, ch: Option<ChannelRef>, tag: &str) {
    let keep = ch.clone();
    a.connect(b, ch);
    if let Some(c) = keep {
        c.attach_probe(Probe { t: Tracked::new("probe", tag) });
    }
}

struct Pe {
    #[allow(dead_code)]
    t: Tracked,
    panic_on: Vec<u16>,
}
impl ProcessingElement for Pe {
    fn incoming(&mut self, msg: Message) -> Option<Message> {
        if self.panic_on.contains(&msg.header().id) {
            panic!("scripted processing element panic");
        }
        Some(msg)
    }
}

/// the inner application: its at_sim_end fails on request
struct App {
    fail_end: bool,
}
#[derive(Debug)]
struct AppEndError;
impl std::fmt::Display for AppEndError {
    fn fmt(&self, f: &mut std::fmt::Formatter<'_>) -> std::fmt::Result {
        write!(f, "scripted application error")
    }
}
impl std::error::Error for AppEndError {}
impl EventLifecycle<Sim<App>> for App {
    fn at_sim_end(rt: &mut Runtime<Sim<App>>) -> Result<(), RuntimeError> {
        if rt.app.inner.fail_end {
            Err(RuntimeError::new(vec![AppEndError]))
        } else {
            Ok(())
        }
    }
}

struct Node {
    spec: Arc<ModSpec>,
    #[allow(dead_code)]
    me: Tracked,
    kept: Vec<Message>,
    txs: Vec<mpsc::UnboundedSender<()>>,
    downed: bool,
}

fn register(handle: tokio::task::JoinHandle<()>, join: &str) {
    match join {
        "try" => current().try_join(handle),
        "must" => current().join(handle),
        _ => drop(handle),
    }
}

fn do_send(chain: &str, id: u16, delay: u64, body: &str) {
    let msg = mk_msg(id, body);
    if delay == 0 {
        send(msg, chain);
    } else {
        send_in(msg, chain, Duration::from_nanos(delay));
    }
}

impl Node {
    fn run(&mut self, acts: Option<&Vec<Act>>, mut incoming: Option<Message>) {
        // handles of other modules that live until the callback ends
        let mut handles: Vec<ModuleRef> = Vec::new();
        for a in acts.into_iter().flatten() {
            match a {
                Act::Parent(keep) => {
                    if let Ok(p) = current().parent() {
                        let me = self.spec.tag.clone();
                        reg(|r| {
                            if !r.asked.contains(&me) {
                                r.asked.push(me)
                            }
                        });
                        if *keep {
                            handles.push(p);
                        }
                    }
                }
                Act::Child(name, keep) => {
                    if let Ok(c) = current().child(name) {
                        if *keep {
                            handles.push(c);
                        }
                    }
                }
                Act::Send { chain, id, delay, body } => do_send(chain, *id, *delay, body),
                Act::Sched { id, delay, body } => {
                    if *delay == u64::MAX {
                        // the "never fires" watchdog
                        schedule_at(mk_msg(*id, body), SimTime::MAX)
                    } else {
                        schedule_in(mk_msg(*id, body), Duration::from_nanos(*delay))
                    }
                }
                Act::TaskSleep { tag, ns, local, join } => {
                    let t = Tracked::new("task", tag);
                    let ns = *ns;
                    let fut = async move {
                        let _t = t;
                        des::time::sleep(Duration::from_nanos(ns)).await;
                    };
                    let h = if *local { tokio::task::spawn_local(fut) } else { tokio::spawn(fut) };
                    register(h, join);
                }
                Act::TaskRecv { tag, own, local, join } => {
                    let t = Tracked::new("task", tag);
                    let (tx, mut rx) = mpsc::unbounded_channel::<()>();
                    let mut held = None;
                    if *own {
                        held = Some(tx);
                    } else {
                        self.txs.push(tx);
                    }
                    let fut = async move {
                        let _t = t;
                        let _held = held;
                        let _ = rx.recv().await;
                    };
                    let h = if *local { tokio::task::spawn_local(fut) } else { tokio::spawn(fut) };
                    register(h, join);
                }
                Act::TaskSend { tag, ns, chain, id, body } => {
                    let t = Tracked::new("task", tag);
                    let (ns, chain, id, body) = (*ns, chain.clone(), *id, body.clone());
                    tokio::spawn(async move {
                        let _t = t;
                        des::time::sleep(Duration::from_nanos(ns)).await;
                        do_send(&chain, id, 0, &body);
                    });
                }
                Act::Keep => {
                    if let Some(m) = incoming.take() {
                        self.kept.push(m);
                        reg(|r| r.kept += 1);
                    }
                }
                Act::Shutdown => {
                    if !self.downed {
                        self.downed = true;
                        current().shutdown();
                    }
                }
                Act::Restart(ns) => {
                    if !self.downed {
                        self.downed = true;
                        current().shutdow_and_restart_in(Duration::from_nanos(*ns));
                    }
                }
                Act::Panic => panic!("scripted panic"),
                Act::PePanic => {}
            }
        }
    }
}

impl Module for Node {
    fn stack(&self, mut stack: ProcessingStack) -> ProcessingStack {
        for i in 0..self.spec.pe {
            let panic_on: Vec<u16> = if i == 0 {
                self.spec.msg.iter().filter(|(_, a)| a.iter().any(|x| matches!(x, Act::PePanic))).map(|(k, _)| *k as u16).collect()
            } else {
                Vec::new()
            };
            stack.append(Pe { t: Tracked::new("pe", &format!("{}.{}", self.spec.tag, i)), panic_on });
        }
        stack
    }
    fn num_sim_start_stages(&self) -> usize {
        self.spec.stages
    }
    fn at_sim_start(&mut self, stage: usize) {
        let spec = self.spec.clone();
        self.run(spec.start.get(&(stage as u64)), None);
    }
    fn handle_message(&mut self, msg: Message) {
        let spec = self.spec.clone();
        let id = msg.header().id as u64;
        self.run(spec.msg.get(&id), Some(msg));
    }
    fn at_sim_end(&mut self) -> Result<(), RuntimeError> {
        let spec = self.spec.clone();
        self.run(Some(&spec.end), None);
        Ok(())
    }
}

/// the future of an AsyncFn module: captures a counted value
async fn afn_body(cap: Tracked, wait: String, mut rx: mpsc::Receiver<Message>) {
    let _cap = cap;
    match wait.as_str() {
        "done" => {}
        "hold" => {
            let mut held = Vec::new();
            while let Some(m) = rx.recv().await {
                held.push(m);
                reg(|r| r.held += 1);
                des::time::sleep(Duration::from_secs(1000)).await;
            }
        }
        _ => {
            while let Some(m) = rx.recv().await {
                drop(m);
            }
        }
    }
}

fn afn_module(kind: &str, wait: &str, tag: &str) -> des::net::blocks::AsyncFn {
    use des::net::blocks::AsyncFn;
    let (wait, tag) = (wait.to_string(), tag.to_string());
    match kind {
        "failable" => AsyncFn::failable(move |rx| {
            let (cap, wait) = (Tracked::new("cap", &tag), wait.clone());
            async move {
                afn_body(cap, wait, rx).await;
                Ok::<(), std::fmt::Error>(())
            }
        }),
        "io" => AsyncFn::io(move |rx| {
            let (cap, wait) = (Tracked::new("cap", &tag), wait.clone());
            async move {
                afn_body(cap, wait, rx).await;
                Ok(())
            }
        }),
        _ => AsyncFn::new(move |rx| afn_body(Tracked::new("cap", &tag), wait.clone(), rx)),
    }
}

fn channel_of(ch: &str) -> Option<ChannelRef> {
    let drop = match ch {
        "q" => ChannelDropBehaviour::Queue(None),
        "qs" => ChannelDropBehaviour::Queue(Some(250)),
        "d" => ChannelDropBehaviour::Drop,
        _ => return None,
    };
    Some(Channel::new(ChannelMetrics::new(8000, Duration::from_millis(1), Duration::ZERO, drop)))
}

fn packets(ch: &ChannelRef) -> u64 {
    let s = format!("{ch:?}");
    match s.find("packets: ") {
        Some(i) => s[i + 9..].chars().take_while(|c| c.is_ascii_digit()).collect::<String>().parse().unwrap_or(0),
        None => 0,
    }
}

fn snapshot_stop() {
    reg(|r| {
        for o in r.objs.iter_mut() {
            o.at_stop = o.dropped;
        }
    });
}

fn simulate(sc: &Script, stop: &str, drop_order: &str, end: &str, out: &mut Vec<String>) {
    let mut sim = Sim::new(App { fail_end: end == "apperr" });
    let mut made: Vec<String> = Vec::new();
    for m in &sc.mods {
        let spec = Arc::new(m.clone());
        let path = m.path.clone();
        if !m.kind.is_empty() {
            let node = afn_module(&m.kind, &m.wait, &m.tag);
            if guarded(|| sim.node(path.as_str(), node)).is_ok() {
                made.push(m.tag.clone());
            }
            continue;
        }
        let node = Node { spec, me: Tracked::new("mod", &m.tag), kept: Vec::new(), txs: Vec::new(), downed: false };
        if guarded(|| sim.node(path.as_str(), node)).is_ok() {
            made.push(m.tag.clone());
        }
    }
    let path_of = |tag: &str| sc.mods.iter().find(|m| m.tag == tag).map(|m| m.path.clone()).unwrap_or_default();
    for c in &sc.chains {
        let ms: Vec<&String> = c.mods.iter().filter(|m| made.contains(m)).collect();
        let n = ms.len();
        if n < 2 {
            continue;
        }
        for i in 0..n - 1 {
            let a = sim.gate(path_of(ms[i]).as_str(), &c.tag);
            let b = sim.gate(path_of(ms[i + 1]).as_str(), &c.tag);
            connect(a, b, channel_of(&c.ch), &format!("{}.{}", c.tag, i));
        }
        if c.ring && n >= 3 {
            let a = sim.gate(path_of(ms[n - 1]).as_str(), &c.tag);
            let b = sim.gate(path_of(ms[0]).as_str(), &c.tag);
            connect(a, b, channel_of(&c.ch), &format!("{}.r", c.tag));
        }
    }
    if stop == "never0" {
        snapshot_stop();
        out.push("stop now=0 fes=0 down=- kept=0 queued=0".into());
        out.push("fin res=never rem=0 hm=0 ex=0 ub=0 rs=0 aw=0".into());
        drop(sim);
        return;
    }
    let mut builder = Builder::seeded(1).quiet();
    let lim_itr = stop.strip_prefix("itr:").and_then(|v| v.parse::<usize>().ok());
    let lim_time = stop.strip_prefix("time:").and_then(|v| v.parse::<u64>().ok()).map(|t| SimTime::from_duration(Duration::from_nanos(t)));
    // an event at SimTime::MAX must never become the next event of a started run (see the header)
    let has_max = sc.inits.iter().any(|i| i.2 == u64::MAX)
        || sc.mods.iter().any(|m| {
            m.start.values().chain(m.msg.values()).flatten().chain(m.end.iter()).any(|a| matches!(a, Act::Sched { delay, .. } if *delay == u64::MAX))
        });
    let one_sec = SimTime::from_duration(Duration::from_secs(1));
    let (lim_itr, lim_time) = if has_max { (None, Some(lim_time.map_or(one_sec, |t| if t < one_sec { t } else { one_sec }))) } else { (lim_itr, lim_time) };
    let end = if has_max && end == "finish" { "nofinish" } else { end };
    let manual = end == "nofinish";
    if manual {
        builder = builder.max_itr(20000);
    } else if let Some(n) = lim_itr {
        builder = builder.max_itr(n);
    } else if let Some(t) = lim_time {
        builder = builder.max_time(t);
    } else {
        builder = builder.max_itr(20000);
    }
    let mut rt = builder.build(sim.freeze());
    for (m, id, time, b) in &sc.inits {
        let Some(module) = rt.app.globals().get(&ObjectPath::from(path_of(m).as_str())) else { continue };
        let at = if *time == u64::MAX { SimTime::MAX } else { SimTime::from_duration(Duration::from_nanos(*time)) };
        rt.handle_message_on(module, mk_msg(*id, b), at);
    }
    if has_max {
        if let Some(module) = made.first().and_then(|m| rt.app.globals().get(&ObjectPath::from(path_of(m).as_str()))) {
            rt.handle_message_on(module, Message::default().id(65000), SimTime::from_duration(Duration::from_secs(3600)));
        }
    }
    if stop == "never" {
        snapshot_stop();
        out.push(format!("stop now=0 fes={} down=- kept=0 queued=0", rt.num_events_remaining()));
        out.push("fin res=never rem=0 hm=0 ex=0 ub=0 rs=0 aw=0".into());
        drop(rt);
        return;
    }
    // a panic that unwinds out of start / dispatch drops the Runtime on its way (it is owned by the closure)
    let stepped = guarded(move || {
        rt.start();
        if manual {
            if let Some(n) = lim_itr {
                rt.dispatch_n_events(n);
            } else if let Some(t) = lim_time {
                rt.dispatch_events_until(t);
            } else {
                rt.dispatch_all();
            }
        } else {
            rt.dispatch_all();
        }
        rt
    });
    let mut rt = match stepped {
        Ok(rt) => rt,
        Err(_) => {
            snapshot_stop();
            out.push("stop now=0 fes=0 down=- kept=0 queued=0".into());
            out.push("fin res=unwound rem=0 hm=0 ex=0 ub=0 rs=0 aw=0".into());
            return;
        }
    };
    // ---- state at the stopping point
    snapshot_stop();
    let globals = rt.app.globals();
    let mut down: Vec<String> = Vec::new();
    for m in &sc.mods {
        if let Some(r) = globals.get(&ObjectPath::from(m.path.as_str())) {
            if !r.is_active() {
                down.push(m.tag.clone());
            }
        }
    }
    let mut qlines = Vec::new();
    let mut queued = 0;
    for c in &sc.chains {
        if c.ring {
            continue;
        }
        let ms: Vec<&String> = c.mods.iter().filter(|m| made.contains(m)).collect();
        if ms.len() < 2 {
            continue;
        }
        for (dir, end) in [("fwd", ms[0]), ("bwd", ms[ms.len() - 1])] {
            let Some(r) = globals.get(&ObjectPath::from(path_of(end).as_str())) else { continue };
            let Some(g) = r.gate(&c.tag, 0) else { continue };
            let Some(it) = g.path_iter() else { continue };
            let ns: Vec<u64> = it.take(16).map(|con| con.channel().map(|ch| packets(&ch)).unwrap_or(0)).collect();
            queued += ns.iter().sum::<u64>();
            qlines.push(format!("q {} {} {}", c.tag, dir, ns.iter().map(|n| n.to_string()).collect::<Vec<_>>().join(",")));
        }
    }
    drop(globals);
    let kept = reg(|r| r.kept);
    out.push(format!(
        "stop now={} fes={} down={} kept={} queued={} held={}",
        SimTime::now().as_nanos(),
        rt.num_events_remaining(),
        if down.is_empty() { "-".to_string() } else { down.join(",") },
        kept,
        queued,
        reg(|r| r.held)
    ));
    out.extend(qlines);
    let asked = reg(|r| r.asked.clone());
    out.push(format!("asked {}", if asked.is_empty() { "-".to_string() } else { asked.join(",") }));
    if end == "nofinish" {
        out.push("fin res=nofinish rem=0 hm=0 ex=0 ub=0 rs=0 aw=0".into());
        drop(rt);
        return;
    }
    if end == "unwind" {
        out.push("fin res=unwound rem=0 hm=0 ex=0 ub=0 rs=0 aw=0".into());
        let r = guarded(move || {
            let _keep = &mut rt;
            if _keep.num_events_dispatched() < usize::MAX {
                panic!("scripted panic while a Runtime is in scope");
            }
        });
        drop(r);
        return;
    }
    // ---- finish and drop everything
    match rt.finish() {
        Ok((app, _time, prof)) => {
            let mut k = [0usize; 5];
            for (e, _) in &prof.remaining {
                let s = format!("{e:?}");
                let i = if s.starts_with("HandleMessageEvent") {
                    0
                } else if s.starts_with("MessageExitingConnection") {
                    1
                } else if s.starts_with("ChannelUnbusyNotif") {
                    2
                } else if s.starts_with("ModuleRestartEvent") {
                    3
                } else {
                    4
                };
                k[i] += 1;
            }
            out.push(format!("fin res=ok rem={} hm={} ex={} ub={} rs={} aw={}", prof.remaining.len(), k[0], k[1], k[2], k[3], k[4]));
            if drop_order == "pa" {
                drop(prof);
                drop(app);
            } else {
                drop(app);
                drop(prof);
            }
        }
        Err(e) => {
            out.push("fin res=err rem=0 hm=0 ex=0 ub=0 rs=0 aw=0".into());
            drop(e);
        }
    }
}

// ---- the second / third simulation.  Everything that reads the process-wide clock while the network is
// built is logged (right after Sim::new, in the module constructors, in Module::stack, the creation time of a
// Message::default()), x schedules a message relative to its build-time clock, sends 1,2,3 to y (send_in
// 1,2,3 ns over a 1 ns-latency channel), y spawns a 5 ns sleeper on message 1.
fn log2(s: String) {
    reg(|r| r.log2.push(s));
}
struct X2 {
    built: SimTime,
}
impl X2 {
    fn new() -> Self {
        let built = SimTime::now();
        log2(format!("cx@{}", built.as_nanos()));
        X2 { built }
    }
}
impl Module for X2 {
    fn stack(&self, stack: ProcessingStack) -> ProcessingStack {
        log2(format!("kx@{}", SimTime::now().as_nanos()));
        stack
    }
    fn at_sim_start(&mut self, _: usize) {
        schedule_at(Message::default().id(9), self.built + Duration::from_nanos(10));
        for i in 1..=3u16 {
            send_in(Message::default().id(i), "o", Duration::from_nanos(i as u64));
        }
    }
    fn handle_message(&mut self, msg: Message) {
        log2(format!("x:{}@{}", msg.header().id, SimTime::now().as_nanos()));
    }
}
struct Y2;
impl Y2 {
    fn new() -> Self {
        log2(format!("cy@{}", SimTime::now().as_nanos()));
        Y2
    }
}
impl Module for Y2 {
    fn stack(&self, stack: ProcessingStack) -> ProcessingStack {
        log2(format!("ky@{}", SimTime::now().as_nanos()));
        stack
    }
    fn handle_message(&mut self, msg: Message) {
        let id = msg.header().id;
        log2(format!("y:{}@{}", id, SimTime::now().as_nanos()));
        if id == 1 {
            tokio::spawn(async move {
                des::time::sleep(Duration::from_nanos(5)).await;
                log2(format!("t@{}", SimTime::now().as_nanos()));
            });
        }
    }
}

/// run one follow-up simulation on a helper thread; `None` = it did not come back within 10 s
fn follow_up() -> Option<String> {
    let (tx, rx) = std::sync::mpsc::channel();
    std::thread::spawn(move || {
        let _ = tx.send(second_sim());
    });
    rx.recv_timeout(std::time::Duration::from_secs(10)).ok()
}

fn second_sim() -> String {
    reg(|r| r.log2.clear());
    let res = guarded(|| {
        let mut sim = Sim::new(());
        log2(format!("n@{}", SimTime::now().as_nanos()));
        sim.node("x", X2::new());
        sim.node("y", Y2::new());
        log2(format!("m@{}", Message::default().header().creation_time.as_nanos()));
        let o = sim.gate("x", "o");
        let i = sim.gate("y", "i");
        o.connect(i, Some(Channel::new(ChannelMetrics::new(0, Duration::from_nanos(1), Duration::ZERO, ChannelDropBehaviour::Drop))));
        match Builder::seeded(1).quiet().build(sim.freeze()).run() {
            Ok((_, t, p)) => format!("ok:{}:{}", t.as_nanos(), p.remaining.len()),
            Err(_) => "err".to_string(),
        }
    });
    let mut parts = reg(|r| r.log2.clone());
    parts.push(match res {
        Ok(s) => s,
        Err(_) => "panic".into(),
    });
    parts.join(",")
}

pub fn exec(input: &str) -> String {
    let mut out = String::new();
    for (header, body) in cases(input) {
        writeln!(out, "{header}").unwrap();
        let body: Vec<String> = body
            .into_iter()
            .filter(|l| !["stop ", "q ", "asked ", "fin ", "obj ", "sim2 ", "sim3 "].iter().any(|p| l.starts_with(p)))
            .collect();
        for l in &body {
            writeln!(out, "{l}").unwrap();
        }
        let sc = parse(&body);
        let stop = hval(&header, "stop").unwrap_or_else(|| "full".into());
        let order = hval(&header, "drop").unwrap_or_else(|| "ap".into());
        *REG.lock().unwrap_or_else(|e| e.into_inner()) = Some(Registry::default());
        let mut lines = Vec::new();
        let end = hval(&header, "end").unwrap_or_else(|| "finish".into());
        let res = guarded(|| simulate(&sc, &stop, &order, &end, &mut lines));
        if res.is_err() {
            if !lines.iter().any(|l| l.starts_with("stop ")) {
                lines.push("stop now=0 fes=0 down=- kept=0 queued=0".into());
            }
            lines.retain(|l| !l.starts_with("fin "));
            lines.push("fin res=panic rem=0 hm=0 ex=0 ub=0 rs=0 aw=0".into());
        }
        for l in &lines {
            writeln!(out, "{l}").unwrap();
        }
        // the counters right after the drop, before any later simulation is built
        reg(|r| {
            for o in r.objs.iter_mut() {
                o.after_drop = o.dropped;
            }
        });
        // the follow-up simulations run on a helper thread so that a dead-lock can be reported
        let s2 = follow_up();
        let s3 = if s2.is_some() { follow_up() } else { None };
        let objs: Vec<String> = reg(|r| {
            r.objs.iter().map(|o| format!("obj {} {} c={} s={} d={} l={}", o.kind, o.tag, o.created, o.at_stop, o.after_drop, o.dropped)).collect()
        });
        for l in objs {
            writeln!(out, "{l}").unwrap();
        }
        writeln!(out, "sim2 {}", s2.clone().unwrap_or_else(|| "hung".into())).unwrap();
        writeln!(out, "sim3 {}", s3.clone().unwrap_or_else(|| if s2.is_some() { "hung".into() } else { "skipped".into() })).unwrap();
        writeln!(out, "end").unwrap();
        if s2.is_none() || s3.is_none() {
            // a simulation is stuck in this process (and holds its locks): nothing more can be run here
            print!("{out}");
            use std::io::Write as _;
            let _ = std::io::stdout().flush();
            std::process::exit(0);
        }
    }
    out
}

// ------------------------------------------------------------------------------------------ generator

pub fn gen(seed: u64, count: usize, thorough: bool) -> String {
    let mut r = Rng::new(seed);
    let mut out = String::new();
    for k in 0..count {
        let nmods = r.range(1, 6) as usize;
        // stopping point
        let stop = match r.below(10) {
            0 => "never0".to_string(),
            1 => "never".to_string(),
            2..=4 => format!("itr:{}", r.range(0, if thorough { 30 } else { 14 })),
            5..=6 => format!("time:{}", *r.pick(&[0u64, 1, 50, 1_000_000, 100_000_000, 150_000_000, 250_000_000, 1_000_000_000])),
            _ => "full".to_string(),
        };
        let order = if r.chance(1, 2) { "ap" } else { "pa" };
        // "never fires" watchdogs at SimTime::MAX: only with endings that neither dispatch nor drain them
        let maxev = (stop == "never" || stop.starts_with("time:")) && r.chance(1, 3);
        let end = if stop.starts_with("never") {
            "finish"
        } else if maxev {
            *r.pick(&["nofinish", "nofinish", "apperr", "unwind"])
        } else {
            match r.below(10) {
                0..=1 => "nofinish",
                2 => "apperr",
                3 => "unwind",
                _ => "finish",
            }
        };
        writeln!(out, "case {k} stop={stop} drop={order} end={end}").unwrap();
        let mods: Vec<String> = (0..nmods).map(|i| format!("m{i}")).collect();
        let mut afn: Vec<String> = Vec::new();
        for (i, m) in mods.iter().enumerate() {
            let parent = if i > 0 && r.chance(1, 2) { mods[r.below(i as u64) as usize].clone() } else { "-".to_string() };
            if r.chance(1, 5) {
                // a module built with AsyncFn::{new, failable, io}
                writeln!(out, "mod {m} parent={parent} pe=0 stages=1 kind={} wait={}", r.pick(&["new", "failable", "io"]), r.pick(&["recv", "hold", "hold", "done"])).unwrap();
                afn.push(m.clone());
            } else {
                writeln!(out, "mod {m} parent={parent} pe={} stages={}", *r.pick(&[0u64, 0, 1, 2, 3]), *r.pick(&[1u64, 1, 1, 2, 0])).unwrap();
            }
        }
        // chains and rings
        let mut chains: Vec<(String, Vec<String>, bool)> = Vec::new();
        if nmods >= 2 {
            let nch = r.range(1, 3);
            for c in 0..nch {
                let len = r.range(2, nmods.min(4) as u64) as usize;
                let mut pool = mods.clone();
                let mut ms = Vec::new();
                for _ in 0..len {
                    let i = r.below(pool.len() as u64) as usize;
                    ms.push(pool.remove(i));
                }
                let ring = len >= 3 && r.chance(1, 3);
                let ch = *r.pick(&["none", "q", "q", "q", "qs", "d"]);
                writeln!(out, "chain c{c} ch={ch} ring={} mods={}", ring as u8, ms.join(",")).unwrap();
                chains.push((format!("c{c}"), ms, ring));
            }
        }
        let nid = 6u64;
        let mut tcount = 0;
        let mut bcount = 0;
        let nact = if thorough { r.range(3, 18) } else { r.range(2, 12) };
        let mut last: Option<(String, &str, u64)> = None;
        for _ in 0..nact {
            let (m, hook, key) = match (&last, r.chance(2, 5)) {
                (Some(l), true) => l.clone(),
                _ => {
                    let m = r.pick(&mods).clone();
                    let hook = *r.pick(&["start", "start", "msg", "msg", "msg", "end"]);
                    let key = match hook {
                        "start" => r.below(2),
                        "msg" => r.range(1, nid),
                        _ => 0,
                    };
                    (m, hook, key)
                }
            };
            // ids emitted from a message hook are strictly larger than the triggering id (termination)
            let lo = if hook == "msg" { key + 1 } else { 1 };
            if lo > nid + 2 {
                continue;
            }
            let id = r.range(lo, nid + 2);
            let my_chains: Vec<&(String, Vec<String>, bool)> = chains.iter().filter(|c| c.1.contains(&m)).collect();
            let body = |r: &mut Rng, bcount: &mut u32| {
                if r.chance(1, 6) {
                    "-".to_string()
                } else if r.chance(1, 6) {
                    "z".to_string()
                } else {
                    *bcount += 1;
                    format!("b{}", *bcount)
                }
            };
            let delay = *r.pick(&[0u64, 0, 0, 1, 1000, 50_000_000, 2_000_000_000]);
            let act = match r.below(14) {
                0..=4 if !my_chains.is_empty() => {
                    // prefer an endpoint position (sending from a transit gate panics), but do not insist
                    let c = r.pick(&my_chains);
                    let b = body(&mut r, &mut bcount);
                    format!("send {} {id} {delay} {b}", c.0)
                }
                0..=5 => {
                    let b = body(&mut r, &mut bcount);
                    format!("sched {id} {delay} {b}")
                }
                6..=7 if hook != "end" => {
                    tcount += 1;
                    let ns = *r.pick(&[1u64, 1000, 100_000_000, 1_000_000_000_000]);
                    format!("task t{tcount} sleep {ns} {} {}", r.pick(&["rt", "rt", "loc"]), r.pick(&["none", "none", "try", "must"]))
                }
                8 if hook != "end" => {
                    tcount += 1;
                    format!("task t{tcount} recv {} {} {}", r.below(2), r.pick(&["rt", "rt", "loc"]), r.pick(&["none", "none", "try"]))
                }
                9 if hook != "end" && !my_chains.is_empty() => {
                    tcount += 1;
                    let c = r.pick(&my_chains);
                    let b = body(&mut r, &mut bcount);
                    let ns = *r.pick(&[1u64, 1000, 100_000_000]);
                    format!("task t{tcount} ssend {ns} {} {id} {b}", c.0)
                }
                10 if hook == "msg" => "keep".to_string(),
                10 | 13 if r.chance(1, 2) => {
                    if r.chance(1, 2) {
                        format!("parent {}", r.pick(&["drop", "keep"]))
                    } else {
                        format!("child {} {}", r.pick(&mods), r.pick(&["drop", "keep"]))
                    }
                }
                11 if hook != "end" => {
                    if r.chance(1, 2) {
                        "shutdown".to_string()
                    } else {
                        format!("restart {}", *r.pick(&[0u64, 1, 1000, 500_000_000]))
                    }
                }
                12 if r.chance(1, 4) => "panic".to_string(),
                13 if hook == "msg" && r.chance(1, 3) => "pepanic".to_string(),
                _ => {
                    let b = body(&mut r, &mut bcount);
                    format!("sched {id} {delay} {b}")
                }
            };
            writeln!(out, "do {m} {hook} {key} {act}").unwrap();
            last = Some((m, hook, key));
        }
        // bursts onto a queueing channel: the classic backlog
        if !chains.is_empty() && r.chance(1, 2) {
            let c = r.pick(&chains).clone();
            if !c.2 {
                let m = if r.chance(1, 2) { c.1[0].clone() } else { c.1[c.1.len() - 1].clone() };
                let n = r.range(2, 5);
                for _ in 0..n {
                    bcount += 1;
                    let b = if r.chance(1, 4) { "z".to_string() } else { format!("b{bcount}") };
                    writeln!(out, "do {m} start 0 send {} {} 0 {b}", c.0, r.range(1, nid)).unwrap();
                }
            }
        }
        if maxev {
            for _ in 0..r.range(1, 2) {
                let m = r.pick(&mods).clone();
                bcount += 1;
                if r.chance(1, 2) && !afn.contains(&m) && stop != "never" {
                    writeln!(out, "do {m} start 0 sched {} max b{bcount}", r.range(1, nid)).unwrap();
                } else {
                    writeln!(out, "init {m} {} max b{bcount}", r.range(1, nid)).unwrap();
                }
            }
        }
        // AsyncFn modules get some traffic of their own
        for a in &afn {
            for _ in 0..r.below(4) {
                bcount += 1;
                writeln!(out, "init {a} {} {} b{bcount}", r.range(1, nid), *r.pick(&[0u64, 1, 5, 1000, 100_000_000])).unwrap();
            }
        }
        let ninit = r.below(4);
        for _ in 0..ninit {
            let m = r.pick(&mods);
            bcount += 1;
            let b = if r.chance(1, 5) { "-".to_string() } else if r.chance(1, 5) { "z".to_string() } else { format!("b{bcount}") };
            writeln!(out, "init {m} {} {} {b}", r.range(1, nid), *r.pick(&[0u64, 0, 1, 5, 1000, 100_000_000, 3_000_000_000])).unwrap();
        }
        writeln!(out, "end").unwrap();
    }
    out
}

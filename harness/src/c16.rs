//! C16: message bodies are type safe, value preserving and measured consistently.
//!
//! Real `des::net::message::Message`s live in slots named by a tag carried in every script line.
//! Body types come from a fixed family (see `with_ty!`): each value carries a drop tracker, so
//! every construction / clone / destructor run is counted (`i=` instances ever created, `d=`
//! destructor runs so far; at the end the per-instance counters are summarised).
//!
//! Script lines
//!   new <tag> <id> <kind>            Message::default().id(id).kind(kind) into slot <tag>
//!   set <tag> <ctor> <ty> <val> [lay=<k>]   (lay: in-memory layout of the containers inside the value:
//!                                    ring-buffer position of deques, insertion order / capacity of maps, sets,
//!                                    heaps, spare capacity of strings and vectors; 0 = canonical; the abstract
//!                                    value, and hence every answer, must not depend on it)
//!                                    ctor c  = set_content
//!                                         nc = set_content_non_clonable
//!                                         wl:<n> = set_body(Body::new_with_len(v, n))
//!                                         nd = set_content_non_debugable
//!   clone <src> <dst>                Message::clone (may panic)      | tryclone <src> <dst>
//!   cast <tag> <ty>                  try_cast::<ty>; Ok: value+header taken, rendered, dropped
//!   content <tag> <ty>               try_content::<ty>     | contentmut <tag> <ty> (read only)
//!   cancast <tag> <ty> | drop <tag>
//!   len <tag> [br=<bit/s>]           Message::length and ChannelMetrics::calculate_busy at that bitrate (default 8)
//! Values are terms over  U  P<size>:<n>  S<hex>  F<size>:<n>  N  J(v)  K(v)  E(v)  B(v)  [v,..]
//! A[v,..]  T(v,..)  R{v,..}  V<k>{v,..}  (unit, primitive, string, fixed-size opaque, None, Some, Ok,
//! Err, Box, sequence, fixed-size array, tuple, derived struct, derived enum variant k) — the same universe as the Lean
//! model's `MB.Val`.
//! Transcript: `<line> -> <answer> i=<instances> d=<drops>`; `end i= d= multi= leaked=`.
#![allow(dead_code)]
use crate::rng::Rng;
use crate::util::{cases, guarded};
use des::net::message::Body;
use des::prelude::*;
use std::cell::RefCell;
use std::collections::{BTreeMap, BTreeSet, BinaryHeap, HashMap, HashSet, LinkedList, VecDeque};
use std::fmt::Write;
use std::time::Duration;

// ------------------------------------------------------------------ value terms

#[derive(Debug, Clone, PartialEq)]
pub enum V {
    U,
    P(usize, u128),
    S(Vec<u8>),
    F(usize, u128),
    N,
    J(Box<V>),
    K(Box<V>),
    E(Box<V>),
    B(Box<V>),
    L(Vec<V>),
    A(Vec<V>),
    T(Vec<V>),
    R(Vec<V>),
    En(usize, Vec<V>),
}

impl V {
    fn render(&self, o: &mut String) {
        fn list(o: &mut String, vs: &[V], open: char, close: char) {
            o.push(open);
            for (i, v) in vs.iter().enumerate() {
                if i > 0 {
                    o.push(',');
                }
                v.render(o);
            }
            o.push(close);
        }
        match self {
            V::U => o.push('U'),
            V::P(s, n) => write!(o, "P{s}:{n}").unwrap(),
            V::S(b) => {
                o.push('S');
                for x in b {
                    write!(o, "{x:02x}").unwrap();
                }
            }
            V::F(s, n) => write!(o, "F{s}:{n}").unwrap(),
            V::N => o.push('N'),
            V::J(v) => {
                o.push_str("J(");
                v.render(o);
                o.push(')');
            }
            V::K(v) => {
                o.push_str("K(");
                v.render(o);
                o.push(')');
            }
            V::E(v) => {
                o.push_str("E(");
                v.render(o);
                o.push(')');
            }
            V::B(v) => {
                o.push_str("B(");
                v.render(o);
                o.push(')');
            }
            V::L(vs) => list(o, vs, '[', ']'),
            V::A(vs) => {
                o.push('A');
                list(o, vs, '[', ']')
            }
            V::T(vs) => {
                o.push('T');
                list(o, vs, '(', ')')
            }
            V::R(vs) => {
                o.push('R');
                list(o, vs, '{', '}')
            }
            V::En(k, vs) => {
                write!(o, "V{k}").unwrap();
                list(o, vs, '{', '}')
            }
        }
    }
    pub fn show(&self) -> String {
        let mut s = String::new();
        self.render(&mut s);
        s
    }
    pub fn parse(s: &str) -> Option<V> {
        let b = s.as_bytes();
        let mut i = 0;
        let v = Self::p(b, &mut i)?;
        if i == b.len() {
            Some(v)
        } else {
            None
        }
    }
    fn num(b: &[u8], i: &mut usize) -> Option<u128> {
        let st = *i;
        let mut n: u128 = 0;
        while *i < b.len() && b[*i].is_ascii_digit() {
            n = n.checked_mul(10)?.checked_add((b[*i] - b'0') as u128)?;
            *i += 1;
        }
        if *i == st {
            None
        } else {
            Some(n)
        }
    }
    fn eat(b: &[u8], i: &mut usize, c: u8) -> Option<()> {
        if *i < b.len() && b[*i] == c {
            *i += 1;
            Some(())
        } else {
            None
        }
    }
    fn plist(b: &[u8], i: &mut usize, open: u8, close: u8) -> Option<Vec<V>> {
        Self::eat(b, i, open)?;
        let mut out = Vec::new();
        if Self::eat(b, i, close).is_some() {
            return Some(out);
        }
        loop {
            out.push(Self::p(b, i)?);
            if Self::eat(b, i, b',').is_some() {
                continue;
            }
            Self::eat(b, i, close)?;
            return Some(out);
        }
    }
    fn p(b: &[u8], i: &mut usize) -> Option<V> {
        let c = *b.get(*i)?;
        match c {
            b'[' => Some(V::L(Self::plist(b, i, b'[', b']')?)),
            _ => {
                *i += 1;
                match c {
                    b'U' => Some(V::U),
                    b'N' => Some(V::N),
                    b'P' | b'F' => {
                        let s = Self::num(b, i)? as usize;
                        Self::eat(b, i, b':')?;
                        let n = Self::num(b, i)?;
                        Some(if c == b'P' { V::P(s, n) } else { V::F(s, n) })
                    }
                    b'S' => {
                        let mut out = Vec::new();
                        while *i + 1 < b.len() && b[*i].is_ascii_hexdigit() && b[*i + 1].is_ascii_hexdigit() {
                            let h = std::str::from_utf8(&b[*i..*i + 2]).ok()?;
                            out.push(u8::from_str_radix(h, 16).ok()?);
                            *i += 2;
                        }
                        Some(V::S(out))
                    }
                    b'J' | b'K' | b'E' | b'B' => {
                        Self::eat(b, i, b'(')?;
                        let v = Box::new(Self::p(b, i)?);
                        Self::eat(b, i, b')')?;
                        Some(match c {
                            b'J' => V::J(v),
                            b'K' => V::K(v),
                            b'E' => V::E(v),
                            _ => V::B(v),
                        })
                    }
                    b'A' => Some(V::A(Self::plist(b, i, b'[', b']')?)),
                    b'T' => Some(V::T(Self::plist(b, i, b'(', b')')?)),
                    b'R' => Some(V::R(Self::plist(b, i, b'{', b'}')?)),
                    b'V' => {
                        let k = Self::num(b, i)? as usize;
                        Some(V::En(k, Self::plist(b, i, b'{', b'}')?))
                    }
                    _ => None,
                }
            }
        }
    }
}

// ------------------------------------------------------------------ drop tracking

thread_local! {
    /// per-instance destructor counts (instances that carry an id)
    static REG: RefCell<Vec<u32>> = RefCell::new(Vec::new());
    /// (instances ever created, destructor runs) over all tracked values, incl. the ZST
    static TOT: RefCell<(u64, u64)> = RefCell::new((0, 0));
}

fn reg_reset() {
    REG.with(|r| r.borrow_mut().clear());
    TOT.with(|t| *t.borrow_mut() = (0, 0));
}
fn totals() -> (u64, u64) {
    TOT.with(|t| *t.borrow())
}

/// drop tracker: one per value instance; cloning makes a new instance
#[derive(Debug)]
pub struct Tr(u32);
impl Tr {
    fn new() -> Tr {
        TOT.with(|t| t.borrow_mut().0 += 1);
        REG.with(|r| {
            let mut r = r.borrow_mut();
            r.push(0);
            Tr(r.len() as u32 - 1)
        })
    }
}
impl Clone for Tr {
    fn clone(&self) -> Self {
        Tr::new()
    }
}
impl Drop for Tr {
    fn drop(&mut self) {
        TOT.with(|t| t.borrow_mut().1 += 1);
        REG.with(|r| {
            if let Some(c) = r.borrow_mut().get_mut(self.0 as usize) {
                *c += 1;
            }
        });
    }
}
impl MessageBody for Tr {
    fn byte_len(&self) -> usize {
        0
    }
}

// ------------------------------------------------------------------ the family of body types

/// generic derived wrapper: any payload + tracker
#[derive(Debug, Clone, MessageBody)]
pub struct W<T> {
    inner: T,
    tr: Tr,
}

/// non-clonable, layout-compatible with `W<u32>`
#[derive(Debug, MessageBody)]
pub struct Nc {
    v: u32,
    tr: Tr,
}

/// derived named struct, layout-compatible with `W<u64>` / `W<[u8; 8]>`
#[derive(Debug, Clone, MessageBody)]
pub struct Pt {
    x: u32,
    y: u32,
    tr: Tr,
}

/// derived tuple struct
#[derive(Debug, Clone, MessageBody)]
pub struct Ts(u8, String, Tr);

/// zero-sized derived unit struct with a destructor
#[derive(Debug, MessageBody)]
pub struct Z;
impl Z {
    fn new() -> Z {
        TOT.with(|t| t.borrow_mut().0 += 1);
        Z
    }
}
impl Clone for Z {
    fn clone(&self) -> Self {
        Z::new()
    }
}
impl Drop for Z {
    fn drop(&mut self) {
        TOT.with(|t| t.borrow_mut().1 += 1);
    }
}

/// derived enum: unit, unnamed and named variants
#[derive(Debug, Clone, MessageBody)]
pub enum En {
    A,
    B(u32, u8),
    C { s: String, n: u64 },
}

/// derived generic struct
#[derive(Debug, Clone, MessageBody)]
pub struct G<T> {
    a: T,
    b: Option<T>,
    v: Vec<T>,
}

#[derive(Debug, Clone, MessageBody)]
pub struct P2 {
    x: u16,
    y: u16,
}

/// nested derived struct
#[derive(Debug, Clone, MessageBody)]
pub struct Nest {
    p: P2,
    e: En,
    l: Vec<En>,
    o: Option<G<u8>>,
    r: Result<(), String>,
}

/// derived struct with fixed-size array fields whose elements have value-dependent lengths
#[derive(Debug, Clone, MessageBody)]
pub struct Sa {
    a: [String; 2],
    b: [Option<u16>; 3],
    tr: Tr,
}

/// derived struct whose fields are containers with value-independent, layout-dependent storage
#[derive(Debug, Clone, MessageBody)]
pub struct Sd {
    d: VecDeque<String>,
    m: HashMap<u8, String>,
    q: Option<VecDeque<u32>>,
    tr: Tr,
}

/// fieldless derived enum: one byte in memory, declares 0 bytes
#[derive(Debug, Clone, Copy, PartialEq, Eq, Hash, PartialOrd, Ord, MessageBody)]
pub enum Flag {
    A,
    B,
    C,
}

/// one byte in memory, hand-written declared length 2
#[derive(Debug, Clone, Copy, PartialEq, Eq, Hash, PartialOrd, Ord)]
pub struct Word(u8);
impl MessageBody for Word {
    fn byte_len(&self) -> usize {
        2
    }
}

/// derived struct whose collections hold one-byte elements with other declared lengths
#[derive(Debug, Clone, MessageBody)]
pub struct S1 {
    f: Vec<Flag>,
    o: VecDeque<Option<bool>>,
    w: [Word; 2],
    l: LinkedList<Flag>,
    b: Vec<bool>,
    tr: Tr,
}

/// derived enum whose variants carry arrays
#[derive(Debug, Clone, MessageBody)]
pub enum Ea {
    U([Vec<u8>; 2], u8),
    N { x: [String; 2], o: [Option<Box<String>>; 2] },
    E([String; 0]),
}

pub trait Fam: Sized + 'static {
    fn from_v(v: &V) -> Option<Self>;
    fn to_v(&self) -> V;
    fn arb(r: &mut Rng) -> Self;
}

macro_rules! fam_int {
    ($($t:ty),*) => {$(
        impl Fam for $t {
            fn from_v(v: &V) -> Option<Self> {
                match v { V::P(s, n) if *s == std::mem::size_of::<$t>() => Some(*n as $t), _ => None }
            }
            fn to_v(&self) -> V { V::P(std::mem::size_of::<$t>(), (*self as u128) & (u128::MAX >> (128 - 8 * std::mem::size_of::<$t>()))) }
            fn arb(r: &mut Rng) -> Self {
                match r.below(4) { 0 => 0 as $t, 1 => <$t>::MAX, 2 => r.below(256) as $t, _ => r.next() as $t }
            }
        }
    )*};
}
fam_int!(u8, u16, u32, u64, u128, usize, i8, i16, i32, i64, i128, isize);

impl Fam for f32 {
    fn from_v(v: &V) -> Option<Self> {
        match v {
            V::P(4, n) => Some(f32::from_bits(*n as u32)),
            _ => None,
        }
    }
    fn to_v(&self) -> V {
        V::P(4, self.to_bits() as u128)
    }
    fn arb(r: &mut Rng) -> Self {
        f32::from_bits(u32::arb(r))
    }
}
impl Fam for f64 {
    fn from_v(v: &V) -> Option<Self> {
        match v {
            V::P(8, n) => Some(f64::from_bits(*n as u64)),
            _ => None,
        }
    }
    fn to_v(&self) -> V {
        V::P(8, self.to_bits() as u128)
    }
    fn arb(r: &mut Rng) -> Self {
        f64::from_bits(u64::arb(r))
    }
}
impl Fam for bool {
    fn from_v(v: &V) -> Option<Self> {
        match v {
            V::P(1, n) if *n < 2 => Some(*n == 1),
            _ => None,
        }
    }
    fn to_v(&self) -> V {
        V::P(1, *self as u128)
    }
    fn arb(r: &mut Rng) -> Self {
        r.chance(1, 2)
    }
}
impl Fam for char {
    fn from_v(v: &V) -> Option<Self> {
        match v {
            V::P(4, n) => char::from_u32(*n as u32),
            _ => None,
        }
    }
    fn to_v(&self) -> V {
        V::P(4, *self as u128)
    }
    fn arb(r: &mut Rng) -> Self {
        *r.pick(&['a', 'Z', '\0', 'ß', '€', '😀', '\u{10FFFF}'])
    }
}
impl Fam for () {
    fn from_v(v: &V) -> Option<Self> {
        match v {
            V::U => Some(()),
            _ => None,
        }
    }
    fn to_v(&self) -> V {
        V::U
    }
    fn arb(_: &mut Rng) -> Self {}
}
impl Fam for String {
    fn from_v(v: &V) -> Option<Self> {
        match v {
            V::S(b) => {
                let s = String::from_utf8(b.clone()).ok()?;
                match lay() % 3 {
                    0 => Some(s),
                    1 => {
                        let mut t = String::with_capacity(s.len() + 37);
                        t.push_str(&s);
                        Some(t)
                    }
                    _ => {
                        // grown char by char, then some spare room
                        let mut t = String::new();
                        for c in s.chars() {
                            t.push(c);
                        }
                        t.reserve(5);
                        Some(t)
                    }
                }
            }
            _ => None,
        }
    }
    fn to_v(&self) -> V {
        V::S(self.as_bytes().to_vec())
    }
    fn arb(r: &mut Rng) -> Self {
        let n = match r.below(4) {
            0 => 0,
            1 => 1,
            2 => r.below(8),
            _ => r.below(40),
        };
        (0..n).map(|_| char::arb(r)).filter(|c| *c != '\0').collect()
    }
}
impl Fam for &'static str {
    fn from_v(v: &V) -> Option<Self> {
        String::from_v(v).map(|s| &*Box::leak(s.into_boxed_str()))
    }
    fn to_v(&self) -> V {
        V::S(self.as_bytes().to_vec())
    }
    fn arb(r: &mut Rng) -> Self {
        *r.pick(&["", "x", "Hello World", "Hello World😀", "äöü"])
    }
}
impl<T: Fam, const N: usize> Fam for [T; N] {
    fn from_v(v: &V) -> Option<Self> {
        match v {
            V::A(xs) if xs.len() == N => {
                let items: Option<Vec<T>> = xs.iter().map(T::from_v).collect();
                <[T; N]>::try_from(items?).ok()
            }
            _ => None,
        }
    }
    fn to_v(&self) -> V {
        V::A(self.iter().map(Fam::to_v).collect())
    }
    fn arb(r: &mut Rng) -> Self {
        std::array::from_fn(|_| T::arb(r))
    }
}
thread_local! {
    /// layout seed of the value under construction (0 = canonical layout) and the number of
    /// deques that were really built wrapped (second slice non-empty) for it
    static LAY: RefCell<(u64, u64)> = RefCell::new((0, 0));
}
fn lay_set(seed: u64) {
    LAY.with(|l| *l.borrow_mut() = (seed, 0));
}
/// next layout choice; always 0 for the canonical layout
fn lay() -> u64 {
    LAY.with(|l| {
        let mut l = l.borrow_mut();
        if l.0 == 0 {
            0
        } else {
            let mut r = Rng(l.0);
            let x = r.next();
            l.0 = r.0 | 1;
            x >> 8
        }
    })
}
fn lay_wrapped() -> u64 {
    LAY.with(|l| l.borrow().1)
}
fn arb_len(r: &mut Rng) -> u64 {
    match r.below(4) {
        0 => 0,
        1 => 1,
        _ => r.below(6),
    }
}
impl<T: Fam> Fam for Vec<T> {
    fn from_v(v: &V) -> Option<Self> {
        match v {
            V::L(xs) => {
                let k = lay() % 3;
                let mut out: Vec<T> = if k == 1 { Vec::with_capacity(xs.len() + 9) } else { Vec::new() };
                for x in xs {
                    out.push(T::from_v(x)?);
                }
                if k == 2 {
                    out.shrink_to_fit();
                }
                Some(out)
            }
            _ => None,
        }
    }
    fn to_v(&self) -> V {
        V::L(self.iter().map(Fam::to_v).collect())
    }
    fn arb(r: &mut Rng) -> Self {
        (0..arb_len(r)).map(|_| T::arb(r)).collect()
    }
}
/// equal deques in different ring-buffer layouts: contiguous, split by push_front, or wrapped
/// around the end of the buffer by a sliding window (dummies pushed and popped first)
impl<T: Fam> Fam for VecDeque<T> {
    fn from_v(v: &V) -> Option<Self> {
        let V::L(xs) = v else { return None };
        let n = xs.len();
        let k = lay();
        let d: VecDeque<T> = match k % 4 {
            0 => {
                let items: Option<Vec<T>> = xs.iter().map(T::from_v).collect();
                VecDeque::from(items?)
            }
            1 if n >= 2 => {
                // the tail is pushed to the back, the head to the front: the head part lives at
                // the end of the buffer, the tail part at its start
                let j = 1 + (k / 4) as usize % (n - 1);
                let mut d = VecDeque::new();
                for x in &xs[j..] {
                    d.push_back(T::from_v(x)?);
                }
                for x in xs[..j].iter().rev() {
                    d.push_front(T::from_v(x)?);
                }
                d
            }
            2 if n >= 2 => {
                // sliding window on a full buffer
                let mut d: VecDeque<T> = VecDeque::with_capacity(n);
                let cap = d.capacity();
                let j = 1 + (k / 4) as usize % (n - 1);
                let dummies = cap - n + j;
                for i in 0..dummies {
                    d.push_back(T::from_v(&xs[i % n])?);
                }
                for _ in 0..dummies {
                    d.pop_front();
                }
                for x in xs {
                    d.push_back(T::from_v(x)?);
                }
                d
            }
            _ => {
                let mut d = VecDeque::with_capacity(n + 11);
                for x in xs.iter().rev() {
                    d.push_front(T::from_v(x)?);
                }
                d
            }
        };
        if !d.as_slices().1.is_empty() {
            LAY.with(|l| l.borrow_mut().1 += 1);
        }
        Some(d)
    }
    fn to_v(&self) -> V {
        V::L(self.iter().map(Fam::to_v).collect())
    }
    fn arb(r: &mut Rng) -> Self {
        let mut d: VecDeque<T> = VecDeque::new();
        for _ in 0..arb_len(r) {
            if r.chance(1, 2) {
                d.push_back(T::arb(r))
            } else {
                d.push_front(T::arb(r))
            }
        }
        d
    }
}
impl<K: Fam + Ord, X: Fam> Fam for BTreeMap<K, X> {
    fn from_v(v: &V) -> Option<Self> {
        match v {
            V::L(xs) => {
                let mut m = BTreeMap::new();
                let k = lay() as usize;
                let n = xs.len();
                // same entries, different insertion orders (rotated / reversed)
                let order: Vec<usize> = (0..n).map(|i| if k % 2 == 1 { n - 1 - (i + k / 2) % n } else { (i + k / 2) % n }).collect();
                for x in order.iter().map(|i| &xs[*i]) {
                    match x {
                        V::T(kv) if kv.len() == 2 => {
                            if m.insert(K::from_v(&kv[0])?, X::from_v(&kv[1])?).is_some() {
                                return None;
                            }
                        }
                        _ => return None,
                    }
                }
                Some(m)
            }
            _ => None,
        }
    }
    fn to_v(&self) -> V {
        V::L(self.iter().map(|(k, x)| V::T(vec![k.to_v(), x.to_v()])).collect())
    }
    fn arb(r: &mut Rng) -> Self {
        (0..arb_len(r)).map(|_| (K::arb(r), X::arb(r))).collect()
    }
}
impl<T: Fam> Fam for LinkedList<T> {
    fn from_v(v: &V) -> Option<Self> {
        let xs = Vec::<T>::from_v(v)?;
        let mut l = LinkedList::new();
        if lay() % 2 == 1 {
            for x in xs.into_iter().rev() {
                l.push_front(x);
            }
        } else {
            l.extend(xs);
        }
        Some(l)
    }
    fn to_v(&self) -> V {
        V::L(self.iter().map(Fam::to_v).collect())
    }
    fn arb(r: &mut Rng) -> Self {
        Vec::<T>::arb(r).into_iter().collect()
    }
}
impl<T: Fam> Fam for &'static [T] {
    fn from_v(v: &V) -> Option<Self> {
        Vec::<T>::from_v(v).map(|x| &*Box::leak(x.into_boxed_slice()))
    }
    fn to_v(&self) -> V {
        V::L(self.iter().map(Fam::to_v).collect())
    }
    fn arb(r: &mut Rng) -> Self {
        &*Box::leak(Vec::<T>::arb(r).into_boxed_slice())
    }
}
/// hash maps / sets / heaps are rendered sorted (their iteration order is not observable in a sum)
impl<K: Fam + Ord + std::hash::Hash + Eq, X: Fam> Fam for HashMap<K, X> {
    fn from_v(v: &V) -> Option<Self> {
        let m = BTreeMap::<K, X>::from_v(v)?;
        let k = lay();
        let mut h: HashMap<K, X> = if k % 2 == 1 { HashMap::with_capacity(64 + (k % 100) as usize) } else { HashMap::new() };
        if k % 4 >= 2 {
            for (a, b) in m.into_iter().rev() {
                h.insert(a, b);
            }
        } else {
            h.extend(m);
        }
        Some(h)
    }
    fn to_v(&self) -> V {
        let mut kv: Vec<(&K, &X)> = self.iter().collect();
        kv.sort_by(|a, b| a.0.cmp(b.0));
        V::L(kv.into_iter().map(|(k, x)| V::T(vec![k.to_v(), x.to_v()])).collect())
    }
    fn arb(r: &mut Rng) -> Self {
        BTreeMap::<K, X>::arb(r).into_iter().collect()
    }
}
impl<T: Fam + Ord> Fam for BTreeSet<T> {
    fn from_v(v: &V) -> Option<Self> {
        let mut xs = Vec::<T>::from_v(v)?;
        let n = xs.len();
        if lay() % 2 == 1 {
            xs.reverse();
        }
        let mut set: BTreeSet<T> = BTreeSet::new();
        for x in xs {
            set.insert(x);
        }
        if set.len() == n {
            Some(set)
        } else {
            None
        }
    }
    fn to_v(&self) -> V {
        V::L(self.iter().map(Fam::to_v).collect())
    }
    fn arb(r: &mut Rng) -> Self {
        Vec::<T>::arb(r).into_iter().collect()
    }
}
impl<T: Fam + Ord + std::hash::Hash> Fam for HashSet<T> {
    fn from_v(v: &V) -> Option<Self> {
        let b = BTreeSet::<T>::from_v(v)?;
        let k = lay();
        let mut h: HashSet<T> = if k % 2 == 1 { HashSet::with_capacity(32 + (k % 50) as usize) } else { HashSet::new() };
        if k % 4 >= 2 {
            for x in b.into_iter().rev() {
                h.insert(x);
            }
        } else {
            h.extend(b);
        }
        Some(h)
    }
    fn to_v(&self) -> V {
        let mut xs: Vec<&T> = self.iter().collect();
        xs.sort();
        V::L(xs.into_iter().map(Fam::to_v).collect())
    }
    fn arb(r: &mut Rng) -> Self {
        Vec::<T>::arb(r).into_iter().collect()
    }
}
impl<T: Fam + Ord> Fam for BinaryHeap<T> {
    fn from_v(v: &V) -> Option<Self> {
        let mut xs = Vec::<T>::from_v(v)?;
        match lay() % 3 {
            0 => Some(xs.into_iter().collect()),
            k => {
                if k == 2 {
                    xs.reverse();
                }
                let mut h = BinaryHeap::with_capacity(xs.len() + 3);
                for x in xs {
                    h.push(x);
                }
                Some(h)
            }
        }
    }
    fn to_v(&self) -> V {
        let mut xs: Vec<&T> = self.iter().collect();
        xs.sort();
        V::L(xs.into_iter().map(Fam::to_v).collect())
    }
    fn arb(r: &mut Rng) -> Self {
        Vec::<T>::arb(r).into_iter().collect()
    }
}
impl<T: Fam> Fam for Option<T> {
    fn from_v(v: &V) -> Option<Self> {
        match v {
            V::N => Some(None),
            V::J(x) => Some(Some(T::from_v(x)?)),
            _ => None,
        }
    }
    fn to_v(&self) -> V {
        match self {
            None => V::N,
            Some(x) => V::J(Box::new(x.to_v())),
        }
    }
    fn arb(r: &mut Rng) -> Self {
        if r.chance(1, 3) {
            None
        } else {
            Some(T::arb(r))
        }
    }
}
impl<T: Fam, E: Fam> Fam for Result<T, E> {
    fn from_v(v: &V) -> Option<Self> {
        match v {
            V::K(x) => Some(Ok(T::from_v(x)?)),
            V::E(x) => Some(Err(E::from_v(x)?)),
            _ => None,
        }
    }
    fn to_v(&self) -> V {
        match self {
            Ok(x) => V::K(Box::new(x.to_v())),
            Err(x) => V::E(Box::new(x.to_v())),
        }
    }
    fn arb(r: &mut Rng) -> Self {
        if r.chance(1, 2) {
            Ok(T::arb(r))
        } else {
            Err(E::arb(r))
        }
    }
}
macro_rules! fam_tuple {
    ($n:expr; $($name:ident : $idx:tt),+) => {
        impl<$($name: Fam),+> Fam for ($($name,)+) {
            fn from_v(v: &V) -> Option<Self> {
                match v {
                    V::T(xs) if xs.len() == $n => Some(($($name::from_v(&xs[$idx])?,)+)),
                    _ => None,
                }
            }
            fn to_v(&self) -> V {
                V::T(vec![$(self.$idx.to_v()),+])
            }
            fn arb(r: &mut Rng) -> Self {
                ($($name::arb(r),)+)
            }
        }
    };
}
fam_tuple!(1; A:0);
fam_tuple!(2; A:0, B:1);
fam_tuple!(3; A:0, B:1, C:2);
fam_tuple!(7; A:0, B:1, C:2, D:3, E:4, F:5, G:6);
fam_tuple!(10; A:0, B:1, C:2, D:3, E:4, F:5, G:6, H:7, I:8, J:9);
impl<T: Fam> Fam for Box<T> {
    fn from_v(v: &V) -> Option<Self> {
        match v {
            V::B(x) => Some(Box::new(T::from_v(x)?)),
            _ => None,
        }
    }
    fn to_v(&self) -> V {
        V::B(Box::new((**self).to_v()))
    }
    fn arb(r: &mut Rng) -> Self {
        Box::new(T::arb(r))
    }
}
impl Fam for Ipv4Addr {
    fn from_v(v: &V) -> Option<Self> {
        match v {
            V::F(4, n) => Some(Ipv4Addr::from(*n as u32)),
            _ => None,
        }
    }
    fn to_v(&self) -> V {
        V::F(4, u32::from(*self) as u128)
    }
    fn arb(r: &mut Rng) -> Self {
        Ipv4Addr::from(u32::arb(r))
    }
}
impl Fam for Ipv6Addr {
    fn from_v(v: &V) -> Option<Self> {
        match v {
            V::F(16, n) => Some(Ipv6Addr::from(*n)),
            _ => None,
        }
    }
    fn to_v(&self) -> V {
        V::F(16, u128::from(*self))
    }
    fn arb(r: &mut Rng) -> Self {
        Ipv6Addr::from(u128::arb(r))
    }
}
/// `IpAddr`: `match self { V4(v4) => v4.byte_len(), V6(v6) => v6.byte_len() }`
impl Fam for IpAddr {
    fn from_v(v: &V) -> Option<Self> {
        match v {
            V::En(0, xs) if xs.len() == 1 => Some(IpAddr::V4(Fam::from_v(&xs[0])?)),
            V::En(1, xs) if xs.len() == 1 => Some(IpAddr::V6(Fam::from_v(&xs[0])?)),
            _ => None,
        }
    }
    fn to_v(&self) -> V {
        match self {
            IpAddr::V4(a) => V::En(0, vec![a.to_v()]),
            IpAddr::V6(a) => V::En(1, vec![a.to_v()]),
        }
    }
    fn arb(r: &mut Rng) -> Self {
        if r.chance(1, 2) {
            IpAddr::V4(Fam::arb(r))
        } else {
            IpAddr::V6(Fam::arb(r))
        }
    }
}
fn port_of(v: &V) -> Option<u16> {
    match v {
        V::F(2, n) => Some(*n as u16),
        _ => None,
    }
}
/// `SocketAddrV4`: `4 + 2`, rendered as the pair (address, port)
impl Fam for SocketAddrV4 {
    fn from_v(v: &V) -> Option<Self> {
        match v {
            V::T(xs) if xs.len() == 2 => Some(SocketAddrV4::new(Fam::from_v(&xs[0])?, port_of(&xs[1])?)),
            _ => None,
        }
    }
    fn to_v(&self) -> V {
        V::T(vec![self.ip().to_v(), V::F(2, self.port() as u128)])
    }
    fn arb(r: &mut Rng) -> Self {
        SocketAddrV4::new(Fam::arb(r), u16::arb(r))
    }
}
/// `SocketAddrV6`: `16 + 2` (flowinfo / scope id fixed to 0)
impl Fam for SocketAddrV6 {
    fn from_v(v: &V) -> Option<Self> {
        match v {
            V::T(xs) if xs.len() == 2 => Some(SocketAddrV6::new(Fam::from_v(&xs[0])?, port_of(&xs[1])?, 0, 0)),
            _ => None,
        }
    }
    fn to_v(&self) -> V {
        V::T(vec![self.ip().to_v(), V::F(2, self.port() as u128)])
    }
    fn arb(r: &mut Rng) -> Self {
        SocketAddrV6::new(Fam::arb(r), u16::arb(r), 0, 0)
    }
}
impl Fam for SocketAddr {
    fn from_v(v: &V) -> Option<Self> {
        match v {
            V::En(0, xs) if xs.len() == 1 => Some(SocketAddr::V4(Fam::from_v(&xs[0])?)),
            V::En(1, xs) if xs.len() == 1 => Some(SocketAddr::V6(Fam::from_v(&xs[0])?)),
            _ => None,
        }
    }
    fn to_v(&self) -> V {
        match self {
            SocketAddr::V4(a) => V::En(0, vec![a.to_v()]),
            SocketAddr::V6(a) => V::En(1, vec![a.to_v()]),
        }
    }
    fn arb(r: &mut Rng) -> Self {
        if r.chance(1, 2) {
            SocketAddr::V4(Fam::arb(r))
        } else {
            SocketAddr::V6(Fam::arb(r))
        }
    }
}
impl Fam for SimTime {
    fn from_v(v: &V) -> Option<Self> {
        match v {
            V::F(16, _) => Duration::from_v(v).map(SimTime::from_duration),
            _ => None,
        }
    }
    fn to_v(&self) -> V {
        V::F(16, (**self).as_nanos())
    }
    fn arb(r: &mut Rng) -> Self {
        SimTime::from_duration(Duration::arb(r))
    }
}
impl Fam for Duration {
    fn from_v(v: &V) -> Option<Self> {
        match v {
            V::F(16, n) => Some(Duration::new((*n / 1_000_000_000) as u64, (*n % 1_000_000_000) as u32)),
            _ => None,
        }
    }
    fn to_v(&self) -> V {
        V::F(16, self.as_nanos())
    }
    fn arb(r: &mut Rng) -> Self {
        Duration::new(u64::arb(r), r.below(1_000_000_000) as u32)
    }
}
impl Fam for Tr {
    fn from_v(v: &V) -> Option<Self> {
        match v {
            V::F(0, 0) => Some(Tr::new()),
            _ => None,
        }
    }
    fn to_v(&self) -> V {
        V::F(0, 0)
    }
    fn arb(_: &mut Rng) -> Self {
        Tr::new()
    }
}
impl<T: Fam> Fam for W<T> {
    fn from_v(v: &V) -> Option<Self> {
        match v {
            V::R(xs) if xs.len() == 2 => {
                let inner = T::from_v(&xs[0])?;
                Some(W { inner, tr: Tr::from_v(&xs[1])? })
            }
            _ => None,
        }
    }
    fn to_v(&self) -> V {
        V::R(vec![self.inner.to_v(), self.tr.to_v()])
    }
    fn arb(r: &mut Rng) -> Self {
        W { inner: T::arb(r), tr: Tr::new() }
    }
}
impl Fam for Nc {
    fn from_v(v: &V) -> Option<Self> {
        match v {
            V::R(xs) if xs.len() == 2 => {
                let v = u32::from_v(&xs[0])?;
                Some(Nc { v, tr: Tr::from_v(&xs[1])? })
            }
            _ => None,
        }
    }
    fn to_v(&self) -> V {
        V::R(vec![self.v.to_v(), self.tr.to_v()])
    }
    fn arb(r: &mut Rng) -> Self {
        Nc { v: u32::arb(r), tr: Tr::new() }
    }
}
impl Fam for Pt {
    fn from_v(v: &V) -> Option<Self> {
        match v {
            V::R(xs) if xs.len() == 3 => {
                let (x, y) = (u32::from_v(&xs[0])?, u32::from_v(&xs[1])?);
                Some(Pt { x, y, tr: Tr::from_v(&xs[2])? })
            }
            _ => None,
        }
    }
    fn to_v(&self) -> V {
        V::R(vec![self.x.to_v(), self.y.to_v(), self.tr.to_v()])
    }
    fn arb(r: &mut Rng) -> Self {
        Pt { x: u32::arb(r), y: u32::arb(r), tr: Tr::new() }
    }
}
impl Fam for Ts {
    fn from_v(v: &V) -> Option<Self> {
        match v {
            V::R(xs) if xs.len() == 3 => {
                let (a, b) = (u8::from_v(&xs[0])?, String::from_v(&xs[1])?);
                Some(Ts(a, b, Tr::from_v(&xs[2])?))
            }
            _ => None,
        }
    }
    fn to_v(&self) -> V {
        V::R(vec![self.0.to_v(), self.1.to_v(), self.2.to_v()])
    }
    fn arb(r: &mut Rng) -> Self {
        Ts(u8::arb(r), String::arb(r), Tr::new())
    }
}
impl Fam for Sa {
    fn from_v(v: &V) -> Option<Self> {
        match v {
            V::R(xs) if xs.len() == 3 => {
                let (a, b) = (Fam::from_v(&xs[0])?, Fam::from_v(&xs[1])?);
                Some(Sa { a, b, tr: Tr::from_v(&xs[2])? })
            }
            _ => None,
        }
    }
    fn to_v(&self) -> V {
        V::R(vec![self.a.to_v(), self.b.to_v(), self.tr.to_v()])
    }
    fn arb(r: &mut Rng) -> Self {
        Sa { a: Fam::arb(r), b: Fam::arb(r), tr: Tr::new() }
    }
}
impl Fam for Sd {
    fn from_v(v: &V) -> Option<Self> {
        match v {
            V::R(xs) if xs.len() == 4 => {
                let (d, m, q) = (Fam::from_v(&xs[0])?, Fam::from_v(&xs[1])?, Fam::from_v(&xs[2])?);
                Some(Sd { d, m, q, tr: Tr::from_v(&xs[3])? })
            }
            _ => None,
        }
    }
    fn to_v(&self) -> V {
        V::R(vec![self.d.to_v(), self.m.to_v(), self.q.to_v(), self.tr.to_v()])
    }
    fn arb(r: &mut Rng) -> Self {
        Sd { d: Fam::arb(r), m: Fam::arb(r), q: Fam::arb(r), tr: Tr::new() }
    }
}
impl Fam for Flag {
    fn from_v(v: &V) -> Option<Self> {
        match v {
            V::En(0, xs) if xs.is_empty() => Some(Flag::A),
            V::En(1, xs) if xs.is_empty() => Some(Flag::B),
            V::En(2, xs) if xs.is_empty() => Some(Flag::C),
            _ => None,
        }
    }
    fn to_v(&self) -> V {
        V::En(*self as usize, vec![])
    }
    fn arb(r: &mut Rng) -> Self {
        *r.pick(&[Flag::A, Flag::B, Flag::C])
    }
}
impl Fam for Word {
    fn from_v(v: &V) -> Option<Self> {
        match v {
            V::F(2, n) if *n < 256 => Some(Word(*n as u8)),
            _ => None,
        }
    }
    fn to_v(&self) -> V {
        V::F(2, self.0 as u128)
    }
    fn arb(r: &mut Rng) -> Self {
        Word(u8::arb(r))
    }
}
impl Fam for S1 {
    fn from_v(v: &V) -> Option<Self> {
        match v {
            V::R(xs) if xs.len() == 6 => {
                let (f, o, w, l, b) =
                    (Fam::from_v(&xs[0])?, Fam::from_v(&xs[1])?, Fam::from_v(&xs[2])?, Fam::from_v(&xs[3])?, Fam::from_v(&xs[4])?);
                Some(S1 { f, o, w, l, b, tr: Tr::from_v(&xs[5])? })
            }
            _ => None,
        }
    }
    fn to_v(&self) -> V {
        V::R(vec![self.f.to_v(), self.o.to_v(), self.w.to_v(), self.l.to_v(), self.b.to_v(), self.tr.to_v()])
    }
    fn arb(r: &mut Rng) -> Self {
        S1 { f: Fam::arb(r), o: Fam::arb(r), w: Fam::arb(r), l: Fam::arb(r), b: Fam::arb(r), tr: Tr::new() }
    }
}
impl Fam for Ea {
    fn from_v(v: &V) -> Option<Self> {
        match v {
            V::En(0, xs) if xs.len() == 2 => Some(Ea::U(Fam::from_v(&xs[0])?, Fam::from_v(&xs[1])?)),
            V::En(1, xs) if xs.len() == 2 => Some(Ea::N { x: Fam::from_v(&xs[0])?, o: Fam::from_v(&xs[1])? }),
            V::En(2, xs) if xs.len() == 1 => Some(Ea::E(Fam::from_v(&xs[0])?)),
            _ => None,
        }
    }
    fn to_v(&self) -> V {
        match self {
            Ea::U(a, b) => V::En(0, vec![a.to_v(), b.to_v()]),
            Ea::N { x, o } => V::En(1, vec![x.to_v(), o.to_v()]),
            Ea::E(a) => V::En(2, vec![a.to_v()]),
        }
    }
    fn arb(r: &mut Rng) -> Self {
        match r.below(5) {
            0 | 1 => Ea::U(Fam::arb(r), Fam::arb(r)),
            2 | 3 => Ea::N { x: Fam::arb(r), o: Fam::arb(r) },
            _ => Ea::E([]),
        }
    }
}
impl Fam for Z {
    fn from_v(v: &V) -> Option<Self> {
        match v {
            V::R(xs) if xs.is_empty() => Some(Z::new()),
            _ => None,
        }
    }
    fn to_v(&self) -> V {
        V::R(vec![])
    }
    fn arb(_: &mut Rng) -> Self {
        Z::new()
    }
}
impl Fam for En {
    fn from_v(v: &V) -> Option<Self> {
        match v {
            V::En(0, xs) if xs.is_empty() => Some(En::A),
            V::En(1, xs) if xs.len() == 2 => Some(En::B(u32::from_v(&xs[0])?, u8::from_v(&xs[1])?)),
            V::En(2, xs) if xs.len() == 2 => Some(En::C { s: String::from_v(&xs[0])?, n: u64::from_v(&xs[1])? }),
            _ => None,
        }
    }
    fn to_v(&self) -> V {
        match self {
            En::A => V::En(0, vec![]),
            En::B(a, b) => V::En(1, vec![a.to_v(), b.to_v()]),
            En::C { s, n } => V::En(2, vec![s.to_v(), n.to_v()]),
        }
    }
    fn arb(r: &mut Rng) -> Self {
        match r.below(3) {
            0 => En::A,
            1 => En::B(u32::arb(r), u8::arb(r)),
            _ => En::C { s: String::arb(r), n: u64::arb(r) },
        }
    }
}
impl<T: Fam> Fam for G<T> {
    fn from_v(v: &V) -> Option<Self> {
        match v {
            V::R(xs) if xs.len() == 3 => Some(G { a: T::from_v(&xs[0])?, b: Fam::from_v(&xs[1])?, v: Fam::from_v(&xs[2])? }),
            _ => None,
        }
    }
    fn to_v(&self) -> V {
        V::R(vec![self.a.to_v(), self.b.to_v(), self.v.to_v()])
    }
    fn arb(r: &mut Rng) -> Self {
        G { a: T::arb(r), b: Fam::arb(r), v: Fam::arb(r) }
    }
}
impl Fam for P2 {
    fn from_v(v: &V) -> Option<Self> {
        match v {
            V::R(xs) if xs.len() == 2 => Some(P2 { x: u16::from_v(&xs[0])?, y: u16::from_v(&xs[1])? }),
            _ => None,
        }
    }
    fn to_v(&self) -> V {
        V::R(vec![self.x.to_v(), self.y.to_v()])
    }
    fn arb(r: &mut Rng) -> Self {
        P2 { x: u16::arb(r), y: u16::arb(r) }
    }
}
impl Fam for Nest {
    fn from_v(v: &V) -> Option<Self> {
        match v {
            V::R(xs) if xs.len() == 5 => Some(Nest {
                p: Fam::from_v(&xs[0])?,
                e: Fam::from_v(&xs[1])?,
                l: Fam::from_v(&xs[2])?,
                o: Fam::from_v(&xs[3])?,
                r: Fam::from_v(&xs[4])?,
            }),
            _ => None,
        }
    }
    fn to_v(&self) -> V {
        V::R(vec![self.p.to_v(), self.e.to_v(), self.l.to_v(), self.o.to_v(), self.r.to_v()])
    }
    fn arb(r: &mut Rng) -> Self {
        Nest { p: Fam::arb(r), e: Fam::arb(r), l: Fam::arb(r), o: Fam::arb(r), r: Fam::arb(r) }
    }
}

/// the family: name -> type.  Groups of layout-compatible types (same size and alignment):
/// {u32 a4 f32 i32 char ncu32}, {u64 a8 f64 pt}, {str vecu8 vecstr}, {unit zst}.
/// `twa`/`twb`/`twc` (see `twins`) are distinct types with one and the same `type_name`.
/// Every `MessageBody` impl of body.rs has at least one representative (arrays `[T; N]` also with
/// elements of value-dependent length: astr3 aopt4 avec2 sarr earr).
macro_rules! with_clonable_ty {
    ($name:expr, $T:ident => $body:expr, _ => $none:expr) => {
        match $name {
            "u32" => { type $T = W<u32>; $body }
            "a4" => { type $T = W<[u8; 4]>; $body }
            "f32" => { type $T = W<f32>; $body }
            "i32" => { type $T = W<i32>; $body }
            "char" => { type $T = W<char>; $body }
            "u64" => { type $T = W<u64>; $body }
            "a8" => { type $T = W<[u8; 8]>; $body }
            "f64" => { type $T = W<f64>; $body }
            "pt" => { type $T = Pt; $body }
            "boxu64" => { type $T = W<Box<u64>>; $body }
            "u8" => { type $T = W<u8>; $body }
            "bool" => { type $T = W<bool>; $body }
            "unit" => { type $T = W<()>; $body }
            "zst" => { type $T = Z; $body }
            "str" => { type $T = W<String>; $body }
            "sstr" => { type $T = W<&'static str>; $body }
            "vecu8" => { type $T = W<Vec<u8>>; $body }
            "vecstr" => { type $T = W<Vec<String>>; $body }
            "deq" => { type $T = W<VecDeque<u16>>; $body }
            "map" => { type $T = W<BTreeMap<u8, String>>; $body }
            "optu32" => { type $T = W<Option<u32>>; $body }
            "optstr" => { type $T = W<Option<String>>; $body }
            "res" => { type $T = W<Result<String, u8>>; $body }
            "tup" => { type $T = W<(u16, String)>; $body }
            "ts" => { type $T = Ts; $body }
            "en" => { type $T = W<En>; $body }
            "gstr" => { type $T = W<G<String>>; $body }
            "gu8" => { type $T = W<G<u8>>; $body }
            "nest" => { type $T = W<Nest>; $body }
            "ip" => { type $T = W<Ipv4Addr>; $body }
            "dur" => { type $T = W<Duration>; $body }
            "vflag" => { type $T = W<Vec<Flag>>; $body }
            "vob" => { type $T = W<Vec<Option<bool>>>; $body }
            "vword" => { type $T = W<Vec<Word>>; $body }
            "vunit" => { type $T = W<Vec<()>>; $body }
            "dflag" => { type $T = W<VecDeque<Flag>>; $body }
            "dob" => { type $T = W<VecDeque<Option<bool>>>; $body }
            "aob3" => { type $T = W<[Option<bool>; 3]>; $body }
            "aword4" => { type $T = W<[Word; 4]>; $body }
            "slflag" => { type $T = W<&'static [Flag]>; $body }
            "hsob" => { type $T = W<HashSet<Option<bool>>>; $body }
            "bsflag" => { type $T = W<BTreeSet<Flag>>; $body }
            "s1b" => { type $T = S1; $body }
            "deqs" => { type $T = W<VecDeque<String>>; $body }
            "sdeq" => { type $T = Sd; $body }
            "astr3" => { type $T = W<[String; 3]>; $body }
            "aopt4" => { type $T = W<[Option<u32>; 4]>; $body }
            "avec2" => { type $T = W<[Vec<u8>; 2]>; $body }
            "sarr" => { type $T = Sa; $body }
            "earr" => { type $T = W<Ea>; $body }
            "ints" => { type $T = W<(u128, i128, usize, isize, i8, i16, i64)>; $body }
            "tup1" => { type $T = W<(String,)>; $body }
            "tup3" => { type $T = W<(String, Option<String>, Vec<String>)>; $body }
            "tup10" => { type $T = W<(u8, String, u16, Option<u8>, u32, Vec<u8>, u64, bool, char, ())>; $body }
            "ll" => { type $T = W<LinkedList<String>>; $body }
            "slice" => { type $T = W<&'static [String]>; $body }
            "hmap" => { type $T = W<HashMap<u16, String>>; $body }
            "hset" => { type $T = W<HashSet<String>>; $body }
            "bset" => { type $T = W<BTreeSet<String>>; $body }
            "heap" => { type $T = W<BinaryHeap<String>>; $body }
            "ip6" => { type $T = W<Ipv6Addr>; $body }
            "ipaddr" => { type $T = W<IpAddr>; $body }
            "sa4" => { type $T = W<SocketAddrV4>; $body }
            "sa6" => { type $T = W<SocketAddrV6>; $body }
            "sa" => { type $T = W<SocketAddr>; $body }
            "simtime" => { type $T = W<SimTime>; $body }
            "oo" => { type $T = W<Option<Option<String>>>; $body }
            "res2" => { type $T = W<Result<Vec<u8>, String>>; $body }
            "boxstr" => { type $T = W<Box<Option<String>>>; $body }
            _ => $none,
        }
    };
}
macro_rules! with_ty {
    ($name:expr, $T:ident => $body:expr, _ => $none:expr) => {
        match $name {
            "ncu32" => { type $T = Nc; $body }
            other => with_clonable_ty!(other, $T => $body, _ => $none),
        }
    };
}

const CLONABLE: [&str; 72] = [
    "vflag", "vob", "vword", "vunit", "dflag", "dob", "aob3", "aword4", "slflag", "hsob", "bsflag", "s1b", "twa", "twb", "twc",
    "deqs", "sdeq",
    "u32", "a4", "f32", "i32", "char", "u64", "a8", "f64", "pt", "boxu64", "u8", "bool", "unit", "zst", "str", "sstr",
    "vecu8", "vecstr", "deq", "map", "optu32", "optstr", "res", "tup", "ts", "en", "gstr", "gu8", "nest", "ip", "dur",
    "astr3", "aopt4", "avec2", "sarr", "earr", "ints", "tup1", "tup3", "tup10", "ll", "slice", "hmap", "hset", "bset",
    "heap", "ip6", "ipaddr", "sa4", "sa6", "sa", "simtime", "oo", "res2", "boxstr",
];
const GROUPS: [&[&str]; 11] = [
    &["twa", "twb", "twc", "twa", "twb", "twc", "u64", "a8", "str"],
    &["vflag", "vob", "vword", "vecu8", "vunit", "dflag", "dob", "slflag", "s1b"],
    &["astr3", "tup3", "sarr", "avec2"],
    &["aopt4", "optu32", "earr", "oo", "res2"],
    &["deq", "deqs", "sdeq", "vecu8", "vecstr"],
    &["ll", "slice", "hmap", "hset", "bset", "heap", "vecstr", "tup1", "boxstr"],
    &["u32", "a4", "f32", "i32", "char", "ncu32"],
    &["u64", "a8", "f64", "pt", "boxu64"],
    &["str", "vecu8", "vecstr", "sstr", "deq"],
    &["unit", "zst"],
    &["optu32", "optstr", "res", "en", "gu8", "gstr", "nest"],
];

/// operations on a body type that cannot be named outside the block that declares it
#[derive(Clone, Copy)]
pub struct Twin {
    arb: fn(&mut Rng) -> String,
    set: fn(&mut Message, &str, &V) -> Option<String>,
    cast: fn(Message) -> Result<String, Message>,
    content: fn(&Message) -> Option<String>,
    content_mut: fn(&mut Message) -> Option<String>,
    can_cast: fn(&Message) -> bool,
    type_name: &'static str,
}

fn content_generic<T: Fam + MessageBody>(m: &Message) -> Option<String> {
    m.try_content::<T>().map(|v| v.to_v().show())
}
fn content_mut_generic<T: Fam + MessageBody>(m: &mut Message) -> Option<String> {
    m.try_content_mut::<T>().map(|v| v.to_v().show())
}
fn can_cast_generic<T: Fam + MessageBody>(m: &Message) -> bool {
    m.can_cast::<T>()
}
fn arb_generic<T: Fam>(r: &mut Rng) -> String {
    T::arb(r).to_v().show()
}
fn twin_of<T: Fam + MessageBody + Clone + std::fmt::Debug + Send>() -> Twin {
    Twin {
        arb: arb_generic::<T>,
        set: set_generic::<T>,
        cast: cast_generic::<T>,
        content: content_generic::<T>,
        content_mut: content_mut_generic::<T>,
        can_cast: can_cast_generic::<T>,
        type_name: std::any::type_name::<T>(),
    }
}

/// three DIFFERENT types that all print as `hx::c16::twins::Payload` (items declared in sibling
/// blocks of one function): `twa` and `twb` are layout-compatible, `twc` owns a heap buffer.
/// Only `TypeId` tells them apart.
fn twins() -> [Twin; 3] {
    let a = {
        #[derive(Debug, Clone, MessageBody)]
        struct Payload {
            v: u64,
            tr: Tr,
        }
        impl Fam for Payload {
            fn from_v(v: &V) -> Option<Self> {
                match v {
                    V::R(xs) if xs.len() == 2 => {
                        let v = u64::from_v(&xs[0])?;
                        Some(Payload { v, tr: Tr::from_v(&xs[1])? })
                    }
                    _ => None,
                }
            }
            fn to_v(&self) -> V {
                V::R(vec![self.v.to_v(), self.tr.to_v()])
            }
            fn arb(r: &mut Rng) -> Self {
                Payload { v: u64::arb(r), tr: Tr::new() }
            }
        }
        twin_of::<Payload>()
    };
    let b = {
        #[derive(Debug, Clone, MessageBody)]
        struct Payload {
            v: [u8; 8],
            tr: Tr,
        }
        impl Fam for Payload {
            fn from_v(v: &V) -> Option<Self> {
                match v {
                    V::R(xs) if xs.len() == 2 => {
                        let v = <[u8; 8]>::from_v(&xs[0])?;
                        Some(Payload { v, tr: Tr::from_v(&xs[1])? })
                    }
                    _ => None,
                }
            }
            fn to_v(&self) -> V {
                V::R(vec![self.v.to_v(), self.tr.to_v()])
            }
            fn arb(r: &mut Rng) -> Self {
                Payload { v: Fam::arb(r), tr: Tr::new() }
            }
        }
        twin_of::<Payload>()
    };
    let c = {
        #[derive(Debug, Clone, MessageBody)]
        struct Payload {
            v: String,
            tr: Tr,
        }
        impl Fam for Payload {
            fn from_v(v: &V) -> Option<Self> {
                match v {
                    V::R(xs) if xs.len() == 2 => {
                        let v = String::from_v(&xs[0])?;
                        Some(Payload { v, tr: Tr::from_v(&xs[1])? })
                    }
                    _ => None,
                }
            }
            fn to_v(&self) -> V {
                V::R(vec![self.v.to_v(), self.tr.to_v()])
            }
            fn arb(r: &mut Rng) -> Self {
                Payload { v: String::arb(r), tr: Tr::new() }
            }
        }
        twin_of::<Payload>()
    };
    [a, b, c]
}

fn twin(ty: &str) -> Option<Twin> {
    let k = match ty {
        "twa" => 0,
        "twb" => 1,
        "twc" => 2,
        _ => return None,
    };
    let t = twins();
    // the premise of these family members: equal names (distinct `TypeId`s are checked by the casts)
    assert!(t[0].type_name == t[1].type_name && t[1].type_name == t[2].type_name, "twin types print different names");
    Some(t[k])
}

/// a hash table with 17..=80 entries of different sizes
fn big_hash_val(ty: &str, r: &mut Rng) -> Option<String> {
    let n = r.range(17, 80) as usize;
    let word = |r: &mut Rng, i: usize| -> V {
        let mut b = format!("{i:02}").into_bytes();
        let extra = match r.below(4) {
            0 => 0,
            1 => r.below(4),
            _ => r.below(60),
        };
        b.extend((0..extra).map(|_| b'a' + r.below(26) as u8));
        V::S(b)
    };
    let items: Vec<V> = match ty {
        "hmap" => (0..n).map(|i| V::T(vec![V::P(2, (i * 7 + 3) as u128), if r.chance(1, 5) { V::S(vec![]) } else { word(r, i) }])).collect(),
        "hset" => (0..n).map(|i| word(r, i)).collect(),
        _ => return None,
    };
    Some(V::R(vec![V::L(items), V::F(0, 0)]).show())
}

fn arb_val(ty: &str, r: &mut Rng) -> Option<String> {
    if let Some(tw) = twin(ty) {
        return Some((tw.arb)(r));
    }
    if (ty == "hmap" || ty == "hset") && r.chance(1, 2) {
        return big_hash_val(ty, r);
    }
    with_ty!(ty, T => Some(<T as Fam>::arb(r).to_v().show()), _ => None)
}

// ------------------------------------------------------------------ generator

fn other_ty(r: &mut Rng, ty: &str) -> &'static str {
    if r.chance(2, 3) {
        for g in GROUPS.iter() {
            if g.contains(&ty) {
                return g[r.below(g.len() as u64) as usize];
            }
        }
    }
    if r.chance(1, 12) {
        "ncu32"
    } else {
        CLONABLE[r.below(CLONABLE.len() as u64) as usize]
    }
}

pub fn gen(seed: u64, count: usize, thorough: bool) -> String {
    let mut r = Rng::new(seed);
    let mut out = String::new();
    for k in 0..count {
        let len = if thorough { r.range(10, 160) } else { r.range(8, 60) };
        writeln!(out, "case {k}").unwrap();
        let ntags = r.range(1, 4) as usize;
        // shadow of the slots (only used to aim the requests): Some(body) = message exists
        let mut sh: Vec<Option<Option<(&'static str, bool)>>> = vec![None; 6];
        for t in 0..ntags {
            writeln!(out, "new m{t} {} {}", r.below(65536), r.below(4)).unwrap();
            sh[t] = Some(None);
        }
        for _ in 0..len {
            let t = r.below(ntags as u64) as usize;
            let held: Option<&'static str> = sh[t].and_then(|b| b.map(|x| x.0));
            let aim = |r: &mut Rng| -> &'static str {
                match held {
                    Some(ty) if r.chance(1, 2) => ty,
                    Some(ty) => other_ty(r, ty),
                    None => CLONABLE[r.below(CLONABLE.len() as u64) as usize],
                }
            };
            let mut x = r.below(20);
            if sh[t].is_none() && r.chance(2, 3) {
                x = 0;
            } else if sh[t] == Some(None) && r.chance(2, 3) {
                x = 1;
            }
            match x {
                0 => {
                    writeln!(out, "new m{t} {} {}", r.below(65536), r.below(4)).unwrap();
                    sh[t] = Some(None);
                }
                1..=4 => {
                    let ty: &'static str = match held {
                        Some(ty) if r.chance(1, 3) => other_ty(&mut r, ty),
                        _ => {
                            if r.chance(1, 10) {
                                "ncu32"
                            } else {
                                CLONABLE[r.below(CLONABLE.len() as u64) as usize]
                            }
                        }
                    };
                    let ctor = if ty == "ncu32" {
                        "nc".to_string()
                    } else {
                        match r.below(10) {
                            0 => "nc".to_string(),
                            1 => {
                                if r.chance(1, 2) {
                                    format!("wl:{}", r.below(3000))
                                } else {
                                    // declared lengths over the whole range in which (64 + n) * 8 fits a usize
                                    let base: u64 = *r.pick(&[1 << 16, (1 << 29) - 64, 1 << 29, 1 << 32, (1 << 32) - 64, 1 << 40, (1 << 53) - 64, 1 << 53, 1 << 60]);
                                    format!("wl:{}", base + r.below(3) - 1)
                                }
                            }
                            2 => "nd".to_string(),
                            _ => "c".to_string(),
                        }
                    };
                    let mut vr = r.fork();
                    let layout = if r.chance(1, 3) { 0 } else { 1 + r.below(1_000_000) };
                    writeln!(out, "set m{t} {ctor} {ty} {} lay={layout}", arb_val(ty, &mut vr).unwrap()).unwrap();
                    if sh[t].is_some() {
                        sh[t] = Some(Some((ty, ctor != "nc")));
                    }
                }
                5..=7 => {
                    let d = r.below(ntags as u64 + 2) as usize;
                    let op = if r.chance(1, 2) { "clone" } else { "tryclone" };
                    writeln!(out, "{op} m{t} m{d}").unwrap();
                    match sh[t] {
                        Some(None) => sh[d] = Some(None),
                        Some(Some((ty, true))) => sh[d] = Some(Some((ty, true))),
                        _ => {}
                    }
                }
                8..=10 => {
                    let ty = aim(&mut r);
                    writeln!(out, "cast m{t} {ty}").unwrap();
                    if held == Some(ty) {
                        sh[t] = None;
                    }
                }
                11..=14 => {
                    let ty = aim(&mut r);
                    let op = if r.chance(1, 4) { "contentmut" } else { "content" };
                    writeln!(out, "{op} m{t} {ty}").unwrap();
                }
                15 => {
                    let ty = aim(&mut r);
                    writeln!(out, "cancast m{t} {ty}").unwrap();
                }
                16..=18 => {
                    let br: u64 = *r.pick(&[8, 8, 1, 3, 7, 1000, 9600, 1_000_000, 1_000_000_000, 8_000_000_000, 100_000_000_000]);
                    writeln!(out, "len m{t} br={br}").unwrap()
                }
                _ => {
                    writeln!(out, "drop m{t}").unwrap();
                    sh[t] = None;
                }
            }
        }
        writeln!(out, "end").unwrap();
    }
    out
}

// ------------------------------------------------------------------ executor

fn set_generic<T>(m: &mut Message, ctor: &str, v: &V) -> Option<String>
where
    T: Fam + MessageBody + Clone + std::fmt::Debug,
{
    let value = T::from_v(v)?;
    if ctor == "c" {
        m.set_content(value);
        Some("ok".into())
    } else if ctor == "nc" {
        m.set_content_non_clonable(value);
        Some("ok".into())
    } else if ctor == "nd" {
        m.set_content_non_debugable(value);
        Some(format!("ok size={}", std::mem::size_of::<T>()))
    } else if let Some(n) = ctor.strip_prefix("wl:") {
        let n: usize = n.parse().ok()?;
        m.set_body(Body::new_with_len(value, n));
        Some("ok".into())
    } else {
        None
    }
}

fn set_nc<T>(m: &mut Message, ctor: &str, v: &V) -> Option<String>
where
    T: Fam + MessageBody + std::fmt::Debug,
{
    if ctor != "nc" {
        return None;
    }
    let value = T::from_v(v)?;
    m.set_content_non_clonable(value);
    Some("ok".into())
}

fn cast_generic<T>(m: Message) -> Result<String, Message>
where
    T: Fam + MessageBody + Send,
{
    match m.try_cast::<T>() {
        Ok((value, header)) => {
            let s = format!("ok {} id={} kind={}", value.to_v().show(), header.id, header.kind);
            drop(value);
            Ok(s)
        }
        Err(m) => Err(m),
    }
}

pub fn exec(input: &str) -> String {
    let mut out = String::new();
    for (header, body) in cases(input) {
        writeln!(out, "{header}").unwrap();
        reg_reset();
        let mut slots: Vec<(String, Message)> = Vec::new();
        for line in body {
            let tok: Vec<&str> = line.split_whitespace().collect();
            let find = |slots: &Vec<(String, Message)>, tag: &str| slots.iter().position(|s| s.0 == tag);
            let res: String = match tok.as_slice() {
                ["new", tag, id, kind] => {
                    let (Ok(id), Ok(kind)) = (id.parse::<u16>(), kind.parse::<u16>()) else { continue };
                    let m = Message::default().id(id).kind(kind);
                    match find(&slots, tag) {
                        Some(k) => slots[k].1 = m,
                        None => slots.push((tag.to_string(), m)),
                    }
                    "ok".into()
                }
                ["set", tag, ctor, ty, val, ..] => {
                    let Some(v) = V::parse(val) else { continue };
                    let layout: u64 = tok.get(5).and_then(|t| t.strip_prefix("lay=")).and_then(|t| t.parse().ok()).unwrap_or(0);
                    lay_set(layout);
                    match find(&slots, tag) {
                        None => "noslot".into(),
                        Some(k) => {
                            let m = &mut slots[k].1;
                            let r = if let Some(tw) = twin(ty) {
                                (tw.set)(m, ctor, &v)
                            } else if *ty == "ncu32" {
                                set_nc::<Nc>(m, ctor, &v)
                            } else {
                                with_clonable_ty!(*ty, T => set_generic::<T>(m, ctor, &v), _ => None)
                            };
                            match r {
                                Some(r) => format!("{r} wr={}", lay_wrapped()),
                                None => continue,
                            }
                        }
                    }
                }
                [op @ ("clone" | "tryclone"), src, dst] => match find(&slots, src) {
                    None => "noslot".into(),
                    Some(k) => {
                        let r = if *op == "clone" {
                            match guarded(|| slots[k].1.clone()) {
                                Ok(m) => Ok(m),
                                Err(_) => Err("panic"),
                            }
                        } else {
                            slots[k].1.try_clone().ok_or("none")
                        };
                        match r {
                            Ok(m) => {
                                match find(&slots, dst) {
                                    Some(d) => slots[d].1 = m,
                                    None => slots.push((dst.to_string(), m)),
                                }
                                "cloned".into()
                            }
                            Err(e) => e.into(),
                        }
                    }
                },
                ["cast", tag, ty] => match find(&slots, tag) {
                    None => "noslot".into(),
                    Some(k) => {
                        let (tg, m) = slots.remove(k);
                        let r: Option<Result<String, Message>> = if let Some(tw) = twin(ty) {
                            Some((tw.cast)(m))
                        } else {
                            with_ty!(*ty, T => Some(cast_generic::<T>(m)), _ => None)
                        };
                        match r {
                            Some(Ok(s)) => s,
                            Some(Err(m)) => {
                                slots.insert(k, (tg, m));
                                "err".into()
                            }
                            None => continue, // unknown type name: the message was dropped by the match arm
                        }
                    }
                },
                [op @ ("content" | "contentmut"), tag, ty] => match find(&slots, tag) {
                    None => "noslot".into(),
                    Some(k) => {
                        let m = &mut slots[k].1;
                        let r: Option<Option<String>> = if let Some(tw) = twin(ty) {
                            Some(if *op == "content" { (tw.content)(m) } else { (tw.content_mut)(m) })
                        } else if *op == "content" {
                            with_ty!(*ty, T => Some(m.try_content::<T>().map(|v| v.to_v().show())), _ => None)
                        } else {
                            with_ty!(*ty, T => Some(m.try_content_mut::<T>().map(|v| v.to_v().show())), _ => None)
                        };
                        match r {
                            Some(Some(s)) => format!("some {s}"),
                            Some(None) => "none".into(),
                            None => continue,
                        }
                    }
                },
                ["cancast", tag, ty] => match find(&slots, tag) {
                    None => "noslot".into(),
                    Some(k) => {
                        let m = &slots[k].1;
                        let r: Option<bool> = if let Some(tw) = twin(ty) {
                            Some((tw.can_cast)(m))
                        } else {
                            with_ty!(*ty, T => Some(m.can_cast::<T>()), _ => None)
                        };
                        match r {
                            Some(b) => format!("{b}"),
                            None => continue,
                        }
                    }
                },
                ["len", tag, ..] => match find(&slots, tag) {
                    None => "noslot".into(),
                    Some(k) => {
                        let m = &slots[k].1;
                        let br: usize = tok.get(2).and_then(|t| t.strip_prefix("br=")).and_then(|t| t.parse().ok()).unwrap_or(8);
                        let metrics = ChannelMetrics::new(br, Duration::ZERO, Duration::ZERO, ChannelDropBehaviour::Drop);
                        match guarded(|| metrics.calculate_busy(m).as_nanos()) {
                            Ok(ns) => format!("len={} busy={ns}", m.length()),
                            Err(_) => format!("len={} busy=panic", m.length()),
                        }
                    }
                },
                ["drop", tag] => match find(&slots, tag) {
                    None => "noslot".into(),
                    Some(k) => {
                        let (_, m) = slots.remove(k);
                        drop(m);
                        "ok".into()
                    }
                },
                _ => continue,
            };
            let (i, d) = totals();
            writeln!(out, "{line} -> {res} i={i} d={d}").unwrap();
        }
        drop(slots);
        let (i, d) = totals();
        let (multi, leaked) = REG.with(|r| {
            let r = r.borrow();
            (r.iter().filter(|c| **c > 1).count(), r.iter().filter(|c| **c == 0).count())
        });
        writeln!(out, "end i={i} d={d} multi={multi} leaked={leaked}").unwrap();
    }
    out
}

//! C18: NDL elaboration is total and the built simulation matches the description.
//!
//! Script lines (one declaration per line, modules named by a tag, so scripts survive deletion;
//! every string is escaped: characters outside `[A-Za-z0-9_()\[\]/<,+-]` are `%<hex>;`, the
//! empty string is `%;`):
//!   entry <sym>
//!   link <name> <latency_ms> <jitter_ms> <bitrate> <queuesize|->
//!   mod <tag> <type clause>                     e.g.  mod m2 G(T%20;<-%20;I)
//!   inherit <tag> <sym>
//!   gate <tag> <field>                          e.g.  gate m2 in[3]
//!   sub <tag> <stag> <field> <type clause>      e.g.  sub m2 s5 host[2] H(C)
//!   conn <tag> <endpoint> <endpoint> <link|->   e.g.  conn m2 host[0]/out sw/in[1] fast
//!   yaml | transform | build
//! Transcript answers:
//!   mod/gate/sub/conn -> ok <canonical dump of the parsed value> | err | panic   (FromStr)
//!   yaml      -> same | differs | err | panic      (serde_yml text -> Def, compared with the Def
//!                                                   assembled from the FromStr results)
//!   transform -> L=<iteration order of the hash maps> R=ok:<tree> | err:<Kind>:<payload>@<span>
//!                | panic | noparse
//!   build     -> L=<…> R=ok:<modules, gates, connection slots, channel metrics>
//!                | err:<Kind>:… | panic | notransform | noparse
use crate::rng::Rng;
use crate::util::{cases, guarded};
use des::net::gate::Connection;
use des::net::module::Module;
use des::net::ndl::Registry;
use des::net::{ObjectPath, Sim};
use des::prelude::GateRef;
use des_net_utils::ndl::def::{
    ConnectionDef, ConnectionEndpointDef, Def, FieldDef, Kardinality, LinkDef, ModuleDef,
    ModuleGenericsDef, TypClause,
};
use des_net_utils::ndl::error::{Error, ErrorKind};
use des_net_utils::ndl::transform;
use des_net_utils::ndl::tree::{ConnectionEndpoint, Node};
use std::fmt::Write;
use std::str::FromStr;
use std::sync::{Arc, Mutex};

// ---------------------------------------------------------------------------------------------
// escaping / canonical dumps
// ---------------------------------------------------------------------------------------------

fn esc_with(s: &str, safe: &str) -> String {
    if s.is_empty() {
        return "%;".to_string();
    }
    let mut o = String::new();
    for c in s.chars() {
        if c.is_ascii_alphanumeric() || c == '_' || safe.contains(c) {
            o.push(c);
        } else {
            write!(o, "%{:x};", c as u32).unwrap();
        }
    }
    o
}
/// escaping of script strings (readable)
fn esc(s: &str) -> String {
    esc_with(s, "()[]/<,+-")
}
/// escaping inside canonical dumps (only identifiers stay)
fn e(s: &str) -> String {
    esc_with(s, "")
}
fn unesc(s: &str) -> String {
    let mut o = String::new();
    let mut it = s.chars();
    while let Some(c) = it.next() {
        if c == '%' {
            let mut h = String::new();
            for d in it.by_ref() {
                if d == ';' {
                    break;
                }
                h.push(d);
            }
            if let Some(ch) = u32::from_str_radix(&h, 16).ok().and_then(char::from_u32) {
                o.push(ch);
            }
        } else {
            o.push(c);
        }
    }
    o
}

fn d_field(f: &FieldDef) -> String {
    match f.kardinality {
        Kardinality::Atom => e(&f.ident),
        Kardinality::Cluster(n) => format!("{}[{}]", e(&f.ident), n),
    }
}
fn d_gen(t: &TypClause<ModuleGenericsDef>) -> String {
    let a: Vec<String> = t.args.iter().map(|g| format!("{}<{}", e(&g.binding), e(&g.bound))).collect();
    format!("{}({})", e(&t.ident), a.join(","))
}
fn d_typ(t: &TypClause<String>) -> String {
    let a: Vec<String> = t.args.iter().map(|g| e(g)).collect();
    format!("{}({})", e(&t.ident), a.join(","))
}
fn d_ep(p: &ConnectionEndpointDef) -> String {
    p.accessors.iter().map(d_field).collect::<Vec<_>>().join("/")
}
fn ms(v: f64) -> i64 {
    (v * 1000.0).round() as i64
}
fn d_link(l: &LinkDef) -> String {
    format!(
        "{}/{}/{}/{}",
        ms(l.latency),
        ms(l.jitter),
        l.bitrate,
        l.other.get("queuesize").cloned().unwrap_or_else(|| "-".to_string())
    )
}
fn d_cep(p: &ConnectionEndpoint) -> String {
    p.accessors
        .iter()
        .map(|a| match a.index {
            Some(i) => format!("{}[{}]", e(&a.name), i),
            None => e(&a.name),
        })
        .collect::<Vec<_>>()
        .join("/")
}
fn d_node(n: &Node) -> String {
    let mut gates: Vec<String> = n.gates.iter().map(d_field).collect();
    gates.sort();
    let subs: Vec<String> = n.submodules.iter().map(|s| format!("{}={}", d_field(&s.name), d_node(&s.typ))).collect();
    let conns: Vec<String> = n
        .connections
        .iter()
        .map(|c| {
            format!(
                "{}~{}@{}",
                d_cep(&c.peers[0]),
                d_cep(&c.peers[1]),
                c.link.as_ref().map(d_link).unwrap_or_else(|| "-".to_string())
            )
        })
        .collect();
    format!("N{{{};{};{};{}}}", e(&n.typ), gates.join(","), subs.join(","), conns.join(","))
}
fn d_err(err: &Error) -> String {
    use ErrorKind::*;
    let (k, d): (&str, Vec<String>) = match &err.kind {
        Other => ("Other", vec![]),
        MissingRegistrySymbol(p, s) => ("MissingRegistrySymbol", vec![p.clone(), s.clone()]),
        SymbolAlreadyDefined(s) => ("SymbolAlreadyDefined", vec![s.clone()]),
        Io(_) => ("Io", vec![]),
        UnknownLink(s) => ("UnknownLink", vec![s.clone()]),
        UnknownModule(s) => ("UnknownModule", vec![s.clone()]),
        UnresolvableDependency(v) => ("UnresolvableDependency", v.clone()),
        InvalidGate(m, g) => ("InvalidGate", vec![m.clone(), g.clone()]),
        InvalidSubmodule(m, s) => ("InvalidSubmodule", vec![m.clone(), s.clone()]),
        UnknownGateInConnection(f) => ("UnknownGateInConnection", vec![f.to_string()]),
        UnknownSubmoduleInConnection(f) => ("UnknownSubmoduleInConnection", vec![f.to_string()]),
        ConnectionIndexOutOfBounds(f) => ("ConnectionIndexOutOfBounds", vec![f.to_string()]),
        UnequalPeers(a, b) => ("UnequalPeers", vec![a.to_string(), b.to_string()]),
        InvalidTypStatement(t, g) => (
            "InvalidTypStatement",
            vec![t.to_string(), TypClause { ident: t.ident.clone(), args: g.clone() }.to_string()],
        ),
        AssignedTypDoesNotConformToInterface(t) => ("AssignedTypDoesNotConformToInterface", vec![t.to_string()]),
    };
    let o = |x: &Option<String>| x.as_ref().map(|s| e(s)).unwrap_or_else(|| "-".to_string());
    format!(
        "err:{}:{}@{};{};{};{}",
        k,
        d.iter().map(|s| e(s)).collect::<Vec<_>>().join("|"),
        o(&err.span.module),
        o(&err.span.submodule),
        o(&err.span.gate),
        err.span.connection.map(|c| c.to_string()).unwrap_or_else(|| "-".to_string())
    )
}

// ---------------------------------------------------------------------------------------------
// executor
// ---------------------------------------------------------------------------------------------

#[derive(Default)]
struct ModAcc {
    tag: String,
    key: Option<TypClause<ModuleGenericsDef>>,
    bad: bool,
    raw_key: String,
    inherit: Option<String>,
    gates: Vec<FieldDef>,
    raw_gates: Vec<String>,
    subs: Vec<(String, FieldDef, TypClause<String>)>,
    raw_subs: Vec<(String, String)>,
    stags: Vec<String>,
    conns: Vec<ConnectionDef>,
    raw_conns: Vec<(String, String, Option<String>)>,
}

struct Doc {
    entry: String,
    links: Vec<(String, i64, i64, i64, Option<String>)>,
    mods: Vec<ModAcc>,
}

fn link_def(l: &(String, i64, i64, i64, Option<String>)) -> LinkDef {
    let mut d = LinkDef { latency: l.1 as f64 / 1000.0, jitter: l.2 as f64 / 1000.0, bitrate: l.3 as i32, other: Default::default() };
    if let Some(q) = &l.4 {
        d.other.insert("queuesize".to_string(), q.clone());
    }
    d
}

impl Doc {
    /// the `Def` assembled from the FromStr results (None if some clause did not parse) and the
    /// tags in hash-map iteration order
    fn def(&self) -> Option<(Def, String)> {
        if self.mods.iter().any(|m| m.bad || m.key.is_none()) {
            return None;
        }
        let mut def = Def { entry: self.entry.clone(), ..Default::default() };
        for l in &self.links {
            def.links.insert(l.0.clone(), link_def(l));
        }
        let mut mtag: Vec<(TypClause<ModuleGenericsDef>, usize)> = Vec::new();
        for (i, m) in self.mods.iter().enumerate() {
            let key = m.key.clone().unwrap();
            let mut md = ModuleDef { inherit: m.inherit.clone(), gates: m.gates.clone(), submodules: Default::default(), connections: m.conns.clone() };
            for (_, f, t) in &m.subs {
                md.submodules.insert(f.clone(), t.clone());
            }
            def.modules.insert(key.clone(), md);
            mtag.retain(|(k, _)| *k != key);
            mtag.push((key, i));
        }
        let mut layout = Vec::new();
        for (k, md) in def.modules.iter() {
            let i = mtag.iter().find(|(kk, _)| kk == k).unwrap().1;
            let m = &self.mods[i];
            let mut st = Vec::new();
            for (f, _) in md.submodules.iter() {
                // the last sub line with this key provided the value
                let s = m.subs.iter().rev().find(|(_, ff, _)| ff == f).unwrap();
                st.push(s.0.clone());
            }
            layout.push(format!("{}:{}", m.tag, st.join(".")));
        }
        Some((def, layout.join(",")))
    }

    fn yaml(&self) -> String {
        fn q(s: &str) -> String {
            let mut o = String::from("\"");
            for c in s.chars() {
                match c {
                    '"' => o.push_str("\\\""),
                    '\\' => o.push_str("\\\\"),
                    c if (c as u32) < 0x20 || (c as u32) == 0x7f || (c as u32) > 0x7e => {
                        if (c as u32) <= 0xffff {
                            write!(o, "\\u{:04x}", c as u32).unwrap()
                        } else {
                            write!(o, "\\U{:08x}", c as u32).unwrap()
                        }
                    }
                    c => o.push(c),
                }
            }
            o.push('"');
            o
        }
        let mut y = String::new();
        writeln!(y, "entry: {}", q(&self.entry)).unwrap();
        if !self.mods.is_empty() {
            writeln!(y, "modules:").unwrap();
            for m in &self.mods {
                writeln!(y, "  {}:", q(&m.raw_key)).unwrap();
                let mut any = false;
                if let Some(i) = &m.inherit {
                    writeln!(y, "    inherit: {}", q(i)).unwrap();
                    any = true;
                }
                if !m.raw_gates.is_empty() {
                    any = true;
                    writeln!(y, "    gates:").unwrap();
                    for g in &m.raw_gates {
                        writeln!(y, "      - {}", q(g)).unwrap();
                    }
                }
                if !m.raw_subs.is_empty() {
                    any = true;
                    writeln!(y, "    submodules:").unwrap();
                    for (k, v) in &m.raw_subs {
                        writeln!(y, "      {}: {}", q(k), q(v)).unwrap();
                    }
                }
                if !m.raw_conns.is_empty() {
                    any = true;
                    writeln!(y, "    connections:").unwrap();
                    for (a, b, l) in &m.raw_conns {
                        writeln!(y, "      - peers: [{}, {}]", q(a), q(b)).unwrap();
                        if let Some(l) = l {
                            writeln!(y, "        link: {}", q(l)).unwrap();
                        }
                    }
                }
                if !any {
                    writeln!(y, "    {{}}").unwrap();
                }
            }
        }
        if !self.links.is_empty() {
            writeln!(y, "links:").unwrap();
            for l in &self.links {
                writeln!(y, "  {}:", q(&l.0)).unwrap();
                writeln!(y, "    latency: {:?}", l.1 as f64 / 1000.0).unwrap();
                writeln!(y, "    jitter: {:?}", l.2 as f64 / 1000.0).unwrap();
                writeln!(y, "    bitrate: {}", l.3 as i32).unwrap();
                if let Some(qs) = &l.4 {
                    writeln!(y, "    queuesize: {}", q(qs)).unwrap();
                }
            }
        }
        y
    }
}

#[derive(Default)]
struct Triv;
impl Module for Triv {}

/// the symbols the registry resolves (everything else: `MissingRegistrySymbol`)
#[allow(dead_code)]
pub const POOL: [&str; 14] = ["A", "B", "C", "D", "E", "F", "G", "H", "I", "J", "K", "L", "T", "Main"];

macro_rules! reg_chain {
    ($log:expr; $($s:literal),*) => {{
        let r = Registry::new();
        $(
            let lg = $log.clone();
            let r = r.symbol_fn($s, move |p: &ObjectPath| {
                lg.lock().unwrap().push((p.as_str().to_string(), $s.to_string()));
                Triv
            });
        )*
        r
    }};
}

fn d_gate_ref(g: &GateRef) -> String {
    format!("{}#{}:{}", e(g.owner().path().as_str()), e(g.name()), g.pos())
}

fn d_slot(g: &GateRef, slot: usize) -> String {
    // `next_hop` of a connection "arriving" through slot `1 - slot` reads slot `slot`
    let probe = Connection { endpoint: g.clone(), endpoint_id: 1 - slot, channel: None };
    match probe.next_hop() {
        None => "-".to_string(),
        Some(c) => {
            let ch = match c.channel {
                None => "-".to_string(),
                Some(ch) => {
                    let m = ch.metrics();
                    let q = match m.drop_behaviour {
                        des::prelude::ChannelDropBehaviour::Drop => "drop".to_string(),
                        des::prelude::ChannelDropBehaviour::Queue(None) => "inf".to_string(),
                        des::prelude::ChannelDropBehaviour::Queue(Some(n)) => n.to_string(),
                    };
                    format!("{}/{}/{}/{}", m.bitrate, m.latency.as_nanos(), m.jitter.as_nanos(), q)
                }
            };
            format!("{}@{}", d_gate_ref(&c.endpoint), ch)
        }
    }
}

fn build(def: &Def) -> String {
    let log: Arc<Mutex<Vec<(String, String)>>> = Arc::new(Mutex::new(Vec::new()));
    let log2 = log.clone();
    let r = guarded(move || {
        let mut reg = reg_chain!(log2; "A", "B", "C", "D", "E", "F", "G", "H", "I", "J", "K", "L", "T", "Main");
        let mut sim = Sim::new(());
        match sim.nodes_from_ndl(def, &mut reg) {
            Err(err) => d_err(&err),
            Ok(()) => {
                let sim = sim.freeze();
                let syms = log2.lock().unwrap().clone();
                let mut mods: Vec<String> = Vec::new();
                let paths: Vec<ObjectPath> = sim.nodes().collect();
                for p in paths {
                    let m = sim.globals().get(&p).expect("listed node exists");
                    let sym = syms.iter().find(|(pp, _)| pp == p.as_str()).map(|x| x.1.clone()).unwrap_or_else(|| "?".to_string());
                    let mut gates: Vec<String> = m
                        .gates()
                        .iter()
                        .map(|g| format!("{}:{}:{}:{}|{}", e(g.name()), g.size(), g.pos(), d_slot(g, 0), d_slot(g, 1)))
                        .collect();
                    gates.sort();
                    mods.push(format!("M{{{};{};{}}}", e(p.as_str()), e(&sym), gates.join(",")));
                }
                mods.sort();
                format!("ok:{}", mods.join(""))
            }
        }
    });
    drop(log);
    match r {
        Ok(s) => s,
        Err(_) => "panic".to_string(),
    }
}

fn opt(s: &str) -> Option<String> {
    if s == "-" {
        None
    } else {
        Some(unesc(s))
    }
}

pub fn exec(input: &str) -> String {
    let mut out = String::new();
    for (header, body) in cases(input) {
        writeln!(out, "{header}").unwrap();
        let mut doc = Doc { entry: String::new(), links: Vec::new(), mods: Vec::new() };
        for line in body {
            let tok: Vec<&str> = line.split_whitespace().collect();
            match tok.as_slice() {
                ["entry", s] => {
                    doc.entry = unesc(s);
                    writeln!(out, "{line}").unwrap();
                }
                ["link", name, lat, jit, bit, q] => {
                    let p = |x: &str| x.parse::<i64>().unwrap_or(0);
                    doc.links.push((unesc(name), p(lat), p(jit), p(bit), opt(q)));
                    writeln!(out, "{line}").unwrap();
                }
                ["mod", tag, raw] => {
                    if doc.mods.iter().any(|m| m.tag == *tag) {
                        continue;
                    }
                    let raw = unesc(raw);
                    let mut m = ModAcc { tag: tag.to_string(), raw_key: raw.clone(), ..Default::default() };
                    let ans = match guarded(|| TypClause::<ModuleGenericsDef>::from_str(&raw)) {
                        Ok(Ok(k)) => {
                            let a = format!("ok {}", d_gen(&k));
                            m.key = Some(k);
                            a
                        }
                        Ok(Err(_)) => {
                            m.bad = true;
                            "err".to_string()
                        }
                        Err(_) => {
                            m.bad = true;
                            "panic".to_string()
                        }
                    };
                    doc.mods.push(m);
                    writeln!(out, "{line} -> {ans}").unwrap();
                }
                ["inherit", tag, sym] => {
                    if let Some(m) = doc.mods.iter_mut().find(|m| m.tag == *tag) {
                        m.inherit = Some(unesc(sym));
                        writeln!(out, "{line}").unwrap();
                    }
                }
                ["gate", tag, raw] => {
                    if let Some(m) = doc.mods.iter_mut().find(|m| m.tag == *tag) {
                        let raw = unesc(raw);
                        m.raw_gates.push(raw.clone());
                        let ans = match guarded(|| FieldDef::from_str(&raw)) {
                            Ok(Ok(f)) => {
                                let a = format!("ok {}", d_field(&f));
                                m.gates.push(f);
                                a
                            }
                            Ok(Err(_)) => {
                                m.bad = true;
                                "err".to_string()
                            }
                            Err(_) => {
                                m.bad = true;
                                "panic".to_string()
                            }
                        };
                        writeln!(out, "{line} -> {ans}").unwrap();
                    }
                }
                ["sub", tag, stag, rawf, rawt] => {
                    if let Some(m) = doc.mods.iter_mut().find(|m| m.tag == *tag) {
                        if m.stags.iter().any(|t| t == stag) {
                            continue;
                        }
                        m.stags.push(stag.to_string());
                        let (rawf, rawt) = (unesc(rawf), unesc(rawt));
                        m.raw_subs.push((rawf.clone(), rawt.clone()));
                        let ans = match guarded(|| (FieldDef::from_str(&rawf), TypClause::<String>::from_str(&rawt))) {
                            Ok((Ok(f), Ok(t))) => {
                                let a = format!("ok {} {}", d_field(&f), d_typ(&t));
                                m.subs.push((stag.to_string(), f, t));
                                a
                            }
                            Ok(_) => {
                                m.bad = true;
                                "err".to_string()
                            }
                            Err(_) => {
                                m.bad = true;
                                "panic".to_string()
                            }
                        };
                        writeln!(out, "{line} -> {ans}").unwrap();
                    }
                }
                ["conn", tag, a, b, l] => {
                    if let Some(m) = doc.mods.iter_mut().find(|m| m.tag == *tag) {
                        let (a, b, l) = (unesc(a), unesc(b), opt(l));
                        m.raw_conns.push((a.clone(), b.clone(), l.clone()));
                        let ans = match guarded(|| (ConnectionEndpointDef::from_str(&a), ConnectionEndpointDef::from_str(&b))) {
                            Ok((Ok(x), Ok(y))) => {
                                let s = format!("ok {} {}", d_ep(&x), d_ep(&y));
                                m.conns.push(ConnectionDef { peers: [x, y], link: l });
                                s
                            }
                            Ok(_) => {
                                m.bad = true;
                                "err".to_string()
                            }
                            Err(_) => {
                                m.bad = true;
                                "panic".to_string()
                            }
                        };
                        writeln!(out, "{line} -> {ans}").unwrap();
                    }
                }
                ["yaml"] => {
                    let y = doc.yaml();
                    let ans = match guarded(|| serde_yml::from_str::<Def>(&y)) {
                        Err(_) => "panic",
                        Ok(Err(_)) => "err",
                        Ok(Ok(d)) => match doc.def() {
                            Some((d2, _)) if d == d2 => "same",
                            _ => "differs",
                        },
                    };
                    writeln!(out, "{line} -> {ans}").unwrap();
                }
                ["transform"] => {
                    let ans = match doc.def() {
                        None => "noparse".to_string(),
                        Some((def, layout)) => {
                            let r = match guarded(|| transform(&def)) {
                                Err(_) => "panic".to_string(),
                                Ok(Err(err)) => d_err(&err),
                                Ok(Ok(n)) => format!("ok:{}", d_node(&n)),
                            };
                            format!("L={layout} R={r}")
                        }
                    };
                    writeln!(out, "{line} -> {ans}").unwrap();
                }
                ["build"] => {
                    let ans = match doc.def() {
                        None => "noparse".to_string(),
                        Some((def, layout)) => {
                            let r = match guarded(|| transform(&def)) {
                                Ok(Ok(_)) => build(&def),
                                _ => "notransform".to_string(),
                            };
                            format!("L={layout} R={r}")
                        }
                    };
                    writeln!(out, "{line} -> {ans}").unwrap();
                }
                _ => {}
            }
        }
        writeln!(out, "end").unwrap();
    }
    out
}

// ---------------------------------------------------------------------------------------------
// generator
// ---------------------------------------------------------------------------------------------

#[derive(Clone)]
struct GMod {
    #[allow(dead_code)]
    tag: String,
    name: String,
    /// generic parameters (binding, bound module index)
    generic: Vec<(String, usize)>,
    inherit: Option<usize>,
    /// effective gates (own + inherited): (ident, cluster size or 0 for an atom)
    gates: Vec<(String, usize)>,
    /// effective submodules: (ident, cluster size or 0, index of the module type that provides the gates)
    subs: Vec<(String, usize, usize)>,
    lines: Vec<String>,
    /// gate instances already wired by this module type (own + inherited connections)
    used: Vec<String>,
    /// number of module instances one instance of this type expands to (estimate, keeps builds small)
    count: usize,
    /// this module re-declares the gates of that module (conforms to it without inheriting);
    /// `true`: one cardinality was changed on purpose (same gate names, must not conform)
    twin: Option<(usize, bool)>,
}

/// upper bound (estimate) on the module instances of one generated simulation
const MAX_INSTANCES: usize = 250;
const GATE_NAMES: [&str; 6] = ["in", "out", "port", "p", "q", "up"];
const SUB_NAMES: [&str; 7] = ["a", "b", "c", "n", "s", "host", "sw"];
const MOD_NAMES: [&str; 12] = ["A", "B", "C", "D", "E", "F", "G", "H", "I", "J", "K", "L"];

fn field(name: &str, size: usize) -> String {
    if size == 0 {
        name.to_string()
    } else {
        format!("{name}[{size}]")
    }
}

/// an endpoint string (relative to module `mi`), the number of gates it denotes and the gate
/// instances it expands to
fn gen_endpoint(r: &mut Rng, mods: &[GMod], mi: usize, want: Option<usize>) -> Option<(String, usize, Vec<String>)> {
    for _ in 0..8 {
        let mut path: Vec<String> = Vec::new();
        let mut insts: Vec<String> = vec![String::new()];
        let mut cur = mi;
        let depth = if mods[cur].subs.is_empty() { 0 } else { [0, 1, 1, 1, 2][r.below(5) as usize] };
        let step = |insts: &mut Vec<String>, name: &str, size: usize, idx: Option<usize>| {
            let mut n = Vec::new();
            for p in insts.iter() {
                match (size, idx) {
                    (0, _) => n.push(format!("{p}/{name}")),
                    (_, Some(i)) => n.push(format!("{p}/{name}[{i}]")),
                    (s, None) => (0..s).for_each(|i| n.push(format!("{p}/{name}[{i}]"))),
                }
            }
            *insts = n;
        };
        for _ in 0..depth {
            if mods[cur].subs.is_empty() {
                break;
            }
            let (name, size, ty) = r.pick(&mods[cur].subs).clone();
            if size > 0 && !(insts.len() == 1 && r.chance(1, 3)) {
                let i = r.below(size as u64) as usize;
                path.push(format!("{name}[{i}]"));
                step(&mut insts, &name, size, Some(i));
            } else {
                path.push(name.clone());
                step(&mut insts, &name, size, None);
            }
            cur = ty;
        }
        if mods[cur].gates.is_empty() {
            continue;
        }
        let (g, size) = r.pick(&mods[cur].gates).clone();
        if size > 0 && !(r.chance(1, 3)) {
            let i = r.below(size as u64) as usize;
            path.push(format!("{g}[{i}]"));
            step(&mut insts, &g, size, Some(i));
        } else {
            path.push(g.clone());
            step(&mut insts, &g, size, None);
        }
        if let Some(w) = want {
            if w != insts.len() {
                continue;
            }
        }
        return Some((path.join("/"), insts.len(), insts));
    }
    None
}

fn gen_valid(r: &mut Rng, thorough: bool) -> (Vec<GMod>, Vec<String>, String) {
    let k = if thorough { r.range(2, 9) } else { r.range(2, 7) } as usize;
    let mut names: Vec<&str> = MOD_NAMES.to_vec();
    // shuffle the names so hash order and dependency order are unrelated
    for i in (1..names.len()).rev() {
        names.swap(i, r.below(i as u64 + 1) as usize);
    }
    let mut links = Vec::new();
    let nlinks = r.below(3);
    for (i, n) in ["fast", "slow", "wan"].iter().enumerate() {
        if (i as u64) < nlinks {
            let q = if r.chance(1, 2) { r.below(64).to_string() } else { "-".to_string() };
            // zero latency / jitter (the serde defaults) are common: such a link still has a channel
            let lat = if r.chance(1, 3) { 0 } else { r.below(200) };
            let jit = if r.chance(1, 2) { 0 } else { r.below(20) };
            let bit = if r.chance(1, 8) { 0 } else { r.below(1_000_000) };
            links.push(format!("link {n} {lat} {jit} {bit} {q}"));
        }
    }
    let link_names: Vec<&str> = ["fast", "slow", "wan"][..nlinks as usize].to_vec();
    let mut mods: Vec<GMod> = Vec::new();
    for i in 0..k {
        let tag = format!("m{i}");
        let name = names[i].to_string();
        let mut m = GMod { tag: tag.clone(), name: name.clone(), generic: vec![], inherit: None, gates: vec![], subs: vec![], lines: vec![], used: vec![], count: 1, twin: None };
        let plain: Vec<usize> = (0..i).filter(|&j| mods[j].generic.is_empty()).collect();
        // generics
        if !plain.is_empty() && r.chance(1, 3) {
            m.generic.push(("T".to_string(), *r.pick(&plain)));
            if r.chance(1, 3) {
                m.generic.push(("U".to_string(), *r.pick(&plain)));
            }
        }
        let key = if m.generic.is_empty() {
            name.clone()
        } else {
            let ps: Vec<String> = m.generic.iter().map(|(bind, b)| format!("{bind} <- {}", mods[*b].name)).collect();
            format!("{name}({})", ps.join(", "))
        };
        m.lines.push(format!("mod {tag} {}", esc(&key)));
        // inheritance
        if !plain.is_empty() && r.chance(1, 3) {
            let p = *r.pick(&plain);
            m.inherit = Some(p);
            m.gates = mods[p].gates.clone();
            m.subs = mods[p].subs.clone();
            m.used = mods[p].used.clone();
            m.count = mods[p].count;
            m.lines.push(format!("inherit {tag} {}", mods[p].name));
        }
        // a structural twin: the same gate names as an earlier module, without inheriting from it;
        // sometimes with one cardinality changed (then it must NOT conform as a type argument)
        if m.inherit.is_none() && m.generic.is_empty() && r.chance(1, 5) {
            let cands: Vec<usize> = plain.iter().copied().filter(|&j| !mods[j].gates.is_empty() && mods[j].subs.is_empty() && mods[j].used.is_empty()).collect();
            if !cands.is_empty() {
                let b = *r.pick(&cands);
                let vary = if r.chance(1, 3) { Some(r.below(mods[b].gates.len() as u64) as usize) } else { None };
                for (gi, (g, size)) in mods[b].gates.clone().into_iter().enumerate() {
                    let size = if vary == Some(gi) { if size == 0 { r.range(1, 3) as usize } else if r.chance(1, 3) { 0 } else { size + 1 } } else { size };
                    m.gates.push((g.clone(), size));
                    m.lines.push(format!("gate {tag} {}", field(&g, size)));
                }
                m.twin = Some((b, vary.is_some()));
            }
        }
        // gates
        for _ in 0..r.below(4) {
            let g = *r.pick(&GATE_NAMES);
            if m.gates.iter().any(|x| x.0 == g) {
                continue;
            }
            let size = if r.chance(1, 2) { 0 } else { r.range(1, 4) as usize };
            m.gates.push((g.to_string(), size));
            m.lines.push(format!("gate {tag} {}", field(g, size)));
        }
        // submodules
        let mut sc = 0;
        // every type parameter is used by one to three submodules (atoms and clusters, incl. size 1)
        for (pi, (bind, b)) in m.generic.clone().into_iter().enumerate() {
            let uses = [1, 1, 2, 2, 3][r.below(5) as usize];
            for u in 0..uses {
                let nm = [["t", "left", "right"], ["u", "x", "y"]][pi][u];
                let size = if r.chance(1, 2) { 0 } else { r.range(1, 3) as usize };
                if m.count + size.max(1) * mods[b].count > MAX_INSTANCES && u > 0 {
                    continue;
                }
                m.count += size.max(1) * mods[b].count;
                m.subs.push((nm.to_string(), size, b));
                m.lines.push(format!("sub {tag} s{i}_{sc} {} {bind}", field(nm, size)));
                sc += 1;
            }
        }
        if i > 0 {
            for _ in 0..r.below(4) {
                let s = *r.pick(&SUB_NAMES);
                if m.subs.iter().any(|x| x.0 == s) {
                    continue;
                }
                let size = if r.chance(1, 2) { 0 } else { r.range(1, 3) as usize };
                let ty = r.below(i as u64) as usize;
                let mut est = mods[ty].count;
                let tys = if mods[ty].generic.is_empty() {
                    mods[ty].name.clone()
                } else {
                    let mut args = Vec::new();
                    for (_, bound) in &mods[ty].generic {
                        // a conforming argument: a module inheriting the bound, or the bound itself
                        let inh: Vec<usize> = (0..i).filter(|&j| mods[j].generic.is_empty() && (mods[j].inherit == Some(*bound) || mods[j].twin.map(|t| t.0) == Some(*bound))).collect();
                        let c = if r.chance(1, 12) {
                            r.below(i as u64) as usize
                        } else if !inh.is_empty() && r.chance(3, 4) {
                            *r.pick(&inh)
                        } else {
                            *bound
                        };
                        est += 6 * mods[c].count;
                        args.push(mods[c].name.clone());
                    }
                    format!("{}({})", mods[ty].name, args.join(", "))
                };
                if m.count + size.max(1) * est > MAX_INSTANCES {
                    continue;
                }
                m.count += size.max(1) * est;
                m.subs.push((s.to_string(), size, ty));
                m.lines.push(format!("sub {tag} s{i}_{sc} {} {}", field(s, size), esc(&tys)));
                sc += 1;
            }
        }
        mods.push(m);
        // a whole-cluster connection that expands on two levels at once (`node/port` with node[s]
        // and port[g]) against a hub cluster of s*g gates: the pairing order matters
        if r.chance(1, 4) {
            let cand: Vec<(String, usize, String, usize)> = mods[i]
                .subs
                .iter()
                .filter(|(_, size, _)| *size >= 2)
                .flat_map(|(sn, size, ty)| {
                    mods[*ty].gates.iter().filter(|(_, gs)| *gs >= 2).map(move |(gn, gs)| (sn.clone(), *size, gn.clone(), *gs))
                })
                .collect();
            if !cand.is_empty() && !mods[i].gates.iter().any(|g| g.0 == "hub") {
                let (sn, ss, gn, gs) = r.pick(&cand).clone();
                let clash = (0..ss).any(|a| (0..gs).any(|b| mods[i].used.contains(&format!("/{sn}[{a}]/{gn}[{b}]"))));
                if !clash {
                    mods[i].gates.push(("hub".to_string(), ss * gs));
                    mods[i].lines.push(format!("gate {tag} hub[{}]", ss * gs));
                    let l = if !link_names.is_empty() && r.chance(1, 2) { r.pick(&link_names).to_string() } else { "-".to_string() };
                    if r.chance(1, 2) {
                        mods[i].lines.push(format!("conn {tag} {sn}/{gn} hub {l}"));
                    } else {
                        mods[i].lines.push(format!("conn {tag} hub {sn}/{gn} {l}"));
                    }
                    for a in 0..ss {
                        for b in 0..gs {
                            mods[i].used.push(format!("/{sn}[{a}]/{gn}[{b}]"));
                        }
                    }
                    for k in 0..ss * gs {
                        mods[i].used.push(format!("/hub[{k}]"));
                    }
                }
            }
        }
        // connections
        for _ in 0..r.below(5) {
            let Some((a, n, ia)) = gen_endpoint(r, &mods, i, None) else { continue };
            let want = if r.chance(19, 20) { Some(n) } else { None };
            let Some((b, _, ib)) = gen_endpoint(r, &mods, i, want) else { continue };
            // keep the wiring realisable most of the time: every gate instance is used at most
            // once per module type (so at most twice overall: inside and from the parent)
            let clash = ia.iter().any(|x| ib.contains(x)) || ia.iter().chain(ib.iter()).any(|x| mods[i].used.contains(x));
            if clash && r.chance(19, 20) {
                continue;
            }
            mods[i].used.extend(ia.into_iter().chain(ib));
            let l = if !link_names.is_empty() && r.chance(1, 2) { r.pick(&link_names).to_string() } else { "-".to_string() };
            mods[i].lines.push(format!("conn {tag} {} {} {l}", esc(&a), esc(&b)));
        }
    }
    let entry = if r.chance(4, 5) { mods[k - 1].name.clone() } else { r.pick(&mods).name.clone() };
    (mods, links, entry)
}

/// single-point mutations of a script (a list of lines)
fn mutate(r: &mut Rng, lines: &mut Vec<String>) -> &'static str {
    let idx_of = |lines: &Vec<String>, r: &mut Rng, p: &str| -> Option<usize> {
        let c: Vec<usize> = lines.iter().enumerate().filter(|(_, l)| l.starts_with(p)).map(|x| x.0).collect();
        if c.is_empty() {
            None
        } else {
            Some(*r.pick(&c))
        }
    };
    let set_tok = |lines: &mut Vec<String>, i: usize, t: usize, v: String| {
        let mut tok: Vec<String> = lines[i].split(' ').map(|s| s.to_string()).collect();
        if t < tok.len() {
            tok[t] = v;
        }
        lines[i] = tok.join(" ");
    };
    let tok_of = |lines: &Vec<String>, i: usize, t: usize| -> String { lines[i].split(' ').nth(t).unwrap_or("").to_string() };
    let bad_clauses = ["G(C", "G(", "(", "G(C))", "G()", "G(C,D)", "G(C, )", "G(, C)", " G", "G (C)", "G(C)x", "G)", "T(I)", "G(T)", ""];
    let bad_fields = ["x[", "x]", "x[]", "x[a]", "x[-1]", "x[+2]", "x[1]]", "x[[1]", "[1]", "x[1][2]", "x[18446744073709551616]", "x[0]", "", "x "];
    match r.below(24) {
        0 => {
            // dangling type name of a submodule
            if let Some(i) = idx_of(lines, r, "sub ") {
                set_tok(lines, i, 4, if r.chance(1, 2) { "Zz".into() } else { "Zz(C)".into() });
            }
            "dangling-type"
        }
        1 => {
            if let Some(i) = idx_of(lines, r, "inherit ") {
                set_tok(lines, i, 2, "Zz".into());
            } else if let Some(i) = idx_of(lines, r, "entry ") {
                set_tok(lines, i, 1, "Zz".into());
            }
            "dangling-parent"
        }
        2 => {
            if let Some(i) = idx_of(lines, r, "conn ") {
                if r.chance(1, 2) {
                    set_tok(lines, i, 4, "nolink".into());
                } else {
                    let t = 2 + r.below(2) as usize;
                    let ep = tok_of(lines, i, t);
                    let mut parts: Vec<String> = ep.split('/').map(|s| s.to_string()).collect();
                    let k = r.below(parts.len() as u64) as usize;
                    parts[k] = if r.chance(1, 2) { "zz".into() } else { "zz[0]".into() };
                    set_tok(lines, i, t, parts.join("/"));
                }
            }
            "dangling-conn"
        }
        3 => {
            // off-by-one / shifted index in a connection endpoint
            if let Some(i) = idx_of(lines, r, "conn ") {
                let t = 2 + r.below(2) as usize;
                let ep = tok_of(lines, i, t);
                let mut parts: Vec<String> = ep.split('/').map(|s| s.to_string()).collect();
                let k = r.below(parts.len() as u64) as usize;
                if let Some(p) = parts[k].find('[') {
                    let n: usize = parts[k].get(p + 1..parts[k].len().saturating_sub(1)).and_then(|x| x.parse().ok()).unwrap_or(0);
                    parts[k] = format!("{}[{}]", &parts[k][..p], n + 1 + r.below(3) as usize);
                } else {
                    parts[k] = format!("{}[{}]", parts[k], r.below(4));
                }
                set_tok(lines, i, t, parts.join("/"));
            }
            "index"
        }
        4 => {
            let p = if r.chance(1, 2) { "gate " } else { "sub " };
            if let Some(i) = idx_of(lines, r, p) {
                let t = if p == "gate " { 2 } else { 3 };
                let f = tok_of(lines, i, t);
                let base = f.split('[').next().unwrap_or("x").to_string();
                set_tok(lines, i, t, format!("{base}[0]"));
            }
            "zero-cluster"
        }
        5 => {
            // cycle: an early module refers to a later one (or itself)
            let ms: Vec<usize> = lines.iter().enumerate().filter(|(_, l)| l.starts_with("mod ")).map(|x| x.0).collect();
            if ms.len() >= 1 {
                let a = r.below(ms.len() as u64) as usize;
                let b = r.range(a as u64, ms.len() as u64 - 1) as usize;
                let tag = tok_of(lines, ms[a], 1);
                let name = unesc(&tok_of(lines, ms[b], 2)).split('(').next().unwrap_or("A").trim().to_string();
                let l = if r.chance(1, 2) { format!("sub {tag} sx cyc {name}") } else { format!("inherit {tag} {name}") };
                lines.insert(ms[a] + 1, l);
            }
            "cycle"
        }
        6 => {
            if let Some(i) = idx_of(lines, r, "sub ") {
                set_tok(lines, i, 4, esc(*r.pick(&bad_clauses)));
            }
            "bad-sub-clause"
        }
        7 => {
            if let Some(i) = idx_of(lines, r, "mod ") {
                let keys = ["A(T <- I", "A(T <- I))", "A(T < I)", "A(T)", "A()", "A(T <- I, T <- I)", "A(T <- I,U <- I)", "A( T<-I )", "A(T <- )", "A(T <- I, U <- Zz)", "(T <- I)", "A(T <- T)"];
                let name = unesc(&tok_of(lines, i, 2)).split('(').next().unwrap_or("A").to_string();
                let k = r.pick(&keys).replacen('A', &name, 1);
                set_tok(lines, i, 2, esc(&k));
            }
            "bad-mod-clause"
        }
        8 => {
            let p = if r.chance(1, 2) { "gate " } else { "sub " };
            if let Some(i) = idx_of(lines, r, p) {
                let t = if p == "gate " { 2 } else { 3 };
                set_tok(lines, i, t, esc(*r.pick(&bad_fields)));
            }
            "bad-field"
        }
        9 => {
            if let Some(i) = idx_of(lines, r, "conn ") {
                let eps = ["a//b", "/", "a/", "/in", "in[", "in]", "a[1]/in[x]", "", "a/b/c/d", "in[1][2]"];
                set_tok(lines, i, 2 + r.below(2) as usize, esc(*r.pick(&eps)));
            }
            "bad-endpoint"
        }
        10 => {
            // generic abuse
            if let Some(i) = idx_of(lines, r, "sub ") {
                let t = tok_of(lines, i, 4);
                let base = t.split('(').next().unwrap_or("A").to_string();
                let other = *r.pick(&MOD_NAMES);
                let v = match r.below(5) {
                    0 => format!("{base}({other})"),
                    1 => format!("{base}({other},%20;{other})"),
                    2 => base,
                    3 => format!("T({other})"),
                    _ => format!("{base}(T)"),
                };
                set_tok(lines, i, 4, v);
            }
            "generic-abuse"
        }
        11 => {
            // unequal cluster sizes / changed sizes
            let p = if r.chance(1, 2) { "gate " } else { "sub " };
            if let Some(i) = idx_of(lines, r, p) {
                let t = if p == "gate " { 2 } else { 3 };
                let f = tok_of(lines, i, t);
                let base = f.split('[').next().unwrap_or("x").to_string();
                let v = if f.contains('[') && r.chance(1, 3) { base } else { format!("{base}[{}]", r.range(1, 5)) };
                set_tok(lines, i, t, v);
            }
            "resize"
        }
        12 => {
            // ambiguous / duplicate declarations
            let p = if r.chance(1, 2) { "gate " } else { "sub " };
            if let Some(i) = idx_of(lines, r, p) {
                let t = if p == "gate " { 2 } else { 3 };
                let f = tok_of(lines, i, t);
                let base = f.split('[').next().unwrap_or("x").to_string();
                let mut l = lines[i].clone();
                if r.chance(1, 2) {
                    l = l.replacen(&f, &format!("{base}[{}]", r.range(1, 3)), 1);
                }
                if p == "sub " {
                    l = l.replacen(" s", &format!(" sd{}x", r.below(1_000_000)), 1);
                }
                lines.insert(i + 1, l);
            }
            "duplicate"
        }
        13 => {
            let n = lines.len();
            if n > 0 {
                lines.remove(r.below(n as u64) as usize);
            }
            "delete-line"
        }
        14 => {
            // unrealisable wiring: repeat / self connection
            if let Some(i) = idx_of(lines, r, "conn ") {
                let a = tok_of(lines, i, 2);
                let tag = tok_of(lines, i, 1);
                let l = if r.chance(1, 2) { format!("conn {tag} {a} {a} -") } else { lines[i].clone() };
                lines.insert(i + 1, l);
            }
            "rewire"
        }
        15 => {
            if let Some(i) = idx_of(lines, r, "link ") {
                set_tok(lines, i, 2 + r.below(2) as usize, format!("-{}", r.range(1, 9)));
            }
            "negative-link"
        }
        16 => {
            // duplicate module identifier (two keys, same ident)
            if let Some(i) = idx_of(lines, r, "mod ") {
                let name = unesc(&tok_of(lines, i, 2)).split('(').next().unwrap_or("A").to_string();
                let v = if r.chance(1, 2) { format!("{name}(U <- {})", r.pick(&MOD_NAMES)) } else { name };
                let n = lines.len();
                lines.insert(n.saturating_sub(3), format!("mod mdup {}", esc(&v)));
                if r.chance(1, 2) {
                    lines.insert((n + 1).saturating_sub(3).min(lines.len()), "gate mdup extra".to_string());
                }
            }
            "dup-ident"
        }
        17 => {
            // a symbol the registry does not know
            if let Some(i) = idx_of(lines, r, "mod ") {
                let old = unesc(&tok_of(lines, i, 2)).split('(').next().unwrap_or("A").to_string();
                for l in lines.iter_mut() {
                    let mut tok: Vec<String> = l.split(' ').map(|s| s.to_string()).collect();
                    for t in tok.iter_mut().skip(1) {
                        if *t == old {
                            *t = "Xx".to_string();
                        } else if t.starts_with(&format!("{old}(")) {
                            *t = t.replacen(&old, "Xx", 1);
                        } else if t.ends_with(&format!("<-%20;{old})")) {
                            *t = t.replace(&format!("<-%20;{old})"), "<-%20;Xx)");
                        } else if t.ends_with(&format!("({old})")) {
                            *t = t.replace(&format!("({old})"), "(Xx)");
                        }
                    }
                    *l = tok.join(" ");
                }
            }
            "unregistered"
        }
        18 => {
            // swap two lines (declaration order must not matter for maps, does for connections)
            let n = lines.len();
            if n > 4 {
                let a = r.below(n as u64 - 3) as usize;
                let b = r.below(n as u64 - 3) as usize;
                lines.swap(a, b);
            }
            "swap"
        }
        19 | 20 => {
            // `inherit:` names one of the module's own type parameters — with no such global module
            // (dangling: must be UnresolvableDependency) or with a global module of that name
            if let Some(i) = idx_of(lines, r, "mod ") {
                let tag = tok_of(lines, i, 1);
                let key = unesc(&tok_of(lines, i, 2));
                let name = key.split('(').next().unwrap_or("A").trim().to_string();
                let mut binds: Vec<String> = match key.split_once('(') {
                    Some((_, rest)) => rest
                        .trim_end_matches(')')
                        .split(", ")
                        .filter_map(|a| a.split_once("<-").map(|x| x.0.trim().to_string()))
                        .collect(),
                    None => vec![],
                };
                if binds.is_empty() {
                    // make the module generic first
                    let other: Vec<String> = lines
                        .iter()
                        .filter(|l| l.starts_with("mod "))
                        .map(|l| unesc(l.split(' ').nth(2).unwrap_or("")).split('(').next().unwrap_or("").to_string())
                        .filter(|n| *n != name && !n.is_empty())
                        .collect();
                    let bound = if other.is_empty() { "Zz".to_string() } else { r.pick(&other).clone() };
                    let b = if r.chance(1, 2) { "T" } else { "P" };
                    set_tok(lines, i, 2, esc(&format!("{name}({b} <- {bound})")));
                    binds.push(b.to_string());
                }
                let b = r.pick(&binds).clone();
                lines.retain(|l| !l.starts_with(&format!("inherit {tag} ")));
                let pos = lines.iter().position(|l| l.starts_with(&format!("mod {tag} "))).unwrap_or(0);
                lines.insert(pos + 1, format!("inherit {tag} {}", esc(&b)));
                if r.chance(1, 2) {
                    // … and a global module of the same name
                    let at = r.below(lines.len() as u64 - 2) as usize;
                    let at = if lines[at].starts_with("entry") { at + 1 } else { at };
                    let mut blk = vec![format!("mod mglob{} {}", r.below(1000), esc(&b))];
                    if r.chance(1, 2) {
                        let t = blk[0].split(' ').nth(1).unwrap().to_string();
                        blk.push(format!("gate {t} port"));
                    }
                    // keep module blocks contiguous: insert before a `mod` line
                    let at = (at..lines.len()).find(|&k| lines[k].starts_with("mod ") || lines[k] == "yaml").unwrap_or(lines.len() - 3);
                    for (k, l) in blk.into_iter().enumerate() {
                        lines.insert(at + k, l);
                    }
                }
            }
            "inherit-binding"
        }
        21 | 22 => {
            // a looked-up symbol collides with another name of the same module:
            // a type parameter, a gate, a submodule or a link
            if let Some(i) = idx_of(lines, r, "mod ") {
                let tag = tok_of(lines, i, 1);
                let key = unesc(&tok_of(lines, i, 2));
                let mut names: Vec<String> = Vec::new();
                if let Some((_, rest)) = key.split_once('(') {
                    for a in rest.trim_end_matches(')').split(", ") {
                        if let Some((b, _)) = a.split_once("<-") {
                            names.push(b.trim().to_string());
                        }
                    }
                }
                for l in lines.iter() {
                    let tok: Vec<&str> = l.split(' ').collect();
                    match tok.as_slice() {
                        ["gate", t, f] if *t == tag => names.push(unesc(f).split('[').next().unwrap_or("").to_string()),
                        ["sub", t, _, f, _] if *t == tag => names.push(unesc(f).split('[').next().unwrap_or("").to_string()),
                        ["link", n, ..] => names.push(unesc(n)),
                        _ => {}
                    }
                }
                names.retain(|n| !n.is_empty());
                if !names.is_empty() {
                    let nm = esc(r.pick(&names).as_str());
                    let mine = |p: &str, lines: &Vec<String>, r: &mut Rng| -> Option<usize> {
                        let c: Vec<usize> = lines.iter().enumerate().filter(|(_, l)| l.starts_with(&format!("{p} {tag} "))).map(|x| x.0).collect();
                        if c.is_empty() { None } else { Some(*r.pick(&c)) }
                    };
                    match r.below(6) {
                        0 => {
                            lines.retain(|l| !l.starts_with(&format!("inherit {tag} ")));
                            let pos = lines.iter().position(|l| l.starts_with(&format!("mod {tag} "))).unwrap_or(0);
                            lines.insert(pos + 1, format!("inherit {tag} {nm}"));
                        }
                        1 => {
                            if let Some(k) = mine("sub", lines, r) {
                                let t = tok_of(lines, k, 4);
                                let v = match t.find('(') {
                                    Some(p) => format!("{nm}{}", &t[p..]),
                                    None => nm.clone(),
                                };
                                set_tok(lines, k, 4, v);
                            }
                        }
                        2 => {
                            if let Some(k) = mine("sub", lines, r) {
                                let t = tok_of(lines, k, 4);
                                let base = t.split('(').next().unwrap_or("A").to_string();
                                set_tok(lines, k, 4, format!("{base}({nm})"));
                            }
                        }
                        3 => {
                            let name = key.split('(').next().unwrap_or("A").trim().to_string();
                            let b = if r.chance(1, 2) { "T" } else { "U" };
                            set_tok(lines, i, 2, esc(&format!("{name}({b} <- {})", unesc(&nm))));
                        }
                        4 => {
                            if let Some(k) = mine("conn", lines, r) {
                                set_tok(lines, k, 4, nm.clone());
                            }
                        }
                        _ => {
                            if let Some(k) = idx_of(lines, r, "entry ") {
                                set_tok(lines, k, 1, nm.clone());
                            }
                        }
                    }
                }
            }
            "name-collision"
        }
        _ => {
            // whitespace inside clauses
            if let Some(i) = idx_of(lines, r, "sub ") {
                let t = tok_of(lines, i, 4);
                let v = match r.below(3) {
                    0 => format!("%20;{t}"),
                    1 => t.replace('(', "%20;("),
                    _ => t.replace(')', "%20;)"),
                };
                set_tok(lines, i, 4, v);
            }
            "whitespace"
        }
    }
}

pub fn gen(seed: u64, count: usize, thorough: bool) -> String {
    let mut r = Rng::new(seed);
    let mut out = String::new();
    for k in 0..count {
        let (mods, links, entry) = gen_valid(&mut r, thorough);
        let mut lines: Vec<String> = Vec::new();
        lines.push(format!("entry {entry}"));
        lines.extend(links);
        // interleave module blocks in random order (hash maps: order must not matter)
        let mut order: Vec<usize> = (0..mods.len()).collect();
        for i in (1..order.len()).rev() {
            order.swap(i, r.below(i as u64 + 1) as usize);
        }
        for i in order {
            lines.extend(mods[i].lines.iter().cloned());
        }
        lines.push("yaml".to_string());
        lines.push("transform".to_string());
        lines.push("build".to_string());
        let mut m = "none";
        if r.chance(3, 5) {
            m = mutate(&mut r, &mut lines);
            if r.chance(1, 6) {
                mutate(&mut r, &mut lines);
                m = "double";
            }
        }
        writeln!(out, "case {k} mut={m}").unwrap();
        for l in lines {
            writeln!(out, "{l}").unwrap();
        }
        writeln!(out, "end").unwrap();
    }
    out
}

//! `hx <prop> gen <seed> <count> <tier>`  — print generated scripts (one PRNG, replayable)
//! `hx <prop> exec`                       — read scripts on stdin, run them against the real
//!                                          implementation in /repo, print annotated transcripts
//!
//! Script / transcript format: see /verif/DESIGN.md §2 (line protocol).
mod rng;
mod util;
mod c01;

use std::io::Read;

fn main() {
    let args: Vec<String> = std::env::args().collect();
    if args.len() < 3 {
        eprintln!("usage: hx <prop> gen <seed> <count> <tier> | hx <prop> exec");
        std::process::exit(2);
    }
    // panics inside the implementation are expected observations; keep stderr quiet
    std::panic::set_hook(Box::new(|_| {}));
    let prop = args[1].as_str();
    let mode = args[2].as_str();
    match mode {
        "gen" => {
            let seed: u64 = args.get(3).and_then(|s| s.parse().ok()).unwrap_or(1);
            let count: usize = args.get(4).and_then(|s| s.parse().ok()).unwrap_or(100);
            let tier = args.get(5).map(|s| s.as_str()).unwrap_or("quick");
            let thorough = tier == "thorough";
            let out = match prop {
                "c01" | "c03" => c01::gen(seed, count, thorough, prop == "c03"),
                _ => {
                    eprintln!("unknown property {prop}");
                    std::process::exit(2);
                }
            };
            print!("{out}");
        }
        "exec" => {
            let mut input = String::new();
            std::io::stdin().read_to_string(&mut input).unwrap();
            let out = match prop {
                "c01" | "c03" => c01::exec(&input),
                _ => {
                    eprintln!("unknown property {prop}");
                    std::process::exit(2);
                }
            };
            print!("{out}");
        }
        _ => {
            eprintln!("unknown mode {mode}");
            std::process::exit(2);
        }
    }
}

//! `hx <prop> gen <seed> <count> <tier>`  — print generated scripts (one PRNG, replayable)
//! `hx <prop> exec`                       — read scripts on stdin, run them against the real
//!                                          implementation in /repo, print annotated transcripts
//!
//! Script / transcript format: see /verif/DESIGN.md §2 (line protocol) and AGENT_GUIDE.md.
mod rng;
mod util;
mod c01;
mod c02;
mod c04;
mod c05;
mod c06;
mod c07;
mod c08;
mod c09;
mod c10;
mod c11;
mod c12;
mod c13;
mod c14;
mod c15;
mod c16;
mod c17;
mod c18;
mod c19;
mod c20;

use std::io::Read;

fn main() {
    let args: Vec<String> = std::env::args().collect();
    if args.len() < 3 {
        eprintln!("usage: hx <prop> gen <seed> <count> <tier> | hx <prop> exec");
        std::process::exit(2);
    }
    // panics inside the implementation are expected observations; keep stderr quiet
    if std::env::var("HX_PANIC_MSG").is_err() {
        std::panic::set_hook(Box::new(|_| {}));
    }
    let prop = args[1].as_str();
    let mode = args[2].as_str();
    match mode {
        "gen" => {
            let seed: u64 = args.get(3).and_then(|s| s.parse().ok()).unwrap_or(1);
            let count: usize = args.get(4).and_then(|s| s.parse().ok()).unwrap_or(100);
            let tier = args.get(5).map(|s| s.as_str()).unwrap_or("quick");
            let thorough = tier == "thorough";
            let out = match prop {
                "c01" | "c03" => c01::gen(seed, count, thorough, prop == "c03"),
                "c02" => c02::gen(seed, count, thorough),
                "c04" => c04::gen(seed, count, thorough),
                "c05" => c05::gen(seed, count, thorough),
                "c06" => c06::gen(seed, count, thorough),
                "c07" => c07::gen(seed, count, thorough),
                "c08" => c08::gen(seed, count, thorough),
                "c09" => c09::gen(seed, count, thorough),
                "c10" => c10::gen(seed, count, thorough),
                "c11" => c11::gen(seed, count, thorough),
                "c12" => c12::gen(seed, count, thorough),
                "c13" => c13::gen(seed, count, thorough),
                "c14" => c14::gen(seed, count, thorough),
                "c15" => c15::gen(seed, count, thorough),
                "c16" => c16::gen(seed, count, thorough),
                "c17" => c17::gen(seed, count, thorough),
                "c18" => c18::gen(seed, count, thorough),
                "c19" => c19::gen(seed, count, thorough),
                "c20" => c20::gen(seed, count, thorough),
                _ => {
                    eprintln!("unknown property {prop}");
                    std::process::exit(2);
                }
            };
            print!("{out}");
        }
        "exec" => {
            let mut input = String::new();
            std::io::stdin().read_to_string(&mut input).unwrap();
            let out = match prop {
                "c01" | "c03" => c01::exec(&input),
                "c02" => c02::exec(&input),
                "c04" => c04::exec(&input),
                "c05" => c05::exec(&input),
                "c06" => c06::exec(&input),
                "c07" => c07::exec(&input),
                "c08" => c08::exec(&input),
                "c09" => c09::exec(&input),
                "c10" => c10::exec(&input),
                "c11" => c11::exec(&input),
                "c12" => c12::exec(&input),
                "c13" => c13::exec(&input),
                "c14" => c14::exec(&input),
                "c15" => c15::exec(&input),
                "c16" => c16::exec(&input),
                "c17" => c17::exec(&input),
                "c18" => c18::exec(&input),
                "c19" => c19::exec(&input),
                "c20" => c20::exec(&input),
                _ => {
                    eprintln!("unknown property {prop}");
                    std::process::exit(2);
                }
            };
            print!("{out}");
        }
        _ => {
            eprintln!("unknown mode {mode}");
            std::process::exit(2);
        }
    }
}

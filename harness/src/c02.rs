//! C02 / C10 / C11: scripted sessions on the real `des::runtime::Runtime`.
//!
//! Script:
//!   case <id> n=<buckets> t=<bucket ns> start=<ns> [unit=<k>]
//!       unit=<k>: every time of the script (t, start, delays, absolute times, limits) counts units of k ns; the
//!       harness multiplies by k towards the implementation and divides what it reads back, so the transcript (and
//!       the model, whose bucket arithmetic is invariant under scaling) is that of the unscaled case. Used to move
//!       whole sessions beyond 2^64 ns (584 years) of simulated time.
//!   builder max_itr <n> | builder max_time <ns> | builder limit <expr>      expr = none | ec:N | st:N | and(A,B) | or(A,B)
//!   node <id> <act>*            act = +<delay>:<child> | -<delay>:<child>   (handler of node <id> calls add_event at now±delay)
//!   add <abs ns> <node>         external add_event (before start, or while paused)
//!   stepn <n>                   dispatch_n_events
//!   until <abs ns>              dispatch_events_until
//!   run                         dispatch_all
//!   end                         (finish() is always called)
//! Transcript: the same lines, each command followed by observation lines
//!   > h <node> <SimTime::now() in the handler>
//!   > a <node> <abs ns> ok|rej          an add_event call returned / panicked
//!   > p itr=<dispatched> now=<sim_time> rem=<remaining> sched=<scheduled>
//!   > fin time=<ns> count=<event_count> rem=<node>@<ns>,…   (remaining events in the order finish() drained them)
use crate::rng::Rng;
use crate::util::{cases, guarded, hval};
use des::prelude::*;
use des::runtime::{Application, Builder, Event, EventLifecycle, Runtime, RuntimeLimit};
use std::fmt::Write;
use std::time::Duration;

#[derive(Clone, Copy)]
struct Act {
    back: bool,
    delay: u64,
    node: usize,
}

struct App {
    prog: Vec<Vec<Act>>,
    log: Vec<String>,
}

struct Ev(usize);

impl Application for App {
    type EventSet = Ev;
    type Lifecycle = ();
}

thread_local! {
    static UNIT: std::cell::Cell<u128> = const { std::cell::Cell::new(1) };
}

fn dur(units: u64) -> Duration {
    let ns = units as u128 * UNIT.with(|u| u.get());
    Duration::new((ns / 1_000_000_000) as u64, (ns % 1_000_000_000) as u32)
}

fn st(units: u64) -> SimTime {
    SimTime::from_duration(dur(units))
}

fn ns(t: SimTime) -> u128 {
    t.as_nanos() / UNIT.with(|u| u.get())
}

impl Event<App> for Ev {
    fn handle(self, rt: &mut Runtime<App>) {
        let now = ns(SimTime::now()) as u64;
        rt.app.log.push(format!("> h {} {}", self.0, now));
        let acts = rt.app.prog.get(self.0).cloned().unwrap_or_default();
        for a in acts {
            let time = if a.back { now.saturating_sub(a.delay) } else { now + a.delay };
            // forward adds go through add_event_in (relative delay) or add_event (absolute time): same meaning
            let ok = if !a.back && (a.delay + a.node as u64) % 2 == 0 {
                guarded(|| rt.add_event_in(Ev(a.node), dur(a.delay))).is_ok()
            } else {
                guarded(|| rt.add_event(Ev(a.node), st(time))).is_ok()
            };
            rt.app.log.push(format!("> a {} {} {}", a.node, time, if ok { "ok" } else { "rej" }));
        }
    }
}

fn parse_limit(s: &str) -> Option<(RuntimeLimit, &str)> {
    if let Some(r) = s.strip_prefix("none") {
        return Some((RuntimeLimit::None, r));
    }
    if let Some(r) = s.strip_prefix("ec:") {
        let end = r.find(|c: char| !c.is_ascii_digit()).unwrap_or(r.len());
        return Some((RuntimeLimit::EventCount(r[..end].parse().ok()?), &r[end..]));
    }
    if let Some(r) = s.strip_prefix("st:") {
        let end = r.find(|c: char| !c.is_ascii_digit()).unwrap_or(r.len());
        return Some((RuntimeLimit::SimTime(st(r[..end].parse().ok()?)), &r[end..]));
    }
    for (pre, and) in [("and(", true), ("or(", false)] {
        if let Some(r) = s.strip_prefix(pre) {
            let (a, r) = parse_limit(r)?;
            let r = r.strip_prefix(',')?;
            let (b, r) = parse_limit(r)?;
            let r = r.strip_prefix(')')?;
            let l = if and {
                RuntimeLimit::CombinedAnd(Box::new(a), Box::new(b))
            } else {
                RuntimeLimit::CombinedOr(Box::new(a), Box::new(b))
            };
            return Some((l, r));
        }
    }
    None
}

fn drain_log(rt: &mut Runtime<App>, out: &mut String) {
    for l in rt.app.log.drain(..) {
        writeln!(out, "{l}").unwrap();
    }
}

fn paused(rt: &Runtime<App>, out: &mut String) {
    writeln!(
        out,
        "> p itr={} now={} rem={} sched={}",
        rt.num_events_dispatched(),
        ns(rt.sim_time()),
        rt.num_events_remaining(),
        rt.num_events_scheduled()
    )
    .unwrap();
}

pub fn exec(input: &str) -> String {
    let mut out = String::new();
    for (header, body) in cases(input) {
        let n: usize = hval(&header, "n").and_then(|v| v.parse().ok()).unwrap_or(1028);
        let t: u64 = hval(&header, "t").and_then(|v| v.parse().ok()).unwrap_or(2_500_000);
        let start: u64 = hval(&header, "start").and_then(|v| v.parse().ok()).unwrap_or(0);
        let unit: u128 = hval(&header, "unit").and_then(|v| v.parse().ok()).unwrap_or(1);
        UNIT.with(|u| u.set(unit.max(1)));
        writeln!(out, "{header}").unwrap();
        let mut builder = Builder::seeded(1).quiet().start_time(st(start)).cqueue_options(n, dur(t));
        let mut prog: Vec<Vec<Act>> = Vec::new();
        let mut cmds: Vec<String> = Vec::new();
        for line in &body {
            if line.starts_with('>') {
                continue;
            }
            let tok: Vec<&str> = line.split_whitespace().collect();
            match tok.as_slice() {
                ["builder", "max_itr", v] => {
                    if let Ok(v) = v.parse() {
                        builder = builder.max_itr(v);
                        writeln!(out, "{line}").unwrap();
                    }
                }
                ["builder", "max_time", v] => {
                    if let Ok(v) = v.parse() {
                        builder = builder.max_time(st(v));
                        writeln!(out, "{line}").unwrap();
                    }
                }
                ["builder", "limit", e] => {
                    if let Some((l, "")) = parse_limit(e) {
                        builder = builder.limit(l);
                        writeln!(out, "{line}").unwrap();
                    }
                }
                ["node", id, acts @ ..] => {
                    let Ok(id) = id.parse::<usize>() else { continue };
                    if id > 4096 {
                        continue;
                    }
                    let mut v = Vec::new();
                    for a in acts {
                        let (back, rest) = match a.chars().next() {
                            Some('+') => (false, &a[1..]),
                            Some('-') => (true, &a[1..]),
                            _ => continue,
                        };
                        let mut it = rest.split(':');
                        if let (Some(d), Some(c)) = (it.next(), it.next()) {
                            if let (Ok(d), Ok(c)) = (d.parse(), c.parse()) {
                                v.push(Act { back, delay: d, node: c });
                            }
                        }
                    }
                    if prog.len() <= id {
                        prog.resize(id + 1, Vec::new());
                    }
                    prog[id] = v;
                    writeln!(out, "{line}").unwrap();
                }
                _ => cmds.push(line.clone()),
            }
        }
        let mut rt = builder.build(App { prog, log: Vec::new() });
        let mut started = false;
        for line in cmds {
            let tok: Vec<&str> = line.split_whitespace().collect();
            match tok.as_slice() {
                ["add", time, node] => {
                    let (Ok(time), Ok(node)) = (time.parse::<u64>(), node.parse::<usize>()) else { continue };
                    writeln!(out, "{line}").unwrap();
                    // external adds not in the past alternate between add_event (absolute) and add_event_in (relative to
                    // the paused / not yet started runtime's sim_time): same meaning
                    let now = ns(rt.sim_time()) as u64;
                    let ok = if time >= now && (time + node as u64) % 2 == 0 {
                        guarded(|| rt.add_event_in(Ev(node), dur(time - now))).is_ok()
                    } else {
                        guarded(|| rt.add_event(Ev(node), st(time))).is_ok()
                    };
                    writeln!(out, "> a {} {} {}", node, time, if ok { "ok" } else { "rej" }).unwrap();
                }
                ["stepn", k] => {
                    let Ok(k) = k.parse::<usize>() else { continue };
                    if !started {
                        rt.start();
                        started = true;
                    }
                    writeln!(out, "{line}").unwrap();
                    if guarded(|| rt.dispatch_n_events(k)).is_err() {
                        writeln!(out, "> panic").unwrap();
                    }
                    drain_log(&mut rt, &mut out);
                }
                ["until", time] => {
                    let Ok(time) = time.parse::<u64>() else { continue };
                    if !started {
                        rt.start();
                        started = true;
                    }
                    writeln!(out, "{line}").unwrap();
                    if guarded(|| rt.dispatch_events_until(st(time))).is_err() {
                        writeln!(out, "> panic").unwrap();
                    }
                    drain_log(&mut rt, &mut out);
                }
                ["run"] => {
                    if !started {
                        rt.start();
                        started = true;
                    }
                    writeln!(out, "{line}").unwrap();
                    if guarded(|| rt.dispatch_all()).is_err() {
                        writeln!(out, "> panic").unwrap();
                    }
                    drain_log(&mut rt, &mut out);
                }
                _ => continue,
            }
            paused(&rt, &mut out);
        }
        if !started {
            rt.start();
        }
        match guarded(move || rt.finish()) {
            Ok(Ok((_app, time, prof))) => {
                let rem: Vec<String> = prof.remaining.iter().map(|(e, t)| format!("{}@{}", e.0, ns(*t))).collect();
                writeln!(out, "> fin time={} count={} rem={}", ns(time), prof.event_count, if rem.is_empty() { "-".to_string() } else { rem.join(",") }).unwrap();
            }
            Ok(Err(_)) => writeln!(out, "> fin error").unwrap(),
            Err(_) => writeln!(out, "> fin panic").unwrap(),
        }
        writeln!(out, "end").unwrap();
    }
    out
}

// ---------------------------------------------------------------------------------- generators

const NS: [u64; 6] = [1, 2, 3, 7, 32, 1028];
const TS: [u64; 7] = [1, 3, 1_000, 1_500, 2_500, 1_000_001, 2_500_000];

fn delay(r: &mut Rng, n: u64, t: u64) -> u64 {
    match r.below(10) {
        0 | 1 | 2 => 0,
        3 => 1,
        4 => t,
        5 => n * t,
        6 => r.below(4),
        7 => t * r.below(5),
        8 => n * t + r.below(3),
        _ => r.below(3 * t + 2),
    }
}

struct Forest {
    text: String,
    nodes: usize,
    /// upper bound on any timestamp reached
    horizon: u64,
    roots: Vec<(u64, usize)>,
}

fn forest(r: &mut Rng, n: u64, t: u64, start: u64, thorough: bool) -> Forest {
    let nodes = if thorough { r.range(2, 40) } else { r.range(2, 14) } as usize;
    let mut text = String::new();
    let mut maxd = 0u64;
    for i in 0..nodes {
        let k = if i + 1 >= nodes { 0 } else { r.below(4) };
        let mut line = format!("node {i}");
        for _ in 0..k {
            let child = r.range(i as u64 + 1, nodes as u64 - 1);
            let d = delay(r, n, t);
            maxd = maxd.max(d);
            if r.chance(1, 12) {
                write!(line, " -{}:{}", r.range(1, 3) * if r.chance(1, 2) { 1 } else { t }, child).unwrap();
            } else {
                write!(line, " +{d}:{child}").unwrap();
            }
        }
        writeln!(text, "{line}").unwrap();
    }
    let mut roots = Vec::new();
    let nroots = r.range(1, 4);
    let mut maxroot = start;
    for _ in 0..nroots {
        let mut time = start + delay(r, n, t);
        if r.chance(1, 4) {
            // just below / at / just above an absolute bucket boundary (the start time is not bucket aligned)
            let b = (start / t + r.range(1, 3)) * t;
            time = (b + r.below(3)).saturating_sub(r.below(3)).max(start);
        }
        maxroot = maxroot.max(time);
        roots.push((time, r.below(nodes as u64 / 2 + 1) as usize));
    }
    Forest { text, nodes, horizon: maxroot + maxd * nodes as u64 + 1, roots }
}

fn limit_expr(r: &mut Rng, depth: u32, total: u64, horizon: u64, start: u64) -> String {
    let leaf = depth == 0 || r.chance(1, 2);
    if leaf {
        if r.chance(1, 8) {
            // RuntimeLimit::None as an operand: never fulfilled (neutral for Or, absorbing for And)
            "none".to_string()
        } else if r.chance(1, 2) {
            format!("ec:{}", r.below(total + 3))
        } else {
            format!("st:{}", start.saturating_sub(1) + r.below(horizon - start.min(horizon) + 3))
        }
    } else {
        let a = limit_expr(r, depth - 1, total, horizon, start);
        let b = limit_expr(r, depth - 1, total, horizon, start);
        format!("{}({a},{b})", if r.chance(1, 2) { "and" } else { "or" })
    }
}

/// which = 2 (C02: clock / past scheduling), 10 (stepping), 11 (limits)
pub fn gen_for(which: u32, seed: u64, count: usize, thorough: bool) -> String {
    let mut r = Rng::new(seed ^ (which as u64) << 32);
    let mut out = String::new();
    for k in 0..count {
        let n = *r.pick(&NS);
        let mut t = *r.pick(&TS);
        // keep (start / t) small: the real scan loop is O(gap / t)
        let mut start = if r.chance(1, 2) { 0 } else { *r.pick(&[1u64, 5, 1_000, 20_000]) * r.range(1, 3) * if r.chance(1, 2) { t } else { 1 } };
        // one session in eight lives around / beyond 2^64 ns (584.5 years) of simulated time: 1 unit = 1 s,
        // buckets of 2.5e6 s, start just below the 64-bit nanosecond boundary (the run crosses it) or beyond it
        let far = r.chance(1, 8);
        // one session in eight has very coarse buckets (2.5e15 ns = 29 days) and starts months to decades into simulated
        // time, with nanosecond-scale offsets between events (times beyond 2^53 ns are not exactly representable as f64 seconds)
        let coarse = !far && r.chance(1, 7);
        let n = if coarse { n.min(32) } else { n };
        if coarse {
            t = 2_500_000_000_000_000;
            start = *r.pick(&[4u64, 40, 400]) * t + r.below(200);
            if r.chance(1, 5) {
                // a width that is not exactly representable in f64 seconds (100.1 s) under a start time of decades
                // (a unix timestamp): ~2*10^7 buckets lie between 0 and the start, so this stays rare
                t = 100_100_000_000;
                start = *r.pick(&[1_700_000_000u64, 1_700_000_001, 946_684_800]) * 1_000_000_000 + r.below(3);
            }
        }
        if far {
            t = 2_500_000;
            start = *r.pick(&[7_000u64, 7_300, 7_378, 7_379, 8_000, 20_000, 40_000]) * t + r.below(3);
            writeln!(out, "case {k} n={n} t={t} start={start} unit=1000000000").unwrap();
        } else {
            writeln!(out, "case {k} n={n} t={t} start={start}").unwrap();
        }
        let f = forest(&mut r, n, t, start, thorough);
        let total = f.nodes as u64 * 2;
        // C11: one session in six has NO builder limit (or an explicit RuntimeLimit::None / And(None, x)) and is
        // cut by the temporary limits of the stepping calls instead
        let unlimited = which == 11 && r.chance(1, 6);
        if unlimited {
            match r.below(3) {
                0 => {}
                1 => writeln!(out, "builder limit none").unwrap(),
                _ => writeln!(out, "builder limit and(none,ec:{})", r.below(total + 2)).unwrap(),
            }
        }
        if (which == 11 && !unlimited) || (which == 10 && r.chance(1, 6)) {
            for _ in 0..r.range(1, 3) {
                match r.below(3) {
                    0 => writeln!(out, "builder max_itr {}", r.below(total + 2)).unwrap(),
                    1 => writeln!(out, "builder max_time {}", start.saturating_sub(1) + r.below(f.horizon - start + 3)).unwrap(),
                    _ => writeln!(out, "builder limit {}", limit_expr(&mut r, 3, total, f.horizon, start)).unwrap(),
                }
            }
        }
        out.push_str(&f.text);
        for (time, node) in &f.roots {
            writeln!(out, "add {time} {node}").unwrap();
        }
        if which == 2 {
            // probe the past before the run (matters when start > 0) and at the boundary
            if start > 0 && r.chance(2, 3) {
                writeln!(out, "add {} {}", start - r.range(1, start.min(3)), r.below(f.nodes as u64)).unwrap();
            }
            if r.chance(1, 3) {
                writeln!(out, "add {} {}", start, r.below(f.nodes as u64)).unwrap();
            }
            // started but nothing dispatched yet (the event set's own clock is still 0): the past must still be rejected
            if r.chance(1, 3) {
                writeln!(out, "{}", if r.chance(1, 2) { "stepn 0".to_string() } else { format!("until {}", start.saturating_sub(1)) }).unwrap();
                if start > 0 {
                    writeln!(out, "add {} {}", start - r.range(1, start.min(3)), r.below(f.nodes as u64)).unwrap();
                }
                writeln!(out, "add {} {}", start + r.below(2), r.below(f.nodes as u64)).unwrap();
            }
        }
        if which == 10 {
            let steps = r.range(1, 6);
            for _ in 0..steps {
                match r.below(5) {
                    0 | 1 => writeln!(out, "stepn {}", r.below(4)).unwrap(),
                    2 => writeln!(out, "until {}", start + r.below(f.horizon - start + 2)).unwrap(),
                    3 => writeln!(out, "until {}", start + delay(&mut r, n, t) * r.below(3)).unwrap(),
                    _ => {
                        // external add while paused: around "now" (unknown here: use small offsets from start
                        // and from typical event times) — early times are legitimately rejected
                        let base = if r.chance(1, 2) { start } else { start + delay(&mut r, n, t) };
                        let time = if r.chance(1, 5) { base.saturating_sub(r.range(1, 3)) } else { base + r.below(3) };
                        writeln!(out, "add {} {}", time, r.below(f.nodes as u64)).unwrap();
                    }
                }
            }
        }
        if unlimited {
            for _ in 0..r.range(1, 3) {
                if r.chance(1, 2) {
                    writeln!(out, "stepn {}", r.below(4)).unwrap();
                } else {
                    writeln!(out, "until {}", start + r.below(f.horizon - start + 2)).unwrap();
                }
            }
        }
        writeln!(out, "run").unwrap();
        if which == 11 && r.chance(1, 2) {
            // the limit stopped the run (or it ran dry): events added afterwards that the limit still admits must be
            // dispatched by the next run, the others must stay remaining - wherever they fall relative to the event
            // the limit check last looked at
            for _ in 0..r.range(1, 3) {
                let time = start + r.below(f.horizon - start + 2);
                writeln!(out, "add {} {}", time, r.below(f.nodes as u64)).unwrap();
            }
            writeln!(out, "run").unwrap();
        }
        if which == 10 && r.chance(1, 4) {
            writeln!(out, "add {} {}", start + f.horizon + r.below(5), r.below(f.nodes as u64)).unwrap();
            writeln!(out, "run").unwrap();
        }
        writeln!(out, "end").unwrap();
    }
    out
}

pub fn gen(seed: u64, count: usize, thorough: bool) -> String {
    gen_for(2, seed, count, thorough)
}

//! C17: harness module (stub — not built yet)
#![allow(dead_code, unused_imports, unused_variables)]
use crate::rng::Rng;
use crate::util::{cases, guarded, hval};

pub fn gen(_seed: u64, _count: usize, _thorough: bool) -> String {
    String::new()
}

pub fn exec(_input: &str) -> String {
    String::new()
}

//! C17: configuration entries reach exactly the modules they address.
//!
//! Script lines (all self-contained; entries are `dotted.key=value` tokens, values `[a-z0-9]+`):
//!   cfg <entry>...                 `SimBuilder::include_cfg` of the flat YAML mapping with these entries
//!   node <path>                    `SimBuilder::node(path, <empty module>)`
//!   props <path>                   sorted `ModuleContext::props_keys` with `prop_raw(k).as_value()`
//!   cap <path> <entry>...          `Cfg::new(flat mapping).capture_for_into(path)`: sorted keys + raw values
//!   read  <path> <key> <str|u64>   `prop::<T>(key)` then `Prop::get`
//!   readd <path> <key> <str|u64>   `prop::<T>(key)` then `or_default().get()`
//!   write <path> <key> <str|u64> <val>   `prop::<T>(key)` then `set(val)`
//!   open <path> <key> <str|u64> <h>      `prop::<T>(key)`; on success the handle is kept alive under the name <h>
//!   hget <h> | hdef <h> | hset <h> <val> | hclear <h> | hdrop <h>
//!                                  `Prop::get` / `or_default()` (the handle stays upgraded) then `get` /
//!                                  `set(val)` / `Prop::clear(self)` / drop, through the live handle <h>
//!                                  (lines naming a handle that is not alive are skipped)
//!   clear <path> <key>             `prop_raw(key).clear()`
//! Transcript: the same lines extended with ` -> <answer>`:
//!   cfg  -> ok | err (YAML text rejected by serde_yml: the include is silently ignored) | panic
//!   node -> ok | panic
//!   props/cap -> `-` | `k=v;k=v` (keys sorted; `~` = empty string; `!` = empty slot; `#n` number;
//!                `{k:v,..}` mapping in stored order) | nomod | panic
//!   read/readd/write/open/h* -> none | s:<text> | n:<number> | ok | invalid | other | nomod | panic
//! The YAML text is generated with every key and every scalar double-quoted (serde_yml parsing is an input).
use crate::rng::Rng;
use crate::util::{cases, guarded};
use des::prelude::*;
use des_net_utils::props::{Cfg, Prop, PropType, Props};
use serde_yml::Value;
use std::fmt::Write;
use std::io::ErrorKind;

const ANY: &str = "<any>";
const MODSEG: [&str; 7] = ["a", "al", "alice", "alicent", "é", "b", "aé"];
const NAMESEG: [&str; 7] = ["x", "y", "a", "al", "b", "tcp", "é"];

struct Empty;
impl Module for Empty {}

// ------------------------------------------------------------------------------------ generator

fn sibling(r: &mut Rng, s: &str) -> String {
    // a name that shares a textual prefix with `s` where possible
    let fam: &[&str] = match s {
        "a" | "al" | "alice" | "alicent" | "aé" => &["a", "al", "alice", "alicent", "aé"],
        _ => &MODSEG,
    };
    r.pick(fam).to_string()
}

fn gen_entry_key(r: &mut Rng, mods: &[Vec<String>]) -> Vec<String> {
    let base: Vec<String> = if !mods.is_empty() && r.chance(5, 6) {
        r.pick(mods).clone()
    } else {
        (0..r.range(1, 3)).map(|_| r.pick(&MODSEG).to_string()).collect()
    };
    let mut q: Vec<String> = Vec::new();
    for s in &base {
        let x = r.below(100);
        if x < 55 {
            q.push(s.clone());
        } else if x < 82 {
            q.push(ANY.to_string());
        } else {
            q.push(sibling(r, s));
        }
    }
    // sometimes address the parent or a deeper module
    if q.len() > 1 && r.chance(1, 8) {
        q.pop();
    }
    if r.chance(1, 10) {
        q.push(if r.chance(1, 2) { ANY.to_string() } else { r.pick(&MODSEG).to_string() });
    }
    let nlen = match r.below(10) {
        0..=5 => 1,
        6..=8 => 2,
        _ => 3,
    };
    for i in 0..nlen {
        if i + 1 < nlen && r.chance(1, 14) {
            q.push(ANY.to_string()); // wildcard inside what looks like the name: addresses a deeper module
        } else {
            q.push(r.pick(&NAMESEG).to_string());
        }
    }
    if r.chance(1, 40) {
        q.push(ANY.to_string()); // outside the specified domain (key ends in the wildcard): model only
    }
    q
}

fn gen_cfg(r: &mut Rng, mods: &[Vec<String>], val: &mut u64, max: u64) -> Vec<String> {
    let n = r.range(1, max);
    let mut keys: Vec<String> = Vec::new();
    let mut out = Vec::new();
    for _ in 0..n {
        let mut k = gen_entry_key(r, mods).join(".");
        // provoke the scalar-prefix situation (F11b class) now and then
        if !keys.is_empty() && r.chance(1, 30) {
            let other = r.pick(&keys).clone();
            if let Some(i) = other.find(".<any>") {
                if i > 0 {
                    k = other[..i].to_string();
                }
            } else {
                k = format!("{other}.<any>.x");
            }
        }
        if keys.contains(&k) {
            continue;
        }
        keys.push(k.clone());
        *val += 1;
        out.push(format!("{k}=v{val}"));
    }
    out
}

pub fn gen(seed: u64, count: usize, thorough: bool) -> String {
    let mut r = Rng::new(seed);
    let mut out = String::new();
    for k in 0..count {
        writeln!(out, "case {k}").unwrap();
        // module tree: one spine of depth 1..4 plus prefix-sharing siblings
        let depth = r.range(1, 4) as usize;
        let spine: Vec<String> = (0..depth).map(|_| r.pick(&MODSEG).to_string()).collect();
        let mut mods: Vec<Vec<String>> = (1..=depth).map(|d| spine[..d].to_vec()).collect();
        for _ in 0..r.range(0, 3) {
            let d = r.range(1, depth as u64) as usize;
            let mut p = spine[..d].to_vec();
            p[d - 1] = sibling(&mut r, &spine[d - 1]);
            if !mods.contains(&p) {
                mods.push(p);
            }
        }
        let mut val = 0u64;
        let ncfg = if r.chance(1, 3) { 1 } else { r.range(1, 3) };
        let maxe = if thorough { 9 } else { 6 };
        let cfgs: Vec<Vec<String>> = (0..ncfg).map(|_| gen_cfg(&mut r, &mods, &mut val, maxe)).collect();
        // interleave includes with node creation (parents first)
        let mut pos: Vec<usize> = (0..ncfg).map(|_| r.below(mods.len() as u64 + 1) as usize).collect();
        pos.sort();
        let mut ci = 0;
        for (i, m) in mods.iter().enumerate() {
            while ci < pos.len() && pos[ci] == i {
                writeln!(out, "cfg {}", cfgs[ci].join(" ")).unwrap();
                ci += 1;
            }
            writeln!(out, "node {}", m.join(".")).unwrap();
            if r.chance(1, 40) {
                writeln!(out, "node {}", m.join(".")).unwrap(); // duplicate: must be refused
            }
        }
        while ci < pos.len() {
            writeln!(out, "cfg {}", cfgs[ci].join(" ")).unwrap();
            ci += 1;
        }
        if r.chance(1, 30) {
            writeln!(out, "node {}.{}.x", spine.join("."), r.pick(&MODSEG)).unwrap(); // parent missing
        }
        for m in &mods {
            writeln!(out, "props {}", m.join(".")).unwrap();
        }
        // the same configurations directly through Cfg::capture_for_into, also for paths without a module
        for c in &cfgs {
            if c.is_empty() {
                continue;
            }
            let npaths = if thorough { 4 } else { 2 };
            for _ in 0..npaths {
                let p: Vec<String> = if r.chance(2, 3) {
                    r.pick(&mods).clone()
                } else {
                    (0..r.range(1, 4)).map(|_| r.pick(&MODSEG).to_string()).collect()
                };
                writeln!(out, "cap {} {}", p.join("."), c.join(" ")).unwrap();
            }
        }
        // typed access
        let names: Vec<String> = cfgs
            .iter()
            .flatten()
            .filter_map(|e| e.split('=').next())
            .filter_map(|k| k.rsplit('.').next().map(str::to_string))
            .filter(|s| s != ANY)
            .collect();
        for _ in 0..r.range(0, 2) {
            let m = r.pick(&mods).join(".");
            let key = if !names.is_empty() && r.chance(3, 4) { r.pick(&names).clone() } else { "zz".to_string() };
            for _ in 0..r.range(2, 5) {
                let ty = if r.chance(1, 2) { "str" } else { "u64" };
                match r.below(4) {
                    0 | 1 => writeln!(out, "read {m} {key} {ty}").unwrap(),
                    2 => writeln!(out, "readd {m} {key} {ty}").unwrap(),
                    _ => {
                        let v = if ty == "str" { format!("w{}", r.below(9)) } else { format!("{}", r.below(90)) };
                        writeln!(out, "write {m} {key} {ty} {v}").unwrap()
                    }
                }
            }
            writeln!(out, "props {m}").unwrap();
        }
        // several live handles on one property: stale handles, clear, re-typing after a clear
        let mut hn = 0u64;
        for _ in 0..(if r.chance(1, 2) { r.range(1, 2) } else { 0 }) {
            let m = r.pick(&mods).join(".");
            let key = if !names.is_empty() && r.chance(1, 2) { r.pick(&names).clone() } else { "hh".to_string() };
            let mut mine: Vec<(String, &str)> = Vec::new();
            let nops = if thorough { r.range(4, 16) } else { r.range(4, 10) };
            for i in 0..nops {
                let x = if i < 2 { 0 } else { r.below(20) };
                match x {
                    0..=3 => {
                        hn += 1;
                        let ty = if r.chance(1, 2) { "str" } else { "u64" };
                        writeln!(out, "open {m} {key} {ty} h{hn}").unwrap();
                        mine.push((format!("h{hn}"), ty));
                    }
                    4..=16 if !mine.is_empty() => {
                        let (h, ty) = r.pick(&mine).clone();
                        match x {
                            4..=7 => writeln!(out, "hget {h}").unwrap(),
                            8..=9 => writeln!(out, "hdef {h}").unwrap(),
                            10..=14 => {
                                let v = if ty == "str" { format!("w{}", r.below(9)) } else { format!("{}", r.below(90)) };
                                writeln!(out, "hset {h} {v}").unwrap()
                            }
                            15 => writeln!(out, "hclear {h}").unwrap(),
                            _ => writeln!(out, "hdrop {h}").unwrap(),
                        }
                    }
                    17 | 18 => writeln!(out, "clear {m} {key}").unwrap(),
                    _ => {
                        let ty = if r.chance(1, 2) { "str" } else { "u64" };
                        if r.chance(1, 2) {
                            writeln!(out, "read {m} {key} {ty}").unwrap()
                        } else {
                            let v = if ty == "str" { format!("w{}", r.below(9)) } else { format!("{}", r.below(90)) };
                            writeln!(out, "write {m} {key} {ty} {v}").unwrap()
                        }
                    }
                }
            }
            writeln!(out, "props {m}").unwrap();
        }
        writeln!(out, "end").unwrap();
    }
    out
}

// ------------------------------------------------------------------------------------- executor

fn yaml_of(entries: &[&str]) -> String {
    let mut s = String::new();
    for e in entries {
        let (k, v) = e.split_once('=').unwrap_or((e, ""));
        writeln!(s, "\"{k}\": \"{v}\"").unwrap();
    }
    if entries.is_empty() {
        s.push_str("{}\n");
    }
    s
}

fn ren_str(s: &str) -> String {
    if s.is_empty() {
        "~".to_string()
    } else {
        s.to_string()
    }
}

fn ren_val(v: &Value) -> String {
    match v {
        Value::String(s) => ren_str(s),
        Value::Number(n) => format!("#{n}"),
        Value::Bool(b) => format!("bool:{b}"),
        Value::Null => "null".to_string(),
        Value::Mapping(m) => {
            let parts: Vec<String> = m.iter().map(|(k, v)| format!("{}:{}", ren_val(k), ren_val(v))).collect();
            format!("{{{}}}", parts.join(","))
        }
        _ => "?".to_string(),
    }
}

fn ren_props(mut kv: Vec<(String, Option<Value>)>) -> String {
    kv.sort_by(|a, b| a.0.cmp(&b.0));
    if kv.is_empty() {
        return "-".to_string();
    }
    kv.iter()
        .map(|(k, v)| format!("{}={}", ren_str(k), v.as_ref().map_or("!".to_string(), ren_val)))
        .collect::<Vec<_>>()
        .join(";")
}

trait Ren: PropType + Clone + Default {
    fn ren(&self) -> String;
    fn parse(s: &str) -> Self;
}
impl Ren for String {
    fn ren(&self) -> String {
        format!("s:{}", ren_str(self))
    }
    fn parse(s: &str) -> Self {
        s.to_string()
    }
}
impl Ren for u64 {
    fn ren(&self) -> String {
        format!("n:{self}")
    }
    fn parse(s: &str) -> Self {
        s.parse().unwrap_or(0)
    }
}

fn typed<T: Ren>(m: &ModuleRef, op: &str, key: &str, val: Option<&str>) -> String {
    let p: Result<Prop<T>, std::io::Error> = m.prop::<T>(key);
    match p {
        Err(e) if e.kind() == ErrorKind::InvalidInput => "invalid".to_string(),
        Err(_) => "other".to_string(),
        Ok(mut p) => match op {
            "read" => p.get().map_or("none".to_string(), |v| v.ren()),
            "readd" => p.or_default().get().ren(),
            _ => {
                p.set(T::parse(val.unwrap_or("0")));
                "ok".to_string()
            }
        },
    }
}

/// a live handle of either type, upgraded (`PRESENT`) or not
enum H {
    SF(Prop<String, false>),
    ST(Prop<String, true>),
    UF(Prop<u64, false>),
    UT(Prop<u64, true>),
}

fn open_h<T: Ren>(m: &ModuleRef, key: &str) -> Result<Prop<T>, String> {
    match m.prop::<T>(key) {
        Err(e) if e.kind() == ErrorKind::InvalidInput => Err("invalid".to_string()),
        Err(_) => Err("other".to_string()),
        Ok(p) => Ok(p),
    }
}

fn opt_ren<T: Ren>(v: Result<Option<T>, String>) -> String {
    match v {
        Ok(Some(v)) => v.ren(),
        Ok(None) => "none".to_string(),
        Err(_) => "panic".to_string(),
    }
}

/// one operation through a live handle: (answer, handle afterwards)
fn handle_op(h: H, op: &str, val: Option<&str>) -> (String, Option<H>) {
    match op {
        "hget" => {
            let a = match &h {
                H::SF(p) => opt_ren(guarded(|| p.get())),
                H::ST(p) => opt_ren(guarded(|| Some(p.get()))),
                H::UF(p) => opt_ren(guarded(|| p.get())),
                H::UT(p) => opt_ren(guarded(|| Some(p.get()))),
            };
            (a, Some(h))
        }
        "hdef" => {
            let h = match h {
                H::SF(p) => H::ST(p.or_default()),
                H::UF(p) => H::UT(p.or_default()),
                other => other,
            };
            let a = match &h {
                H::ST(p) => opt_ren(guarded(|| Some(p.get()))),
                H::UT(p) => opt_ren(guarded(|| Some(p.get()))),
                _ => unreachable!(),
            };
            (a, Some(h))
        }
        "hset" => {
            let v = val.unwrap_or("0");
            let mut h = h;
            let r = match &mut h {
                H::SF(p) => guarded(|| p.set(String::parse(v))),
                H::ST(p) => guarded(|| p.set(String::parse(v))),
                H::UF(p) => guarded(|| p.set(u64::parse(v))),
                H::UT(p) => guarded(|| p.set(u64::parse(v))),
            };
            (if r.is_ok() { "ok" } else { "panic" }.to_string(), Some(h))
        }
        "hclear" => {
            match h {
                H::SF(p) => p.clear(),
                H::ST(p) => p.clear(),
                H::UF(p) => p.clear(),
                H::UT(p) => p.clear(),
            }
            ("ok".to_string(), None)
        }
        _ => {
            drop(h);
            ("ok".to_string(), None)
        }
    }
}

pub fn exec(input: &str) -> String {
    let mut out = String::new();
    for (header, body) in cases(input) {
        writeln!(out, "{header}").unwrap();
        let mut sim = Some(Sim::new(()));
        let mut dead = false;
        let mut handles: std::collections::HashMap<String, H> = std::collections::HashMap::new();
        for line in body {
            if dead {
                break;
            }
            let tok: Vec<&str> = line.split_whitespace().collect();
            let ans: String = match tok.as_slice() {
                ["cfg", entries @ ..] => {
                    let text = yaml_of(entries);
                    let parses = serde_yml::from_str::<Value>(&text).is_ok();
                    let s = sim.as_mut().unwrap();
                    match guarded(|| s.include_cfg(&text)) {
                        Ok(()) => if parses { "ok" } else { "err" }.to_string(),
                        Err(_) => {
                            dead = true; // locks inside the builder are poisoned now
                            "panic".to_string()
                        }
                    }
                }
                ["node", path] => {
                    let s = sim.as_mut().unwrap();
                    match guarded(|| {
                        s.node(*path, Empty);
                    }) {
                        Ok(()) => "ok".to_string(),
                        Err(_) => "panic".to_string(),
                    }
                }
                ["props", path] => {
                    let s = sim.as_ref().unwrap();
                    match guarded(|| {
                        s.globals().get(&ObjectPath::from(*path)).map(|m| {
                            let kv = m.props_keys().into_iter().map(|k| {
                                let v = m.prop_raw(&k).as_value();
                                (k, v)
                            });
                            ren_props(kv.collect())
                        })
                    }) {
                        Ok(Some(s)) => s,
                        Ok(None) => "nomod".to_string(),
                        Err(_) => {
                            dead = true;
                            "panic".to_string()
                        }
                    }
                }
                ["cap", path, entries @ ..] => {
                    let text = yaml_of(entries);
                    match serde_yml::from_str::<Value>(&text) {
                        Err(_) => "err".to_string(),
                        Ok(v) => {
                            let parts: Vec<&str> = path.split('.').collect();
                            match guarded(|| {
                                let cfg = Cfg::new(v);
                                let mut props: Props = cfg.capture_for_into(&parts);
                                let kv = props.keys().into_iter().map(|k| {
                                    let v = props.get_raw(&k).as_value();
                                    (k, v)
                                });
                                ren_props(kv.collect())
                            }) {
                                Ok(s) => s,
                                Err(_) => "panic".to_string(),
                            }
                        }
                    }
                }
                [op @ ("read" | "readd" | "write"), path, key, ty, rest @ ..] => {
                    let s = sim.as_ref().unwrap();
                    let val = rest.first().copied();
                    match guarded(|| {
                        s.globals().get(&ObjectPath::from(*path)).map(|m| match *ty {
                            "str" => typed::<String>(&m, op, key, val),
                            _ => typed::<u64>(&m, op, key, val),
                        })
                    }) {
                        Ok(Some(s)) => s,
                        Ok(None) => "nomod".to_string(),
                        Err(_) => {
                            dead = true;
                            "panic".to_string()
                        }
                    }
                }
                ["open", path, key, ty, name] => {
                    let s = sim.as_ref().unwrap();
                    match guarded(|| {
                        s.globals().get(&ObjectPath::from(*path)).map(|m| match *ty {
                            "str" => open_h::<String>(&m, key).map(H::SF),
                            _ => open_h::<u64>(&m, key).map(H::UF),
                        })
                    }) {
                        Ok(Some(Ok(h))) => {
                            handles.insert(name.to_string(), h);
                            "ok".to_string()
                        }
                        Ok(Some(Err(e))) => e,
                        Ok(None) => "nomod".to_string(),
                        Err(_) => {
                            dead = true;
                            "panic".to_string()
                        }
                    }
                }
                [op @ ("hget" | "hdef" | "hset" | "hclear" | "hdrop"), name, rest @ ..] => {
                    let Some(h) = handles.remove(*name) else {
                        continue; // not alive (never opened, consumed, or the open line was deleted)
                    };
                    let (a, h2) = handle_op(h, op, rest.first().copied());
                    if let Some(h2) = h2 {
                        handles.insert(name.to_string(), h2);
                    }
                    a
                }
                ["clear", path, key] => {
                    let s = sim.as_ref().unwrap();
                    match guarded(|| s.globals().get(&ObjectPath::from(*path)).map(|m| m.prop_raw(key).clear())) {
                        Ok(Some(())) => "ok".to_string(),
                        Ok(None) => "nomod".to_string(),
                        Err(_) => {
                            dead = true;
                            "panic".to_string()
                        }
                    }
                }
                _ => continue,
            };
            writeln!(out, "{line} -> {ans}").unwrap();
        }
        drop(handles);
        let s = sim.take();
        let dropped = guarded(move || drop(s));
        writeln!(out, "end{}", if dropped.is_err() { " drop-panic" } else { "" }).unwrap();
    }
    out
}

//! C01 / C03: scripted histories on the real `des_cqueue::CQueue<u64>`.
//!
//! Script lines (times are relative so that scripts survive shrinking):
//!   add <delta> <val>    schedule at (time of the last fetched event) + delta   (delta may be < 0)
//!   cancel <val>         cancel the handle returned by the add that carried payload <val> (once);
//!                        the transcript names it by the index k of that successful add
//!   fetch
//!   peek                 next_time(): read-only
//! Transcript lines carry absolute nanoseconds and what the implementation answered:
//!   add <abs> <val> -> ok|panic len=<len> time=<time()>
//!   cancel <k> -> ok len=.. time=..
//!   fetch -> <val>@<ns>|panic len=.. time=..
use crate::rng::Rng;
use crate::util::{cases, guarded, hval};
use des_cqueue::{CQueue, EventHandle};
use std::fmt::Write;
use std::time::Duration;

const NS: [u64; 7] = [1, 2, 3, 4, 7, 32, 1028];
// widths incl. ones that are not whole microseconds / milliseconds
const TS: [u64; 9] = [1, 3, 999, 1_000, 1_500, 2_500, 1_000_001, 2_500_000, 1_000_000_000];

fn delta(r: &mut Rng, n: u64, t: u64, tie_heavy: bool) -> i128 {
    let year = n as i128 * t as i128;
    let t = t as i128;
    let k = if tie_heavy { r.below(6) } else { r.below(16) };
    match k {
        0 | 1 => 0,                                         // the current instant (zero bucket)
        2 => r.below(3) as i128 * t,                        // bucket boundaries near by
        3 => (r.below(4) as i128) * (if t > 4 { t / 4 } else { 1 }), // inside the same bucket
        4 => year * r.range(1, 2) as i128,                  // whole "year" multiples
        5 => r.below(4) as i128,                            // tiny offsets: ties
        6 => year + r.below(3) as i128 - 1,                 // year ± 1
        7 => t * r.range(1, 3) as i128 - 1,                 // just below a boundary
        8 => t * r.range(1, 3) as i128 + 1,                 // just above a boundary
        9 => t * r.below(2 * n + 3) as i128,                // anywhere in the next two years
        10 => (r.below(1000) as i128) * t / 7,              // unaligned
        11 => t * r.range(50, 10_000) as i128,              // far future (real scan stays fast)
        12 => -(r.range(1, 3) as i128) * (if r.chance(1, 2) { 1 } else { t }), // the past: must be rejected
        13 => year * r.range(1, 3) as i128 + t * r.below(n + 1) as i128,
        14 => r.below((2 * year as u64).max(2)) as i128,
        _ => t + r.below(t.max(1) as u64) as i128,
    }
}

pub fn gen(seed: u64, count: usize, thorough: bool, tie_heavy: bool) -> String {
    let mut r = Rng::new(seed);
    let mut out = String::new();
    for k in 0..count {
        let n = *r.pick(&NS);
        let t = *r.pick(&TS);
        let len = if thorough { r.range(5, 400) } else { r.range(3, 60) };
        writeln!(out, "case {k} n={n} t={t}").unwrap();
        let mut adds = 0u64;
        let mut val = 0u64;
        // occasionally a big same-instant burst (more events pending for the current instant than any
        // preallocated buffer holds) with zero-delay follow-ups scheduled while it is dispatched
        let big_burst = tie_heavy && r.chance(1, 8);
        let mut vals: Vec<u64> = Vec::new();
        let mut far_vals: Vec<u64> = Vec::new();
        if big_burst {
            let pre = r.range(0, 2);
            for _ in 0..pre {
                val += 1;
                writeln!(out, "add {} {}", r.below(3) * t, val).unwrap();
            }
            if pre > 0 && r.chance(1, 2) {
                writeln!(out, "fetch").unwrap();
            }
            let nb = r.range(60, 140);
            for _ in 0..nb {
                val += 1;
                writeln!(out, "add 0 {val}").unwrap();
            }
            for i in 0..nb {
                writeln!(out, "fetch").unwrap();
                if i % 2 == 0 || r.chance(1, 3) {
                    val += 1;
                    writeln!(out, "add 0 {val}").unwrap();
                }
            }
        }
        // phase mix: build-up, churn, drain
        for i in 0..len {
            let phase = (3 * i) / len;
            let w = match phase {
                0 => (6, 1, 2),
                1 => (4, 2, 4),
                _ => (2, 1, 6),
            };
            let x = r.below(w.0 + w.1 + w.2);
            if r.chance(1, 40) {
                // an outlier more than 584 years ahead; sometimes cancelled right away, else before the drain
                val += 1;
                let off: i128 = (1i128 << 64) * r.range(1, 40) as i128 + r.below(1u64 << 40) as i128 * t as i128 + r.below(3) as i128;
                if r.chance(1, 4) {
                    // the very last instant: Duration::MAX, the timestamp of the bucket lists' tail sentinel
                    writeln!(out, "add max {val}").unwrap();
                } else {
                    writeln!(out, "add {off} {val}").unwrap();
                }
                vals.push(val);
                adds += 1;
                if r.chance(1, 2) {
                    writeln!(out, "cancel {val}").unwrap();
                } else {
                    far_vals.push(val);
                }
            } else if x < w.0 {
                val += 1;
                writeln!(out, "add {} {}", delta(&mut r, n, t, tie_heavy), val).unwrap();
                vals.push(val);
                adds += 1;
            } else if x < w.0 + w.1 {
                if adds > 0 {
                    // prefer recent handles: they are more likely still pending
                    let k = if r.chance(2, 3) { adds - 1 - r.below(adds.min(4)) } else { r.below(adds) };
                    writeln!(out, "cancel {}", vals[k as usize]).unwrap();
                }
            } else {
                if r.chance(1, 3) {
                    writeln!(out, "peek").unwrap();
                    // sometimes something happens between the peek and the fetch: the peeked event (or another
                    // recent one) is cancelled, or an event is added in front of it
                    if adds > 0 && r.chance(1, 3) {
                        let k = adds - 1 - r.below(adds.min(3));
                        writeln!(out, "cancel {}", vals[k as usize]).unwrap();
                    } else if r.chance(1, 6) {
                        val += 1;
                        writeln!(out, "add {} {}", r.below(2) * t, val).unwrap();
                        vals.push(val);
                        adds += 1;
                    }
                }
                writeln!(out, "fetch").unwrap();
            }
        }
        // far-future outliers (beyond 2^64 ns; bucket slot numbers exceed 64 bits for small widths): only ever added
        // and cancelled — all still pending ones are cancelled before the drain
        // (one case in four leaves them pending: the drain then stops at `skipped-outlier-pending` and the queue is
        // dropped with the outliers still in it)
        let keep_far = r.chance(1, 4);
        for v in far_vals.drain(..) {
            if !keep_far {
                writeln!(out, "cancel {v}").unwrap();
            }
        }
        // drain completely in most cases
        if r.chance(3, 4) {
            for _ in 0..(adds + 1) {
                writeln!(out, "fetch").unwrap();
            }
        }
        writeln!(out, "end").unwrap();
    }
    out
}

/// offsets at or beyond this many nanoseconds are "far-future outliers": never fetched by generated scripts
/// (the real scan loop is O(gap / t)), only added and cancelled
const FAR: i128 = 1 << 62;

pub fn exec(input: &str) -> String {
    let mut out = String::new();
    for (header, body) in cases(input) {
        let n: usize = hval(&header, "n").and_then(|v| v.parse().ok()).unwrap_or(1);
        let t: u64 = hval(&header, "t").and_then(|v| v.parse().ok()).unwrap_or(1);
        writeln!(out, "{header}").unwrap();
        let mut q: CQueue<u64> = CQueue::new(n, Duration::from_nanos(t));
        let mut handles: Vec<(u64, Option<EventHandle<u64>>)> = Vec::new();
        let mut cur: i128 = 0;
        // far-future outliers still in the queue (as far as the harness can tell): a fetch that could only return
        // one of them would scan ~2^64 buckets, so the case is stopped instead
        let mut far: Vec<u64> = Vec::new();
        for line in body {
            let tok: Vec<&str> = line.split_whitespace().collect();
            let mut res = String::new();
            match tok.as_slice() {
                ["add", d, v] => {
                    let is_max = *d == "max";
                    let d: i128 = if is_max { FAR } else { d.parse().unwrap_or(0) };
                    let v: u64 = v.parse().unwrap_or(0);
                    let abs = if is_max { Duration::MAX.as_nanos() } else { (cur + d).max(0) as u128 };
                    let dur = if is_max { Duration::MAX } else { Duration::new((abs / 1_000_000_000) as u64, (abs % 1_000_000_000) as u32) };
                    match guarded(|| q.add(dur, v)) {
                        Ok(h) => {
                            handles.push((v, Some(h)));
                            if d >= FAR {
                                far.push(v);
                            }
                            write!(res, "add {abs} {v} -> ok").unwrap();
                        }
                        Err(_) => write!(res, "add {abs} {v} -> panic").unwrap(),
                    }
                }
                ["cancel", v] => {
                    let v: u64 = v.parse().unwrap_or(u64::MAX);
                    let k = match handles.iter().position(|h| h.0 == v) {
                        Some(k) => k,
                        None => continue, // the add was rejected or is not part of this script
                    };
                    match handles.get_mut(k).and_then(|h| h.1.take()) {
                        Some(h) => {
                            let before = q.len();
                            match guarded(|| q.cancel(h)) {
                                Ok(()) => {
                                    if q.len() < before {
                                        far.retain(|x| *x != v);
                                    }
                                    write!(res, "cancel {k} -> ok").unwrap()
                                }
                                Err(_) => write!(res, "cancel {k} -> panic").unwrap(),
                            }
                        }
                        None => continue, // never issued or already consumed: no call possible
                    }
                }
                ["peek"] | ["fetch"] if !far.is_empty() && q.len() <= far.len() => {
                    // only outliers are left (a cancel of one did not take effect, or the script never cancelled it)
                    writeln!(out, "{} -> skipped-outlier-pending len={} time={} empty={}", tok[0], q.len(), q.time().as_nanos(), q.is_empty() as u8).unwrap();
                    break;
                }
                ["peek"] => match guarded(|| q.next_time()) {
                    Ok(Some(t)) => write!(res, "peek -> {}", t.as_nanos()).unwrap(),
                    Ok(None) => write!(res, "peek -> none").unwrap(),
                    Err(_) => write!(res, "peek -> panic").unwrap(),
                },
                ["fetch"] => match guarded(|| q.fetch_next()) {
                    Ok((v, time)) => {
                        cur = time.as_nanos() as i128;
                        write!(res, "fetch -> {}@{}", v, time.as_nanos()).unwrap();
                    }
                    Err(_) => write!(res, "fetch -> panic").unwrap(),
                },
                _ => continue,
            }
            let empty = q.is_empty();
            writeln!(out, "{res} len={} time={} empty={}", q.len(), q.time().as_nanos(), empty as u8).unwrap();
        }
        // dropping the queue with pending events must not crash either
        let dropped = guarded(move || drop(q));
        writeln!(out, "end{}", if dropped.is_err() { " drop-panic" } else { "" }).unwrap();
    }
    out
}

HOOK_COMMITS = []
NOT_APPLICABLE = {}
_T = "machine-checked proof (Lean 4) of an executable model + differential correspondence check against the Rust implementation"
META = {
    "C01": dict(
        text=("Lean 4 theorems: the model of des_cqueue::CQueue (buckets, window, zero bucket, scan loop with computed fuel) refines an abstract event set "
              "for every script, every bucket count >= 1 and width >= 1ns (C01.model_refines_spec); order, exactly-once, cancellation, length and "
              "parameter independence are corollaries on the abstract history. The model is tied to the code on every run by replaying thousands of "
              "generated add/cancel/fetch histories on the real CQueue and comparing every answer, len(), time(), is_empty() with the model."),
        design_ref="DESIGN.md §5 C01",
        note=("Trusted: Lean kernel; axioms propext/Classical.choice/Quot.sound; the hand transcription Rust->Lean (validated by the correspondence runs, "
              "bounded by generator quality); harness, driver parser, orchestrator. Out of scope: integer overflow (Duration/u128/usize), the unsafe "
              "linked-list/allocator memory behaviour (C15)."),
        technique=_T),
    "C03": dict(
        text=("Lean 4 theorems on the abstract event set (current-instant FIFO first, then (time, scheduling id)-minimum), transported to the calendar-queue "
              "model for every (n,t) by the C01 refinement: C03.fetch_rule, current_instant_fifo, others_in_schedule_order, no_overtaking, "
              "order_config_independent. Tie-heavy generated histories on the real CQueue are compared op by op with the model."),
        design_ref="DESIGN.md §5 C03",
        note=("Trusted: as C01. Claimed for the default feature set (cqueue backend). The net layer's buffered emission order (BUF_CTX flush) is covered "
              "by the kernel model of later properties, not by this check."),
        technique=_T),
}

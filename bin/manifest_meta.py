HOOK_COMMITS = ["606ee9b verif hooks: des-cqueue allocator observer, page-size constructor, snapshots (cfg petrichorit_des_verif)",
                "9c2f286 verif hooks: build verif_with_page_size from CQueue::new (cfg petrichorit_des_verif)"]
NOT_APPLICABLE = {}
_T = "machine-checked proof (Lean 4) of an executable model + differential correspondence check against the Rust implementation"
META = {
    "C01": dict(
        text=("Lean 4 theorems: the model of des_cqueue::CQueue (buckets, window, zero bucket, scan loop with computed fuel) refines an abstract event set "
              "for every script, every bucket count >= 1 and width >= 1ns (C01.model_refines_spec); order, exactly-once, cancellation, length and "
              "parameter independence are corollaries on the abstract history. The model is tied to the code on every run by replaying thousands of "
              "generated add/cancel/fetch histories on the real CQueue and comparing every answer, len(), time(), is_empty() with the model."),
        design_ref="DESIGN.md §5 C01",
        note=("Trusted: Lean kernel; axioms propext/Classical.choice/Quot.sound; the hand transcription Rust->Lean (validated by the correspondence runs, "
              "bounded by generator quality); harness, driver parser, orchestrator. Out of scope: integer overflow (Duration/u128/usize), the unsafe "
              "linked-list/allocator memory behaviour (C15)."),
        technique=_T),
    "C03": dict(
        text=("Lean 4 theorems on the abstract event set (current-instant FIFO first, then (time, scheduling id)-minimum), transported to the calendar-queue "
              "model for every (n,t) by the C01 refinement: C03.fetch_rule, current_instant_fifo, others_in_schedule_order, no_overtaking, "
              "order_config_independent. Tie-heavy generated histories on the real CQueue are compared op by op with the model."),
        design_ref="DESIGN.md §5 C03",
        note=("Trusted: as C01. Claimed for the default feature set (cqueue backend). The net layer's buffered emission order (BUF_CTX flush) is covered "
              "by the kernel model of later properties, not by this check."),
        technique=_T),
    "C14": dict(
        text=("Lean 4 theorems about a model of Processor::incoming_upstream/_downstream, the four ModuleRef entry points (message, async wake-up, "
              "sim-start stage, sim end) and the kernel loop with the emission buffer: for every stack, every scripted behaviour, every event kind the "
              "call log of an event is start0 inc0? ... handler? end_{k-1} ... end0 (C14.bracket_shape), inc_i present iff no earlier element consumed, "
              "handler skipped iff consumed, start/end exactly once in (reverse) stack order, the global log of any run is a concatenation of complete "
              "brackets (C14.brackets_do_not_interleave), pushes are made and flushed in program order; the module lifecycle is part of the model (shutdown requests from any hook, down time, restart event "
              "replaying all start stages on the same element instances): a module that is shut down logs no hook and no handler call until its own restart event (C14.inactive_no_hooks, inactive_until_restart), "
              "and over all events of all lifecycles every message bracket contains exactly one handler call iff no element consumed the message (C14.handler_iff_unconsumed_everywhere); the tear-down bracket of every module is complete whatever its join handles yield (C14.teardown_bracket_complete), the join errors are only reported (C14.teardown_reports_join_errors). Tied to the code by running thousands of real "
              "des simulations with scripted elements/handlers and comparing the whole call log with the model's."),
        design_ref="DESIGN.md §5 C14",
        note=("Trusted: Lean kernel; axioms propext/Classical.choice/Quot.sound; hand transcription Rust->Lean (validated by the correspondence runs); "
              "tokio polling order modelled as observed; harness, driver parser, orchestrator. Out of scope: panicking events (non-caught: event_end skipped by `?`; caught: module deactivated, event_end still runs - read, not modelled), "
              "shutdown requests from reset/tasks/at_sim_end; at_sim_end brackets shut-down modules too (modelled as the code does); dispatch order inside the calendar queue (C01/C03)."),
        technique=_T),
    "C07": dict(
        text=("Lean 4 theorems: the model of des::net::channel::Channel (busy flag, transmission_finish_time, byte-counted FIFO buffer, Drop/Queue policies, "
              "send_message, unbusy loop with computed fuel) refines an abstract single server with a FIFO byte-bounded queue on every script of offers and unbusy "
              "dispatches consistent with event order (C07.model_refines_spec); exactly-one-fate, no duplication/loss, busy-iff-transmitting, idle=>queue empty, FIFO/no overlap, "
              "start-at-idle instant, accept-iff-bytes-fit (incl. limit 0), delivery-time formula and zero-jitter order are proved for all metrics, sizes and interleavings. "
              "Tied to the code by replaying thousands of real two-module simulations (probe, is_busy, finish time, Debug queue sizes, arrival times/order) through the same definitions."),
        design_ref="DESIGN.md §5 C07",
        note=("Trusted: as C01; f64 rounding of calculate_busy/calculate_duration is an input (tx read from the code, checked +-1ns; jitter sample only range-checked: 0 <= j < jitter, j = 0 without jitter); usize/SimTime overflow out of scope. "
              "The kernel tie rule for the channel's own events is part of the model (kmin); zero_jitter_dispatch_order is proved at full strength. Model mirrors the code after the F5, F14 and F16 fixes "
              "(unbusy drains zero-time messages; exit event scheduled before the unbusy notification)."),
        technique=_T),
    "C16": dict(
        text=("Lean 4 theorems: the pointer-level model of des::net::message::{Body,Message} (type-erased box pointer into an explicit ghost heap, "
              "per-type vtable, try_cast nulling the pointer before the implicit Drop, Message wrappers, byte_len as structural recursion incl. "
              "derive(MessageBody)) refines a value-level specification for every script (C16.model_refines_spec); cast/borrow succeed iff the requested "
              "type is the creation type, failed casts return body/message/heap unchanged, values read/cloned/cast equal the value stored, every box is "
              "released exactly once with no undefined access (no_double_free_no_leak, all_released_exactly_once_at_end), Message::length = 64 + declared "
              "length, derived length = sum over the active variant's fields, fixed-size arrays count every element, lengths are invariant under permutation of members and depend only on the abstract value (clone included; length_depends_only_on_value, seq_len_perm_invariant). Tied to the code on every run by replaying generated op histories over a "
              "73-type family (incl. one-byte elements with other declared lengths, hash tables of up to 80 entries, same-named distinct types; Ty = TypeId identity, not type_name) built in varying in-memory layouts, declared lengths up to 2^60 and busy time checked against the exact rational at several bitrates, with destructor counters on real Messages and comparing every answer, value, length, channel busy time and drop count."),
        design_ref="DESIGN.md §5 C16",
        note=("Trusted: Lean kernel; axioms propext/Quot.sound; TypeId injectivity (Ty = type name); the hand transcription Rust->Lean and the harness's "
              "value<->term rendering (validated by the correspondence runs); harness, driver parser, orchestrator. Out of scope: real memory semantics "
              "of Box/raw pointers (ghost heap only), usize overflow of length sums, try_content_mut used for mutation, Debug formatting."),
        technique=_T),
    "C12": dict(
        text=("Lean 4 theorems: the model of ModuleTree::add (rposition of the parent, skip of deeper entries, insert) keeps the module vector equal to the depth-first "
              "pre-order of the declared tree with siblings in creation order, for every tree and every valid insertion order (C12.add_preserves_preorder, "
              "built_vector_is_preorder, order_depends_only_on_sibling_order); the at_sim_start loop is the stage-major filter of that order (start_calls_stage_major, "
              "each_declared_stage_once, stage_barrier, within_stage_vector_order), at_sim_end visits every module once (sim_end_once_each); SimBuilder::raw rejects duplicates "
              "and orphans (duplicate_rejected, missing_parent_rejected); ObjectPath parent/name/len/From<&str> agree with repeated appended for all names without '.', "
              "including prefix-sharing and multi-byte names (parent_name_len_appended, from_str_agrees_with_appended, distinct_paths_distinct). Tied to the code by real "
              "simulations built through the public builder API whose builder answers, module vector, full callback log and parent/child/path lookups are compared with the "
              "model and the declared-tree specification; parent()/child() and the children maps agree with the declared tree (parents_agree_with_declared_tree, children_agree_with_declared_tree, "
              "children_map_is_declared_children, modules_are_the_declared_ones); Runtime::run over the kernel model Rt puts every at_sim_end call after all start stages and all events for any event set "
              "and message schedule (sim_end_after_last_event, start_stages_before_events); gate paths and as_parent_str (gate_path, as_parent_str_appended); every builder script refines the contract and rejected calls change nothing (script_refines_contract, rejected_declaration_changes_nothing); path <-> module is a bijection (path_node_bijection); no module precedes its parent and module states are dropped in pre-order, parents first, without cascading drops (parent_before_children, teardown_in_vector_order); modules whose at_sim_end returns Err do not stop the tear-down: every module is ended once and run() carries all errors in pre-order (sim_end_errors_all_reported)."),
        design_ref="DESIGN.md §5 C12",
        note=("Trusted: Lean kernel; axioms propext/Classical.choice/Quot.sound; hand transcription Rust->Lean (UTF-8 strings as byte lists, ModuleRef as creation index, children HashMap as association list), "
              "validated by the correspondence runs; harness, driver, orchestrator. The run model takes the callbacks' add_event calls as parameters and assumes all modules stay active during start-up "
              "(is_active guard, C09/C13). Compared per run only: SimTime values and handler order inside the event phase (kernel model Rt/FES), malformed paths with empty segments (e.g. node(\"a.\") is accepted by the code with an empty name - modelled, not claimed), the SimBuilderScoped::absolute route. Model mirrors /repo after the SimBuilderScoped fix."),
        technique=_T),
    "C17": dict(
        text=("Lean 4 theorems about the model of Cfg::new (compartmentalize_map loop with swap_remove/entry/insert on ordered mappings, recursion bound proved sufficient) and "
              "Props::update_from (wildcard branch, progressive prefix lookup, direct-prefix extraction, first-wins set): for every flat dotted-key configuration outside class F11b and every "
              "module path the captured property names are exactly those of the segment matcher and every value belongs to a matching entry (C17.capture_eq_spec_partial, via a normal-form "
              "invariant of the compartmentalised tree + flat-reading preservation); include order is irrelevant for every include/node script (include_order_invariant/_irrelevant); "
              "typed slots keep their type under every script of opens / uses of any number of live or stale Prop<T> handles / clears, from any start state (typed_slot_keeps_type over the handle-table machine mtrace; typed_rule_sound_for_model). F11b (scalar entry equal to the literal prefix of a wildcard entry) is an open finding with a "
              "decide-d witness (capture_eq_spec_witness). Tied to the code by replaying generated include/node/props/typed scripts through SimBuilder and Cfg::capture_for_into."),
        design_ref="DESIGN.md §5 C17, §6 F6/F11/F13",
        note=("Trusted: Lean kernel; axioms propext/Classical.choice/Quot.sound; serde_yml parsing and serde typed deserialisation; the string<->segment-list reading of dotted keys; "
              "hand transcription Rust->Lean (validated by the correspondence runs). The model describes /repo after the fix: commits for F6, F13, F11a."),
        technique=_T),
    "C18": dict(
        text=("Lean 4 theorems about a model of des_net_utils::ndl (string grammar over List Char, Def AST, transform with the dependency-ordering loop, "
              "inheritance, generics/conformance, cluster and connection expansion) and of the des instantiation: FromStr and transform never panic for any "
              "input and any hash-map order (C18.parse_total, parse_document_total, transform_total, load_total; key lemmas: the ordering loop's fuel suffices "
              "and yields a dependency-respecting order, under which every archetype lookup succeeds), Display/FromStr round trips, and the built simulation has "
              "exactly the denoted modules, symbols and gate clusters (instantiate_modules_gates_exact). Tied to the code by replaying thousands of generated and "
              "mutated descriptions through the real FromStr/serde_yml/transform/nodes_from_ndl and comparing Ok/Err(kind,payload,span)/panic, the elaborated "
              "tree, and every module/gate/connection slot/channel metric with the model and with an independently written top-down denotation; "
              "in the supported fragment transform succeeds with tree n iff the independent top-down denotation is n, and rejects iff the description denotes nothing (transform_iff_denotation, transform_rejects_iff_undefined, "
              "incl. generic modules, type arguments with conformance, placeholders, inheritance, clusters, all connection forms and links, for every hash-map order); the built simulation equals the denotation in modules, symbols, "
              "gates, connection slots and channel metrics (instantiate_connections_exact, transform_sound_complete); every rejection names a module/clause/symbol of the input that has the announced defect (error_kinds_descriptive)."),
        design_ref="DESIGN.md §5 C18",
        note=("Models the code with the three F7 repairs applied. Not proved: equality of error kinds between transform and denotation on multiply-defective descriptions; real-cause witnesses for non-conformance and unknown gate/submodule; converse of instantiate = worldOf (false for dotted submodule names). Panic-freedom of FromStr/transform is judged on every generated input, also outside the supported fragment (kind=reject clause=transform_total). Trusted: YAML layer, f64<->ms rendering, names without '.', "
              "hash-order-dependent descriptions compared weakly."),
        technique=_T),
    "C06": dict(
        text=("Lean 4 theorems about an executable model of Harness::exec on tokio 1.45.1 (two run queues, LocalSet tick budget L, event_interval E, deferred wakers, coop budget C): "
              "one pass drains iff the polls needed fit L and E and no cross wake / deferral happened (C06.pass_drains_iff, exec_drains_iff for the pre-repair code, with decide'd witnesses "
              "for F4/F4b/F4c/F4d); the repaired exec repeats passes until idle and always ends with nothing runnable for any budgets >= 1 (C06.exec_drains, fuel proved sufficient), hence "
              "no task observes a time later than its enabling instant (C06.no_await_observes_later_time). Tied to the code by real async des simulations whose global record order and "
              "times are compared with the model, and whose measured budgets must equal the model's parameters."),
        design_ref="DESIGN.md §5 C06",
        note=("Partial: the scheduler model is an abstraction of tokio validated only by the tie. Acceptance is an executable abstract specification (Spec/ExecSpec.lean); several waiters per condition, notify_waiters, "
              "JoinHandle awaited by another task, timers through the inject queue and cross-module wakes (C06.foreign_wakes_wait_for_next_event: outside C06 as worded, polled at the module's next own event) are covered; "
              "combinators with concurrent awaits inside one task (select!/join!/timeout), watch/broadcast/oneshot and the LocalSet remote queue are not. Model-refines-specification theorems spec_accepts_good_run / spec_accepts_model_partial (Proofs/ExecRefine, ExecOrder; hypothesis GoodRun decidable, exemplified); timeout(d, notified()) modelled with drop semantics and single scheduling per instant. "
              "Trusted: Lean kernel, standard axioms, harness, driver, orchestrator. The model mirrors /repo after the two C06 repairs (event_interval, drain loop in Harness::exec)."),
        technique=_T),
    "C08": dict(
        text=("Lean 4 theorems: the model of gate.rs (two slots per gate, connect, next_hop, PathIter) and of the message walk (handle_with_sink / buf_send_at / send_at) "
              "keeps, for every sequence of connect calls in any order and orientation, a representation invariant against the abstract 'disjoint simple paths + rings' "
              "(C08.connects_refine_paths, connect_step); corollaries for chains of any length: path_iter enumerates the path (walk_enumerates_path), the walk from the far end "
              "is the exact mirror image (walk_mirror), a message is handed exactly once to the far-end owner at send time + sum of hop delays with last_gate/receiver set "
              "(delivered_once_to_far_owner, arrival_time_eq_send_plus_sum_of_hop_delays, header_fields), connect symmetric/idempotent, degree <= 2; a delayed send issued before the wiring is complete "
              "travels the chain as wired at its send time (delayed_send_uses_wiring_at_send_time, forwardT over a time-indexed wiring); header fields are re-stamped on every leg whatever the header held before (header_restamped_per_leg, header_fields_any_prior_header); bursts over queueing inner hops are served first-in first-out per channel direction (Spec.ChainSrv; burst_exactly_once_and_idle_delay, burst_start_times); gate lookup by (name,pos) finds exactly that cluster member for every registration order (gate_lookup_finds_member). Tied to the code by "
              "replaying thousands of generated simulations built with the real builder API."),
        design_ref="DESIGN.md §5 C08",
        note=("Trusted: Lean kernel; the three standard axioms; the hand transcription Rust->Lean; harness/driver/orchestrator. Channels are represented by the delay of an idle "
              "channel = latency + transmission time of the test message as computed by the code, cross-checked against 8*len/bitrate (C07 owns busy/queue/drop); activity of owners is time-indexed in the model and exercised by shut-down modules in the harness; sender_module_id is modelled (stamped at send, never rewritten)."),
        technique=_T),
    "C19": dict(
        text=("Lean 4 theorems about the model of topology.rs over the C08 gate model: from_modules yields one edge per endpoint gate, in order, labelled with the two end gates "
              "and leading to the owner of the far end (chains <= 16 hops); spanned (FIFO work-list, i.e. with the F8 repair) terminates, its predicted node indices are exact, "
              "its edges are one per endpoint gate and its node set is exactly the set reachable from the root; bidirectional matches its definition; decide'd witnesses show "
              "the pre-repair LIFO work-lists wrong (spanned edges to wrong nodes, dijkstra not min-hop). Every run compares global/spanned/filtered views, dijkstra, connected, "
              "bidirectional, edges_for of generated module graphs on the real code with the model and the abstract module graph; the named edge set of from_modules does not depend on the order of the module list (from_modules_edge_set_independent_of_module_order), "
              "a view extracted at time tau is from_modules of the wiring at tau whatever was extracted or connected before (current_at_time_is_from_modules_of_that_wiring); views are re-extracted between connects at build and run time, module lists in tree order."),
        design_ref="DESIGN.md §5 C19, §6 F8",
        note=("All clauses have theorems: from_modules, spanned (termination, exact indices, node set = reachable set), bidirectional, dijkstra_first_edge_of_min_hop_path (BFS level invariant), "
              "filter_keeps_selected_and_induced_edges (the real compaction loop), connected_iff_strongly_connected. Vector indexing is modelled with getD under the well-formedness predicate WF, "
              "which the constructors are proved to establish. Model mirrors /repo after the F8 fix."),
        technique=_T),
    "C02": dict(
        text=("Lean 4 theorems about the model Rt of des::runtime::Runtime (dispatch_event with the limit tested on next_time before fetching, dispatch_all, add_event with the start-time check, "
              "finish) running over the calendar-queue model: it is observationally equal to the same loop over the abstract event set for every (n,t) (C02.runtime_refines_spec, a generic simulation "
              "lifted through the loop from the C01 refinement); handled timestamps are non-decreasing and >= the start time, the clock is the timestamp of the last dispatched event, every "
              "successfully scheduled event is handled exactly once with exactly its timestamp or is returned by finish (each_event_exactly_once, finish_returns_pending), add_event at/after now "
              "always succeeds and before now is always rejected without effect, in every reachable state incl. non-zero start time (add_outcome). Tied to the code by replaying generated sessions."),
        design_ref="DESIGN.md §5 C02",
        note=("Trusted: as C01 plus the harness's scripted Application. The model mirrors /repo after the fixes for F2 (add_event before now with start_time>0) and F9/F10 (limit tested before fetching). "
              "Termination of dispatch_all for self-rescheduling programs is not claimed (fuel-indexed loop; theorems hold for every fuel)."),
        technique=_T),
    "C10": dict(
        text=("Lean 4 theorems on the runtime model Rt: any sequence of dispatch_n_events / dispatch_events_until steps followed by dispatch_all to completion yields exactly the observations of one "
              "uninterrupted dispatch_all, for every program, (n,t), start time and cut incl. cuts inside a tie group (C10.stepped_eq_run, via: every limited run is a prefix of the unlimited run ending in "
              "exactly one of its states, and unlimited runs compose); dispatch_n_events dispatches exactly the next n events or all (dispatchN_exact, step_stops_at_bound), dispatch_events_until exactly the "
              "events up to the first later than t (dispatchUntil_exact), i.e. exactly those with timestamp <= t, and both on the calendar-queue runtime from the paused state of any session "
              "(dispatchN_exactly_next_k, dispatchUntil_exactly_events_le); from every paused state any session reaches (cuts, external adds, further cuts) further steps followed by dispatch_all equal one "
              "uninterrupted dispatch_all from that state, incl. the final paused report (stepped_eq_run_from_any_pause); a paused runtime reports the last dispatched time and the number of pending events, and accepts exactly the adds at/after that time."),
        design_ref="DESIGN.md §5 C10",
        note=("Trusted: as C02. Model mirrors /repo after the F9/F10 repair (next_time peek instead of fetch + re-insert). Sessions with external adds between steps are covered by "
              "stepped_eq_run_from_any_pause (stepping = running from the paused state the adds were made in), paused_add_ge_now_accepted and the tie."),
        technique=_T),
    "C11": dict(
        text=("Lean 4 theorems on the runtime model Rt: the events dispatched under a limit L are exactly the longest prefix of the unlimited run's events that L admits (C11.limited_handled_eq_admitted_prefix, "
              "for any And/Or tree, any program, (n,t), start time); for EventCount(n) that is the first min(n, available) events, for SimTime(T) the events up to the first later than T; the stopped runtime is "
              "exactly in a state of the unlimited run (limited_run_is_prefix_state), so nothing is executed beyond the stop and nothing lost: scheduled = dispatched + what finish() returns, with "
              "timestamps (nothing_lost); the end time is the last dispatched timestamp; Builder::max_itr/max_time/limit compose with Or."),
        design_ref="DESIGN.md §5 C11",
        note="Trusted: as C02. RuntimeLimit::applies is a 5-arm transcription validated by the tie on nested And/Or trees.",
        technique=_T),
    "C15": dict(
        text=("Lean 4 theorems about an executable model of the calendar queue's page allocator (free list in list order, size/align normalisation, "
              "align-up, fit test, tail rule, first-fit scan with a page oracle, split rule, deallocate): for every alloc/free script, every page size 2^p>=16 "
              "and every oracle of page-aligned pairwise-disjoint pages a returned block is disjoint from all live blocks, aligned, inside an owned page; free "
              "regions are pairwise disjoint, disjoint from live blocks and can hold their ListNode header; memory is reused only after free; allocated_mem = "
              "sum of live sizes; no assertion fails; find_region terminates iff the normalised size is a page or <= page-16 (C15.alloc_terminates / "
              "alloc_diverges). Payload conservation (added = fetched + cancelled + stored-at-drop, each once, unchanged) is proved on the C01 calendar-queue "
              "model and transported to the queue-with-memory model CQMem. Tied to the code on every run: the allocator event stream of the real allocator and "
              "of CQueue<T> (6 payload types, with/without destructors, page sizes 64..65536) must be predicted address-exactly by the model and accepted by an "
              "independent shadow-map checker; destructor logs and payload bytes are checked against the abstract event set. The composed queue-with-memory model is proved to keep one live block per "
              "bucket-resident event plus two sentinels per bucket, to free exactly the node of a fetched/cancelled event, and to release every block exactly once at drop while destroying exactly the pending payloads (cqmem_*). "
              "In every reachable allocator state no free region fits a request of size in (P-16, P) (alloc_diverges_reachable, alloc_diverges_iff). Every event trace of the model is accepted by the shadow-map checker (model_trace_accepted)."),
        design_ref="DESIGN.md §5 C15",
        note=("Partial: aliasing/provenance/UB of the raw-pointer code is outside any Lean model (Miri flags Stacked/Tree-Borrows violations; see DESIGN.md). Trusted: "
              "Lean kernel; propext/Classical.choice/Quot.sound; hand transcription Rust->Lean (validated by address-exact replay); page oracle assumption; "
              "harness, hook observer, driver parser, orchestrator. Out of scope: usize overflow; sizes in (page-16, page) (find_region does not terminate, "
              "observed under the hook's page limit and proved as alloc_diverges_reachable); model_trace_accepted is stated for the driver's canonical page oracle rather than an arbitrary OracleOk oracle."),
        technique=_T),
    "C05": dict(
        text=("Lean 4 theorems about the model of one module's timer driver (sorted slot queue, entry handles, next/bump, Driver.next_wakeup, "
              "activate/deactivate, Sleep::poll/reset/drop, Timeout::poll, Interval::poll_tick with all MissedTickBehavior arms): the wake-up invariant "
              "WakeInv is preserved by every event carrying any sequence of register/drop/reset operations (C05.wakeinv_preserved, wakeinv_all_histories); "
              "from it a registered entry is woken at an event at exactly its deadline, not later, not lost (fires_exactly_at_deadline, live_timer_has_wakeup), "
              "never early / reached deadline immediate (never_early, reached_deadline_immediate), timeout_ok_iff_inner_by_deadline, interval_tick_times / "
              "interval_burst_ticks; lifted to the scripted simulation for all scripts (script_ops_admissible, sim_wakeinv_all_scripts, "
              "sim_ends_with_no_pending_timer); exactly-once and waker-level precision (fires_exactly_once, woken_only_when_due); for all scripts: termination of the scripted simulation on fuel computed from the state "
              "(sim_run_terminates, sim_event_lowers_fuel), independence of the order of events of different modules incl. final time (tie_order_irrelevant, sim_loop_is_interleaving, sim_clock_is_latest_event), completions never early "
              "(sim_completions_not_early). For all scripts and whole simulations: every completion of sleep / sleep_until / timeout delays is observed at max(deadline, first poll) (sim_completions_at_deadline, via the registration invariant "
              "sim_registered_timers_have_entries: unique sleep ids, every awaited Sleep has its queue entry), and the simulation does not end while a task awaits a deadline below SimTime::MAX (sim_ends_with_no_task_waiting). "
              "Waker path: deactivate_schedules_rule, wakeup_pending_for_earliest_live, stale_wakeup_is_harmless, wake_order_is_registration_order. Tied to the code by real des simulations running generated timer scripts whose every observation is compared "
              "with the Lean model run. Found and repaired F3 (TimerQueue::next ignored live slots behind an emptied front slot); witnesses "
              "orig_next_*_witness keep the pre-repair function refuted."),
        design_ref="DESIGN.md §5 C05, §6 F3",
        note=("Trusted/partial: tokio waker plumbing (a woken task is re-polled in the same event, C06); event-set time order (C01/C03) as hypothesis EvOk/Consistent of the op-level theorems; Weak<TimerSlot> handle = slot deadline; "
              "script-level exact completion is proved for sleeps owned by the awaiting future; for awaited named Sleeps / interval ticks only never-early and never-lost are script-level theorems; never-lost clause for deadlines < SimTime::MAX; select! modelled biased; overflow out of scope."),
        technique=_T),
    "C20": dict(
        text=("Lean 4 theorems about a typed ownership graph of a stopped des simulation (Runtime/Sim, Profiler, Globals, ModuleTree, ctx/processor/state/PE, async ext, tokio rt, task cell/state, mpsc, driver, TimerQueue/Slot, gates with connection slots, channels, probes, buffer entries, messages, bodies, queued/event connections, event entries in FES / Profiler.remaining / BUF_CTX) "
              "with reference-count drop semantics and the destructors ModuleContext::drop=>dissolve_paths and TimerSlotEntryHandle::drop: no node is freed twice (any graph), dissolve_paths terminates on any wiring incl. rings with fuel #conn+1, dropping never errs within #roots+#edges steps, "
              "the strong edges not cut by dissolve_paths are ranked for every description of the repaired code, hence every module state, PE, task state, body and probe is freed exactly once. Tied to the code by generated real simulations x stopping points with destructor counters; a second and a third simulation in the same process must reproduce the fresh-process trace including build-time clock readings. Stopping points include manual stepping without finish(), a failing inner application and panics unwinding through the Runtime; counters are read right after the drop and again after two follow-up simulations, which must complete (helper thread, time-out). Module kinds include AsyncFn::new / failable / io tasks (pending, holding messages, finished); events at SimTime::MAX are covered as pending events at drops that do not drain. Handlers look up parent/child modules; bodies include zero-sized credits with counting destructors."),
        design_ref="DESIGN.md §5 C20",
        note=("Partial: the tie observes counters / queue lengths / event counts only, not the reference graph; tokio drops task futures with the runtime (assumption); order-independence of plain decrements "
              "(dissolve releases deferred in the model - plain_frees_below_gates proves no destructor below a gate removes handles). all_user_objects_freed_once holds for EVERY description of the repaired code "
              "(keepChan = false, hookGlobals = false, taskCtx = false, parentCache = false: queued connections do not keep their channel, the panic hook holds nothing, a spawned task holds no strong reference to its module context; every_description_is_closed discharges the closure conditions; no well-formedness hypothesis). Witnesses: backlog_cycle_witness (pre-repair code leaks, F12 fixed by c3eebb0), "
              "timer_bookkeeping_residue_witness (TimerQueue<->TimerSlot stays allocated, not user-visible), hook_holds_globals_witness (a hook capturing Arc<Globals> keeps the module tree alive after a drop without at_sim_end), task_captures_ctx_witness, parent_cache_witness. Events at SimTime::MAX are never made the next event of a run (calendar scan), unread AsyncFn messages are only bounded, not counted. Roots per stopping point (Own.Stop) documented, lock-poison recovery observed only."),
        technique=_T),
    "C09": dict(
        text=("Lean 4 theorems about the kernel model Net (scripted modules, future event set, buffered emissions flushed by buf_process, shutdown request consumed at the end of the event: deactivate, drop runtime, reset, schedule ModuleRestartEvent; "
              "inactive guards in handle_message/async_wakeup, inactive-owner drop in handle_with_sink, module_restart replaying the stages): for every state satisfying the between-events invariant and every script, "
              "an inactive module shows no observation for any number of dispatched events until its restart is dispatched (C09.inert_while_down), its tasks/timers are gone at the end of the requesting event, messages meeting a gate of an inactive owner "
              "or addressed to it are dropped without trace, exactly one reset per requesting event (last line), the restart event is scheduled at exactly the requested time and runs stages 0..n-1 once each in order with that time stamp, "
              "after which messages are handled again, and while the module is down the rest of the system evolves identically whatever program it carries (C09.others_unaffected, equality of whole states). "
              "Tied to the code by comparing whole observation traces of tens of thousands of real des simulations with Net.run and by an independent acceptance checker."),
        design_ref="DESIGN.md §5.0, §5 C09",
        note=("Trusted: Lean kernel; propext/Classical.choice/Quot.sound; hand transcription Rust->Lean; tokio runtime drop = all tasks cancelled once; harness, driver, orchestrator. Partial: dispatch-at-scheduled-time taken from C01/C02; "
              "non-interference is relative to the inactive reference run and needs 'restart not yet dispatched' as hypothesis; at_sim_end still runs on shut-down modules (outside the clauses). Mirrors /repo after fixes F-C09a and F3."),
        technique=_T),
    "C13": dict(
        text=("Lean 4 theorems about the same kernel model with panic actions (callback aborted, Harness::catch: active := false, PanicError unless on_panic_catch; task panics caught by tokio and reported through try_join at sim end): "
              "Sim::error after the event loop equals, as a list, the uncaught callback-panic lines of the trace (C13.errors_eq_panicked_paths; empty if all caught), at_sim_end adds the callback's uncaught panic or else one JoinError per panicked joined task, "
              "a module whose callback panicked is inactive and unobserved until a restart is dispatched, the run of everybody else is identical to the run where the panicked module carries the silent program (C13.healthy_trace_eq_silenced_trace), "
              "and between events MOD_CTX/BUF_CTX/shutdown requests are released (C13.globals_released). Tied to the code by whole-trace comparison of panicking multi-module simulations run twice per process, error lists compared in order."),
        design_ref="DESIGN.md §5.0, §5 C13",
        note=("Trusted: as C09 + unwinding through block_on leaves globals usable (validated by the second in-process run). Deviations witnessed by theorems, not repaired: joined-task panics ignore on_panic_catch and do not deactivate (F-C13b); "
              "at_sim_end and overdue tasks of a panicked module run at simulation end (F-C13c). Non-interference relative to the inactive reference run; error equality proved up to, and per module during, at_sim_end."),
        technique=_T),
    "C04": dict(
        text=("Lean 4 non-interference theorems about a net-kernel model (Repro) in which every process-global identifier is explicit state drawn from an arbitrary "
              "injective Ambient supply (module id per module, sender id per message, sleep id per Sleep and per timer-slot entry; timer entries removed BY id when select! "
              "drops losing sleeps, senders resolved BY id) and randomness is an explicit stream consumed in dispatch order (tokio RngSeed per module, random(), channel jitter, "
              "select! start index per poll): the whole run under ambient a is the id-renaming of the canonical run at every step (C04.states_related_by_renaming), hence trace, "
              "time, event count, result are ambient-independent (C04.run_ambient_independent / trace_ambient_independent), a second simulation does not see the counters the first "
              "left behind (C04.second_run_independent_of_first), a simulation built on an ARBITRARY leftover of the previous one (unflushed at_sim_end emissions in BUF_CTX, clock, RNG, MOD_CTX, id counters) behaves as if "
              "run alone (C04.second_run_independent_of_leftovers, leftovers_are_reset; decide'd witness that it fails if buf_drop kept the buffer); channels with bitrate/queue, send_in and semaphore hand-offs between tasks are modelled; networks built from NDL (inherit + submodules) and long cooperative tasks (yield_now loops) are part of the four-execution comparison; the builder configuration (calendar-queue geometry, option order; fifth execution under the default geometry) and LocalSet tasks are part of the multi-execution comparison; the stream is consumed from the front only and draw order is ambient-independent, dispatch = FES.fetch. Tied to the code "
              "by executing every generated (model, seed) four times (twice back to back, after a noise simulation, in a child process), comparing the canonical traces, and replaying the model on the recorded stream; "
              "modules may shut down and restart: the seed of every incarnation's tokio runtime is an element of the stream (C04.restart_seed_from_stream, restart_seed_is_next_draw)."),
        design_ref="DESIGN.md §5 C04",
        note=("Partial: StdRng / tokio FastRand are inputs (equal seeds => equal streams is checked only by the four real executions); tokio 1.45.1 current-thread scheduling order is a hand transcription "
              "validated by the correspondence runs; mpsc receives, LocalSet tasks, Drop/bounded channel policies, panics not generated. Trusted: Lean kernel; axioms propext/Quot.sound; harness, driver parser, orchestrator. "
              "Open finding F-C04a: tokio drops unfinished tasks in an order that depends on the process-global task-id counter. Model mirrors /repo after fixes F-C04b (build-time clock) and F-C04c (ModuleId::NULL after wrap)."),
        technique=_T),
}

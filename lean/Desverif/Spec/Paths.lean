/-
Abstract specification for C08: the gates of a simulation form a set of pairwise disjoint simple
paths (a gate that was never connected is a path of one gate) plus closed rings.  Linking the ends
of two different paths concatenates them (reversing as needed, so the order and orientation of the
`connect` calls is irrelevant); linking the two ends of one path closes it into a ring, after which
none of its gates can be connected or used to send.  No slot indices appear here.
-/
namespace Paths

structure State where
  paths : List (List Nat)
  rings : List (List Nat)   -- closed rings
deriving Repr, DecidableEq

/-- gates lying on rings -/
def State.closed (sp : State) : List Nat := sp.rings.flatten

/-- `n` gates, none connected -/
def init (n : Nat) : State := ⟨(List.range n).map fun g => [g], []⟩

/-- the path `g` lies on -/
def pathOf (sp : State) (g : Nat) : Option (List Nat) := sp.paths.find? fun p => p.contains g

/-- `p` oriented so that it ends with `g` -/
def endingAt (p : List Nat) (g : Nat) : Option (List Nat) :=
  if p.getLast? = some g then some p
  else if p.head? = some g then some p.reverse
  else none

/-- `p` oriented so that it starts with `g` -/
def startingAt (p : List Nat) (g : Nat) : Option (List Nat) :=
  if p.head? = some g then some p
  else if p.getLast? = some g then some p.reverse
  else none

/-- link two path ends (`none`: one of the gates is not the end of a path) -/
def link (sp : State) (a b : Nat) : Option State :=
  match pathOf sp a, pathOf sp b with
  | some pa, some pb =>
    if pa = pb then
      if a ≠ b ∧ ((pa.head? = some a ∧ pa.getLast? = some b) ∨ (pa.head? = some b ∧ pa.getLast? = some a)) then
        some ⟨sp.paths.erase pa, pa :: sp.rings⟩
      else none
    else
      match endingAt pa a, startingAt pb b with
      | some qa, some qb => some ⟨(qa ++ qb) :: (sp.paths.erase pa).erase pb, sp.rings⟩
      | _, _ => none
  | _, _ => none

/-- path sets that arise from `n` unconnected gates by linking path ends -/
inductive Reach (n : Nat) : State → Prop
  | init : Reach n (init n)
  | link {sp sp' : State} {a b : Nat} : Reach n sp → link sp a b = some sp' → Reach n sp'

/-- the walk the specification expects from gate `g`: the rest of its path when `g` is an end of
    it (`none`: `g` is an inner gate or lies on a ring) -/
def walkFrom (sp : State) (g : Nat) : Option (List Nat) :=
  (pathOf sp g).bind fun p => (startingAt p g).map List.tail

/-- are `a`, `b` neighbours on a path -/
def adjacentIn : List Nat → Nat → Nat → Bool
  | x :: y :: rest, a, b => (x == a && y == b) || (x == b && y == a) || adjacentIn (y :: rest) a b
  | _, _, _ => false

/-- the gates next to `g` on the path `p` -/
def nbrsIn : List Nat → Nat → List Nat
  | x :: y :: rest, g => (if x == g then [y] else []) ++ (if y == g then [x] else []) ++ nbrsIn (y :: rest) g
  | _, _ => []

/-- the neighbours of `g` (`none`: `g` lies on a ring) -/
def neighbours (sp : State) (g : Nat) : Option (List Nat) := (pathOf sp g).map (nbrsIn · g)

/-- are `a`, `b` neighbours on a ring -/
def adjacentRing (p : List Nat) (a b : Nat) : Bool :=
  adjacentIn p a b ||
  ((p.head? == some a && p.getLast? == some b) || (p.head? == some b && p.getLast? == some a))

inductive Expect
  | selfPanic | noop | linked | fullPanic
deriving Repr, DecidableEq

/-- what the specification expects of `connect a b` -/
def connect (sp : State) (a b : Nat) : Expect × State :=
  if a = b then (.selfPanic, sp)
  else if sp.paths.any (adjacentIn · a b) || sp.rings.any (adjacentRing · a b) then (.noop, sp)
  else match link sp a b with
    | some sp' => (.linked, sp')
    | none => (.fullPanic, sp)

end Paths

/-
Abstract specification for C19: the module graph.  One node per module, one directed edge per
gate-chain endpoint: from the module owning the endpoint to the module owning the other end of the
chain, labelled with the two end gates.  Reachability, hop distance, strong connectedness,
bidirectionality and induced subgraphs are defined directly on this graph (no indices).
-/
import Desverif.Spec.Paths
namespace Graph

/-- an edge: `(from module, start gate, to module, end gate)` -/
structure Edge where
  src : Nat
  start : Nat
  dst : Nat
  stop : Nat
deriving Repr, DecidableEq

structure G where
  mods : List Nat
  edges : List Edge
deriving Repr, DecidableEq

/-- the graph of a path set: for every module (in order) and each of its gates (in order) that is
    the end of a path with at least one hop, an edge to the owner of the path's other end -/
def ofPaths (sp : Paths.State) (mods : List Nat) (gates : Nat → List Nat) (owner : Nat → Nat) : G :=
  { mods := mods
    edges := (mods.map fun m => (gates m).filterMap fun g =>
      match Paths.walkFrom sp g with
      | some rest =>
        match rest.getLast? with
        | some far => some ⟨m, g, owner far, far⟩
        | none => none
      | none => none).flatten }

def succs (g : G) (m : Nat) : List Nat := (g.edges.filter (·.src == m)).map (·.dst)

/-- breadth-first levels: `levels k` = modules at hop distance exactly `k` from `src` -/
def levels (g : G) : Nat → List Nat → List Nat → List (List Nat)
  | 0, _, _ => []
  | fuel + 1, frontier, seen =>
    if frontier.isEmpty then []
    else
      let next := ((frontier.map (succs g)).flatten.filter fun m => !seen.contains m).eraseDups
      frontier :: levels g fuel next (seen ++ next)

/-- hop distance from `src` (`none` = unreachable) -/
def dist (g : G) (src t : Nat) : Option Nat :=
  (levels g (g.mods.length + 1) [src] [src]).findIdx? (·.contains t)

def reachable (g : G) (src : Nat) : List Nat := (levels g (g.mods.length + 1) [src] [src]).flatten

/-- induced subgraph -/
def induced (g : G) (keep : Nat → Bool) : G :=
  { mods := g.mods.filter keep, edges := g.edges.filter fun e => keep e.src && keep e.dst }

/-- the same nodes with only the edges a predicate selects -/
def filterEdges (g : G) (keep : Edge → Bool) : G := { g with edges := g.edges.filter keep }

def bidirectional (g : G) : Bool := g.edges.all fun e => g.edges.any fun e' => e'.src == e.dst && e'.dst == e.src

/-- every module reaches every module -/
def connected (g : G) : Bool := g.mods.all fun a => g.mods.all fun b => (reachable g a).contains b

end Graph

/-
Acceptance checker for an observed allocator event history (the "shadow map"): the abstract
statement of C15's memory clauses, independent of any placement policy.

Addresses are page-relative (`page k + offset`): the harness rebases every address to the k-th
page the allocator obtained, and reports for each page whether the system allocator returned it
aligned to the page size and disjoint from the earlier pages (the page-oracle assumption).
-/
import Desverif.Model.Alloc
namespace AllocSafe

inductive Ev
  | page (k len : Nat) (aligned disjoint : Bool)
  | alloc (loc : Option (Nat × Nat)) (lsize lalign : Nat) (aligned : Bool)
  | fail (lsize lalign : Nat)
  | free (loc : Option (Nat × Nat)) (lsize lalign : Nat)
deriving Repr, DecidableEq

structure Blk where
  page : Nat
  off : Nat
  lsize : Nat
  lalign : Nat
deriving Repr, DecidableEq

structure Shadow where
  pageSize : Nat
  pages : Nat := 0
  live : List Blk := []
  allocs : Nat := 0
  frees : Nat := 0
  reused : Nat := 0       -- allocations that overlap memory handed out (and released) before
  /-- every block ever released (for the `reused` statistic only) -/
  released : List Blk := []
deriving Repr

/-- bytes a block reserves: the request rounded up to its alignment (at least 8), and at least
    the 16 bytes the allocator writes into a block when it is released -/
def footprint (lsize lalign : Nat) : Nat :=
  let a := max lalign 8
  max ((lsize + a - 1) / a * a) 16

def Blk.fp (b : Blk) : Nat := footprint b.lsize b.lalign

def overlaps (b : Blk) (k off fp : Nat) : Bool :=
  b.page == k && !(off + fp ≤ b.off || b.off + b.fp ≤ off)

/-- one event; `.error clause` = the history violates the property -/
def accept (s : Shadow) : Ev → Except String Shadow
  | .page k len al dj =>
    if k ≠ s.pages then .error "page-order"
    else if len ≠ s.pageSize then .error "page-size"
    else if !al || !dj then .error "page-oracle"
    else .ok { s with pages := s.pages + 1 }
  | .alloc none _ _ _ => .error "outside-pages"
  | .alloc (some (k, off)) lsize lalign al =>
    let fp := footprint lsize lalign
    if k ≥ s.pages || off + fp > s.pageSize then .error "outside-pages"
    else if !al || lalign = 0 || (lalign ≤ s.pageSize && off % lalign ≠ 0) then .error "misaligned"
    else if s.live.any (overlaps · k off fp) then .error "overlaps-live-block"
    else
      let re := s.released.any (overlaps · k off fp)
      .ok { s with live := ⟨k, off, lsize, lalign⟩ :: s.live, allocs := s.allocs + 1,
                   reused := s.reused + (if re then 1 else 0) }
  | .fail lsize lalign =>
    -- `Err(())` is only legitimate for a request that cannot fit a page
    if footprint lsize lalign ≤ s.pageSize then .error "spurious-failure" else .ok s
  | .free none _ _ => .error "free-outside-pages"
  | .free (some (k, off)) lsize lalign =>
    let b : Blk := ⟨k, off, lsize, lalign⟩
    if s.live.contains b then
      .ok { s with live := s.live.erase b, frees := s.frees + 1,
                   released := if s.released.contains b then s.released else b :: s.released }
    else .error "free-of-non-live-block"

def acceptAll : Shadow → List Ev → Except String Shadow
  | s, [] => .ok s
  | s, e :: es =>
    match accept s e with
    | .error c => .error c
    | .ok s' => acceptAll s' es

/-- bytes currently handed out -/
def liveBytes (s : Shadow) : Nat := (s.live.map Blk.fp).sum

/-! ### Rebasing the model's event stream (absolute model addresses) to page-relative events -/

/-- the page oracle the model is run with when it is compared with an implementation transcript:
    page k at `(k+1) * P` (page-aligned, pairwise disjoint) -/
def orcOf (P : Nat) : Nat → Nat := fun k => (k + 1) * P

def locOf (P addr : Nat) : Option (Nat × Nat) :=
  if P = 0 || addr < P then none else some (addr / P - 1, addr % P)

def ofMEv (P : Nat) : Alloc.MEv → Ev
  | .page addr len => .page (addr / P - 1) len (addr % P == 0) true
  | .alloc addr sz al => .alloc (locOf P addr) sz al (al != 0 && addr % al == 0)
  | .fail sz al => .fail sz al
  | .free addr sz al => .free (locOf P addr) sz al

end AllocSafe

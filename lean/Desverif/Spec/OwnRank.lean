/-
Specification side of C20: which nodes must be released (`good`: everything except the timer
bookkeeping cycle `TimerQueue ⇄ TimerSlot` and the task cells only it keeps alive), the rank function
that witnesses that the strong edges `dissolve_paths` does not cut are well-founded, and the decidable
closure check `wired` (every holder is itself held; every connected gate is registered in the
`gates` of a module context).  The driver evaluates `wired` on every description it builds.
-/
import Desverif.Model.Own
namespace Own

/-- everything except the timer bookkeeping cycle and what only it keeps alive -/
def good : NId → Bool
  | .timerQueue _ | .timerSlot _ _ | .taskCell _ _ => false
  | _ => true

def rank (d : Desc) : NId → Nat :=
  let K := d.mods.length
  let B := fun m => 20 + 10 * min m K
  let G := 30 + 10 * K
  fun
  | .runtime | .profiler => 0
  | .sim | .fesSet => 1
  | .globals | .statics => 2
  | .tree => 3
  | .ev _ => 4
  | .ctx m => B m
  | .proc m | .asyncExt m => B m + 1
  | .state m | .pe m _ | .tokioRt m | .driver m => B m + 2
  | .taskState m _ => B m + 3
  | .sleepHandle m _ | .mpsc m _ => B m + 4
  | .taskCell m _ => B m + 5
  | .timerQueue _ | .timerSlot _ _ | .hook => 0
  | .conn (.queue ..) => G + 3
  | .conn _ => G
  | .chan _ _ => G + 1
  | .bufEntry .. | .probe .. => G + 2
  | .msg _ => G + 3
  | .body _ | .gate _ => G + 4

/-- the per-edge conditions of `Ranked` that do not mention other edges -/
def localOk (d : Desc) (e : Edge NId) : Bool :=
  (!good e.tgt || good e.src) &&
  (match e.via with
   | .field => !good e.tgt || decide (rank d e.src < rank d e.tgt)
   | .entry _ => !good e.tgt
   | _ => true)


/-- closure conditions of the heap that mention other edges: (1) every good holder is a root or is
    itself held; (2) a connection slot belongs to a gate that some module context of smaller rank
    than the slot's target holds in its `gates` -/
def wired (d : Desc) : Bool :=
  (mkEdges d).all fun e =>
    ((!good e.src || roots.contains e.src) || (mkEdges d).any (fun e' => e'.tgt == e.src)) &&
    (!e.isConn || (nidSem.isGate e.src &&
      (mkEdges d).any (fun e' => nidSem.isCtx e'.src && e'.tgt == e.src && e'.via == Via.field &&
        decide (rank d e'.src < rank d e.tgt))))

end Own

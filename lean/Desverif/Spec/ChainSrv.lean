/-
Queueing along a gate chain (C08, bursts): every channel direction is a first-in first-out server.
A message that reaches a hop whose channel is busy waits (`ChannelDropBehaviour::Queue`) and its
transmission starts when the channel becomes idle; the hop then takes transmission time + latency.
Messages have equal length (the 64-byte test message), jitter is 0, the channels are idle when the
burst starts.  A hop without channel, or with bitrate 0, never delays another message.
-/
namespace ChainSrv

/-- one hop: latency, transmission time of the test message, queue capacity in messages
    (`none` = unbounded; `Queue(Some(bytes))` holds `bytes / 64` waiting messages) -/
structure Hop where
  lat : Nat
  tx : Nat
  cap : Option Nat
deriving Repr, DecidableEq

/-- the messages of a burst pass one hop in their order; `free` = time the channel becomes idle,
    `starts` = transmission starts of the messages accepted so far.  A message arriving at time `a`:
    * channel-less / zero transmission time: leaves at `a + lat`, never occupies the channel;
    * channel idle (`free ≤ a`): transmission starts at `a`;
    * channel busy: it waits if the queue has room (the waiting messages are those accepted earlier
      whose transmission has not started at `a`), and starts at `free`; otherwise it is dropped. -/
def serveHop (h : Hop) : Nat → List Nat → List (Option Nat) → List (Option Nat)
  | _, _, [] => []
  | free, starts, none :: rest => none :: serveHop h free starts rest
  | free, starts, some a :: rest =>
    if h.tx = 0 then some (a + h.lat) :: serveHop h free starts rest
    else if free ≤ a then some (a + h.tx + h.lat) :: serveHop h (a + h.tx) (starts ++ [a]) rest
    else
      let waiting := (starts.filter (a < ·)).length
      match h.cap with
      | some c =>
        if waiting + 1 ≤ c then some (free + h.tx + h.lat) :: serveHop h (free + h.tx) (starts ++ [free]) rest
        else none :: serveHop h free starts rest
      | none => some (free + h.tx + h.lat) :: serveHop h (free + h.tx) (starts ++ [free]) rest

/-- a burst passes the hops of a chain one after the other (every channel idle at the beginning) -/
def serveChain : List Hop → List (Option Nat) → List (Option Nat)
  | [], ms => ms
  | h :: hs, ms => serveChain hs (serveHop h 0 [] ms)

/-- the idle delay of a chain: what a single message needs -/
def idleDelay (hs : List Hop) : Nat := (hs.map fun h => h.tx + h.lat).sum

end ChainSrv

/-
Abstract specification C07 is stated against: a single server with a FIFO, byte-bounded
waiting queue.  No busy flag, no byte counter, no loop: the server is either serving one
message until a known finish time or idle; an arriving message is served at once if the server
is idle, otherwise it waits (if the policy and the byte bound allow) or is dropped; when the
service ends the waiting messages are started in FIFO order — all those whose service takes no
time, then the first that does.
-/
import Desverif.Model.Chan
namespace ChanSrv
open Chan (Msg Metrics DropB Eff Fate)

structure Srv where
  /-- finish time of the service in progress -/
  serving : Option Nat
  queue : List Msg
deriving Repr, DecidableEq

def init : Srv := { serving := none, queue := [] }

/-- bytes waiting -/
def bytes (q : List Msg) : Nat := (q.map (·.len)).sum

/-- does the waiting room take `m`? -/
def accepts (limit : Option Nat) (q : List Msg) (m : Msg) : Prop :=
  match limit with
  | none => True
  | some l => bytes q + m.len ≤ l

instance (limit : Option Nat) (q : List Msg) (m : Msg) : Decidable (accepts limit q m) := by
  unfold accepts; cases limit <;> exact inferInstance

/-- delivery event of a message whose service starts at `now` -/
def exitOf (mt : Metrics) (now : Nat) (m : Msg) : Eff :=
  .exitAt (now + (mt.latency + m.tx + m.j)) m.id

/-- a message arrives at time `now` -/
def offer (mt : Metrics) (s : Srv) (now : Nat) (m : Msg) : Srv × List Eff × Fate :=
  match s.serving with
  | some _ =>
    match mt.db with
    | .drop => (s, [], .droppedBusy)
    | .queue limit =>
      if accepts limit s.queue m then ({ s with queue := s.queue ++ [m] }, [], .queued)
      else (s, [], .droppedFull)
  | none =>
    if m.tx = 0 then (s, [exitOf mt now m], .started)
    else ({ s with serving := some (now + m.tx) }, [exitOf mt now m, .unbusyAt (now + m.tx)], .started)

/-- the service in progress ends at `now`: start waiting messages in FIFO order -/
def drain (mt : Metrics) (now : Nat) : List Msg → Srv × List Eff × List (Msg × Fate)
  | [] => ({ serving := none, queue := [] }, [], [])
  | m :: q =>
    if m.tx = 0 then
      let r := drain mt now q
      (r.1, exitOf mt now m :: r.2.1, (m, .started) :: r.2.2)
    else
      ({ serving := some (now + m.tx), queue := q },
       [exitOf mt now m, .unbusyAt (now + m.tx)], [(m, .started)])

def unbusy (mt : Metrics) (s : Srv) (now : Nat) : Srv × List Eff × List (Msg × Fate) :=
  drain mt now s.queue

end ChanSrv

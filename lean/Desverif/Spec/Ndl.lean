/-
Denotation of a network description (`Ndl.Def`), written independently of `Ndl.transform`:

* `evalBody d fuel name` — ⟦name⟧: the contents of module `name` by *top-down* recursion over the
  references of the description (parent, generic bounds, submodule types, type arguments); no work
  list, no dependency ordering, no table of finished modules.  `fuel` bounds the reference depth:
  a chain longer than the number of modules is a cycle.
* `expandEndpoint` — the gates an endpoint such as `sub[2]/gate` or `sub/gate` denotes, as a list
  comprehension over the declared cluster sizes.
* `denoteTree d` — every module of the description must denote something (as in the code, an error
  anywhere rejects the description); the result is ⟦entry⟧.
* `worldOf reg n` — the flat reading of a tree: all module paths (pre-order) with their software
  symbol and gate clusters, then all connection requests (children first) applied with the gate
  primitive `Ndl.connect`.
* `denote reg d` — ⟦d⟧ = `worldOf reg (denoteTree d)`.

`unsupported d` marks descriptions outside the specified fragment (the code's answer depends on
hash-map order or on symbol capture there): two modules with one identifier, a generic binding
that is also a module identifier, inheriting from a generic module.
-/
import Desverif.Model.NdlInst
namespace Ndl
namespace Spec

/-- no string occurs twice -/
def allDistinct : List Str → Bool
  | [] => true
  | a :: l => !l.contains a && allDistinct l

def unsupported (d : Def) : Bool :=
  !allDistinct (d.modules.map (·.1.ident)) ||
  d.modules.any (fun km => km.1.args.any fun a => d.modules.any fun km' => km'.1.ident = a.binding) ||
  d.modules.any (fun km => match km.2.inherit with
    | some p => d.modules.any fun km' => km'.1.ident = p && !km'.1.args.isEmpty
    | none => false)

/-- no submodule type carries type arguments (generic modules may be declared, not instantiated) -/
def noTypeArgs (d : Def) : Bool :=
  d.modules.all fun km => km.2.submodules.all fun s => s.2.args.isEmpty

def lookupModule (d : Def) (name : Str) : Except Fail (TypClause GenericsDef × ModuleDef) :=
  match d.modules.find? (fun km => km.1.ident = name) with
  | some km => .ok km
  | none => kerr .unresolvableDependency [name]

/-- which indices an access `acc` selects in a field declared as `decl` -/
def indices (decl acc : FieldDef) : Except Fail (List Accessor) :=
  match decl.kard, acc.kard with
  | .atom, .atom => .ok [⟨acc.ident, none⟩]
  | .atom, .cluster _ => kerr .connectionIndexOutOfBounds [acc.display]
  | .cluster n, .atom => .ok ((List.range n).map fun i => ⟨acc.ident, some i⟩)
  | .cluster n, .cluster i =>
    if i < n then .ok [⟨acc.ident, some i⟩] else kerr .connectionIndexOutOfBounds [acc.display]

/-- the gate instances an endpoint denotes, relative to a module with submodules `subs`, gates `gates` -/
def expandEndpoint : List FieldDef → List (FieldDef × Node) → List FieldDef →
    Except Fail (List (List Accessor))
  | [], _, _ => kerr .unknownGateInConnection []
  | [g], _, gates =>
    match gates.find? (fun x => x.ident = g.ident) with
    | none => kerr .unknownGateInConnection [g.display]
    | some decl => do
      let is ← indices decl g
      .ok (is.map fun a => [a])
  | s :: t :: rest, subs, _ =>
    match subs.find? (fun x => x.1.ident = s.ident) with
    | none => kerr .unknownSubmoduleInConnection [s.display]
    | some sub => do
      let is ← indices sub.1 s
      -- (an empty cluster denotes no gates, whatever follows)
      if is.isEmpty then .ok []
      else do
        let tails ← expandEndpoint (t :: rest) sub.2.subs sub.2.gates
        .ok (is.flatMap fun a => tails.map fun tl => a :: tl)

/-- the connections a `connections:` entry denotes -/
def expandConn (links : List (Str × Link)) (subs : List (FieldDef × Node)) (gates : List FieldDef)
    (c : ConnDef) : Except Fail (List Conn) := do
  let l ← expandEndpoint c.lhs.accessors subs gates
  let r ← expandEndpoint c.rhs.accessors subs gates
  if l.length ≠ r.length then kerr .unequalPeers [showNat l.length, showNat r.length]
  else
    match c.link with
    | none => .ok ((l.zip r).map fun p => ⟨p.1, p.2, none⟩)
    | some name =>
      match links.lookup name with
      | none => kerr .unknownLink [name]
      | some v => .ok ((l.zip r).map fun p => ⟨p.1, p.2, some v⟩)

/-- a module that can be used as a type without arguments -/
def plain (ev : Str → Except Fail (Node × List GenericsDef)) (name : Str) : Except Fail Node := do
  let r ← ev name
  if r.2.isEmpty then .ok r.1 else kerr .invalidTypStatement [name]

/-- one type argument: a plain module that provides what the parameter's bound requires -/
def actual (ev : Str → Except Fail (Node × List GenericsDef)) (t : TypClause Str)
    (p : GenericsDef × Str) : Except Fail (Str × Node) := do
  let c ← plain ev p.2
  let i ← ev p.1.bound
  if c.conformTo i.1 then .ok (p.1.binding, c)
  else kerr .assignedTypDoesNotConformToInterface [t.ident]

/-- a generic module's own submodules that were declared with a type parameter get the argument;
    the inherited submodules (the rest of the list) stay -/
def substOwn (actuals : List (Str × Node)) :
    List (FieldDef × TypClause Str) → List (FieldDef × Node) → List (FieldDef × Node)
  | [], ss => ss
  | _ :: _, [] => []
  | (_, ty) :: ds, s :: ss =>
    (if ty.args.isEmpty then
      match actuals.find? (fun a => a.1 = ty.ident) with
      | some a => (s.1, a.2)
      | none => s
    else s) :: substOwn actuals ds ss

/-- ⟦t⟧ for a submodule type `t` inside a module with generic parameters `params`;
    `ev` evaluates referenced modules, `decls` gives a module's own submodule declarations -/
def evalType (ev : Str → Except Fail (Node × List GenericsDef))
    (decls : Str → List (FieldDef × TypClause Str)) (params : List GenericsDef)
    (t : TypClause Str) : Except Fail Node :=
  if t.args.isEmpty then
    match params.find? (fun a => a.binding = t.ident) with
    | some a => do
      -- a placeholder: the bound's contents under the binding's name
      let n ← plain ev a.bound
      .ok (n.setTyp t.ident)
    | none => plain ev t.ident
  else if params.any (fun a => a.binding = t.ident || t.args.contains a.binding) then
    kerr .unknownModule [t.ident]
  else do
    let g ← ev t.ident
    if g.2.length ≠ t.args.length then kerr .invalidTypStatement [t.ident]
    else do
      let actuals ← (g.2.zip t.args).mapM (actual ev t)
      .ok (g.1.setSubs (substOwn actuals (decls t.ident) g.1.subs))

def ownDecls (d : Def) (name : Str) : List (FieldDef × TypClause Str) :=
  match d.modules.find? (fun km => km.1.ident = name) with
  | some km => km.2.submodules
  | none => []

/-- the contents a module inherits -/
def parentOf (ev : Str → Except Fail (Node × List GenericsDef)) : Option Str → Except Fail Node
  | none => .ok (.mk [] [] [] [])
  | some p => do
    let r ← ev p
    .ok r.1

/-- ⟦name⟧ given the meaning `ev` of the modules it refers to: contents of the module (generic
    parameters as placeholders) and its parameters -/
def bodyOf (d : Def) (ev : Str → Except Fail (Node × List GenericsDef)) (name : Str) :
    Except Fail (Node × List GenericsDef) := do
  let km ← lookupModule d name
  if !allDistinct (km.1.args.map (·.binding)) then kerr .symbolAlreadyDefined [name]
  else if km.2.gates.any (fun g => g.kard = .cluster 0) then kerr .invalidGate [name]
  else if km.2.submodules.any (fun s => s.1.kard = .cluster 0) then kerr .invalidSubmodule [name]
  else do
    -- bounds must denote something
    let _ ← km.1.args.mapM fun a => ev a.bound
    let own ← km.2.submodules.mapM fun (s : FieldDef × TypClause Str) => do
      let n ← evalType ev (ownDecls d) km.1.args s.2
      .ok (s.1, n)
    let parent ← parentOf ev km.2.inherit
    let conns ← km.2.connections.mapM
      (expandConn d.links (own ++ parent.subs) (extendSet km.2.gates.eraseDups parent.gates))
    .ok (.mk name (own ++ parent.subs) (extendSet km.2.gates.eraseDups parent.gates)
      (parent.conns ++ conns.flatten), km.1.args)

/-- ⟦name⟧ by recursion over the references; `fuel` bounds their depth -/
def evalBody (d : Def) : Nat → Str → Except Fail (Node × List GenericsDef)
  | 0, name => kerr .unresolvableDependency [name]
  | fuel + 1, name => bodyOf d (evalBody d fuel) name

/-- ⟦d⟧ as a tree: every module must denote, the result is the entry module -/
def denoteTree (d : Def) : Except Fail Node := do
  let _ ← d.modules.mapM fun km => evalBody d (d.modules.length + 1) km.1.ident
  match d.modules.find? (fun km => km.1.ident = d.entry) with
  | none => kerr .unknownModule [d.entry]
  | some _ => do
    let r ← evalBody d (d.modules.length + 1) d.entry
    .ok r.1

/-! ### flat reading of a tree -/

mutual
/-- all modules, pre-order: (path, symbol, gates) -/
def modsOf (path : Str) : Node → List (Str × Str × List FieldDef)
  | .mk typ subs gates _ => (path, typ, gates) :: modsOfSubs path subs
def modsOfSubs (path : Str) : List (FieldDef × Node) → List (Str × Str × List FieldDef)
  | [] => []
  | (f, n) :: r => (fieldNames f).flatMap (fun nm => modsOf (joinPath path nm) n) ++ modsOfSubs path r
end

mutual
/-- all connection requests, children first: (module path, connection) -/
def reqsOf (path : Str) : Node → List (Str × Conn)
  | .mk _ subs _ conns => reqsOfSubs path subs ++ conns.map (fun c => (path, c))
def reqsOfSubs (path : Str) : List (FieldDef × Node) → List (Str × Conn)
  | [] => []
  | (f, n) :: r => (fieldNames f).flatMap (fun nm => reqsOf (joinPath path nm) n) ++ reqsOfSubs path r
end

/-- the gate an absolute endpoint names -/
def gateAt (w : World) (path : Str) (acc : List Accessor) : Except Fail (Str × Nat) :=
  match acc.getLast? with
  | none => .error (.internal "empty endpoint")
  | some g =>
    let p := acc.dropLast.foldl (fun p a => joinPath p a.asName) path
    match w.find p with
    | none => .error (.internal "no such module")
    | some m =>
      match m.gates.findIdx? (fun x => x.name = g.name && x.pos == g.index.getD 0) with
      | none => .error (.internal "no such gate")
      | some i => .ok (p, i)

def wire : List (Str × Conn) → World → Except Fail World
  | [], w => .ok w
  | (path, c) :: r, w => do
    let a ← gateAt w path c.lhs
    let b ← gateAt w path c.rhs
    let ch ← chanOf c.link
    let w ← connect w a b ch
    wire r w

/-- a freshly created module: its gate clusters, nothing connected -/
def fresh (m : Str × Str × List FieldDef) : ModInst := ⟨m.1, m.2.1, m.2.2.flatMap mkCluster⟩

def worldOf (reg : Str → Bool) (n : Node) : Except Fail World :=
  if !allDistinct ((modsOf [] n).map (·.1)) then .error (.internal "two modules at one path")
  else
    match (modsOf [] n).find? (fun m => !reg m.2.1) with
    | some m => kerr .missingRegistrySymbol [m.1, m.2.1]
    | none => wire (reqsOf [] n) ((modsOf [] n).map fresh)

/-- ⟦d⟧ -/
def denote (reg : Str → Bool) (d : Def) : Except Fail World := do
  let n ← denoteTree d
  worldOf reg n

end Spec
end Ndl

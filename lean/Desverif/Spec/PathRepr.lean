/-
How a declared path (a list of name segments, each a UTF-8 byte string) is represented by the
`ObjectPath` model: `reprOf segs` is the value obtained by appending the segments one by one to the
root path (exactly what `ModuleContext::child_of` does along a branch of the tree);
`render segs` is the dotted string a user writes.
-/
import Desverif.Model.ObjPath
namespace ObjPath

/-- a name the builder API is meant for: non-empty, no `'.'`, starts on a UTF-8 character boundary
    (true of every Rust `&str`) -/
def ValidName (n : List Nat) : Prop :=
  n ≠ [] ∧ DOT ∉ n ∧ n.head?.all (fun b => !isCont b) = true

instance (n : List Nat) : Decidable (ValidName n) :=
  inferInstanceAs (Decidable (n ≠ [] ∧ DOT ∉ n ∧ n.head?.all (fun b => !isCont b) = true))

def AllValid (segs : List (List Nat)) : Prop := ∀ n ∈ segs, ValidName n

instance (s : List (List Nat)) : Decidable (AllValid s) :=
  inferInstanceAs (Decidable (∀ n ∈ s, ValidName n))

/-- the non-failing branch of `appended` for a module path and a non-empty suffix -/
def push (p : Path) (n : List Nat) : Path :=
  if p.len ≠ 0 then ⟨p.data ++ DOT :: n, p.data.length + 1, p.len + 1, false⟩
  else ⟨p.data ++ n, p.lastOff, p.len + 1, false⟩

/-- `ObjectPath::default().appended(s₀).appended(s₁)…` -/
def reprOf (segs : List (List Nat)) : Path := segs.foldl push root

/-- the dotted string -/
def render : List (List Nat) → List Nat
  | [] => []
  | [a] => a
  | a :: b :: r => a ++ DOT :: render (b :: r)

end ObjPath

/-
Abstract specification for C16: message slots hold plain values — no pointers, no heap.
A body is the triple (creation type, value put in, declared length) plus whether the constructor
promised clonability.  Everything the property says is immediate on this level:
casts/borrows succeed iff the requested type is the creation type and return the value put in,
a failed cast changes nothing, the length is 64 + the declared length.
`created`/`dropped` count values put in (or produced by clone) and values destroyed
(dropped with their message, overwritten, or handed to the caller by a successful cast).
-/
import Desverif.Model.Body
namespace MBSpec
open MB

structure ABody where
  ty : Ty
  val : Val
  len : Nat
  clonable : Bool
deriving Repr

structure AMsg where
  header : Header
  content : Option ABody
deriving Repr

structure State where
  slots : List (String × AMsg) := []
  created : Nat := 0
  dropped : Nat := 0
deriving Repr

def declaredLen : Ctor → Val → Nat
  | .plain, v => byteLen v
  | .nonClonable, v => byteLen v
  | .withLen n, _ => n
  | .nonDebugable s, _ => s

def clonableOf : Ctor → Bool
  | .nonClonable => false
  | _ => true

/-- values held by a message -/
def AMsg.held (m : AMsg) : Nat := match m.content with | some _ => 1 | none => 0

def AMsg.length (m : AMsg) : Nat :=
  64 + (match m.content with | some b => b.len | none => 0)

def State.dropSlot (s : State) (tag : String) : State :=
  match lookup tag s.slots with
  | some old => { s with slots := remove tag s.slots, dropped := s.dropped + old.held }
  | none => s

def State.put (s : State) (tag : String) (m : AMsg) : State :=
  let s' := s.dropSlot tag
  { s' with slots := (tag, m) :: s'.slots }

def cloneStep (s : State) (src dst : String) (refuse : Out) : State × Out :=
  match lookup src s.slots with
  | none => (s, .noSlot)
  | some m =>
    match m.content with
    | none => (s.put dst m, .cloned)
    | some b =>
      if b.clonable then (State.put { s with created := s.created + 1 } dst m, .cloned)
      else (s, refuse)

def step (s : State) : Op → State × Out
  | .new tag id kind => (s.put tag { header := { id := id, kind := kind }, content := none }, .done)
  | .set tag c T v =>
    match lookup tag s.slots with
    | none => (s, .noSlot)
    | some m =>
      let m' : AMsg := { m with content := some { ty := T, val := v, len := declaredLen c v, clonable := clonableOf c } }
      ({ slots := (tag, m') :: remove tag s.slots, created := s.created + 1, dropped := s.dropped + m.held }, .done)
  | .clone src dst => cloneStep s src dst .panic
  | .tryClone src dst => cloneStep s src dst .notClonable
  | .cast tag T =>
    match lookup tag s.slots with
    | none => (s, .noSlot)
    | some m =>
      match m.content with
      | some b =>
        if b.ty = T then
          ({ s with slots := remove tag s.slots, dropped := s.dropped + 1 }, .castOk (some b.val) m.header)
        else ({ s with slots := (tag, m) :: remove tag s.slots }, .castErr)
      | none => ({ s with slots := (tag, m) :: remove tag s.slots }, .castErr)
  | .content tag T =>
    match lookup tag s.slots with
    | none => (s, .noSlot)
    | some m =>
      match m.content with
      | some b => if b.ty = T then (s, .content (some (some b.val))) else (s, .content none)
      | none => (s, .content none)
  | .canCast tag T =>
    match lookup tag s.slots with
    | none => (s, .noSlot)
    | some m =>
      match m.content with
      | some b => (s, .bool (decide (b.ty = T)))
      | none => (s, .bool false)
  | .length tag =>
    match lookup tag s.slots with
    | none => (s, .noSlot)
    | some m => (s, .length m.length (m.length * 8))
  | .drop tag =>
    match lookup tag s.slots with
    | none => (s, .noSlot)
    | some _ => (s.dropSlot tag, .done)

def run : State → List Op → State × List Out
  | s, [] => (s, [])
  | s, op :: ops =>
    let (s', o) := step s op
    let (s'', os) := run s' ops
    (s'', o :: os)

/-- values still held by messages -/
def heldBy : List (String × AMsg) → Nat
  | [] => 0
  | (_, m) :: rest => m.held + heldBy rest

def State.finish (s : State) : State := { slots := [], created := s.created, dropped := s.dropped + heldBy s.slots }

end MBSpec

/-
Abstract specification for C17: which configuration entries address which module.

A flat configuration is a list of (dotted key, scalar) entries.  An entry with key `k` gives the
module with path `p` the property `name` iff `k = q ++ name` where `q` has the length of `p`,
every `qᵢ` is `pᵢ` or the wildcard `<any>`, and `name` is non-empty and wildcard-free
(`Matches`, by recursion on the path; `matches_iff_exists_prefix` in Proofs/CfgSpecLemmas states the
equivalence with the `∃ q` form).
-/
import Desverif.Model.Cfg
namespace CfgSpec
open Cfg (Seg Key ANY Ty TV TAns)

/-- entry key `k` addresses module path `p` with property name `name` -/
def Matches : List Seg → Key → Key → Prop
  | [], k, name => k = name ∧ name ≠ [] ∧ ANY ∉ name
  | _ :: _, [], _ => False
  | s :: rest, h :: k, name => (h = s ∨ h = ANY) ∧ Matches rest k name

/-- executable form: the property name under which key `k` reaches module `p`, if it does -/
def matchName : List Seg → Key → Option Key
  | [], k => if k ≠ [] ∧ ANY ∉ k then some k else none
  | _ :: _, [] => none
  | s :: rest, h :: k => if h = s ∨ h = ANY then matchName rest k else none

/-- the domain of the property: keys are pairwise different, non-empty, and end in a property name
    (not in the wildcard) -/
def WF (c : Cfg.Flat) : Prop :=
  (c.map (·.1)).Nodup ∧ ∀ e ∈ c, e.1 ≠ [] ∧ e.1.getLast? ≠ some ANY

instance (c : Cfg.Flat) : Decidable (WF c) := by unfold WF; infer_instance

/-- the unrepaired class F11b: some entry's key, followed by the wildcard, is a prefix of another
    entry's key (`lx: 5` together with `lx.<any>.log: t`) -/
def Clash (c : Cfg.Flat) : Prop :=
  ∃ e1 ∈ c, ∃ e2 ∈ c, (e1.1 ++ [ANY]) <+: e2.1

instance (c : Cfg.Flat) : Decidable (Clash c) := by unfold Clash; infer_instance

/-- the property names the specification gives module `p` -/
def specKeys (c : Cfg.Flat) (p : List Seg) : List Key := c.filterMap fun e => matchName p e.1

/-- acceptance checker used by the driver: an observed property set (name, scalar) of module `p`
    is accepted for the configurations `cs` iff its names are exactly the specified ones and every
    value is the value of an entry that addresses `p` under that name -/
def accepts (cs : List Cfg.Flat) (p : List Seg) (obs : List (Key × String)) : Bool :=
  let want := cs.flatMap fun c => specKeys c p
  obs.all (fun o => want.contains o.1) && want.all (fun n => obs.any (·.1 = n)) &&
  obs.all fun o => cs.any fun c => c.any fun e => matchName p e.1 = some o.1 && e.2 = o.2

/-- abstract state of one property -/
inductive PState where
  | configured          -- a configuration value is waiting, no type yet
  | untyped             -- absent (never set, or cleared)
  | holds (t : Ty)      -- holds a value of type `t`
  deriving DecidableEq, Repr

/-- abstract view of an access: the type parameter of the call or of the handle used -/
inductive Acc where
  | openT (t : Ty)      -- `prop::<T>(key)`
  | get (t : Ty)        -- through a live `Prop<T>` handle, fresh or stale
  | orDefault (t : Ty)
  | set (t : Ty)
  | clear               -- `Prop::clear` / `RawProp::clear`
  | drop
  deriving DecidableEq, Repr

def isErr : TAns → Bool
  | .invalid | .other | .panic => true
  | _ => false

/-- **Abstract typed-slot rule.**  A property keeps the type it was first read or written with until
    it is cleared.  While it holds a value of type `t`: every access with another type — a new
    `prop::<T>` call or any use of a handle of another type, however old — is answered with an error
    (`InvalidInput` for the call, a panic for the handle) and changes nothing; accesses with type
    `t` succeed and return only values of type `t`.  Without a value, any type may be chosen; the
    first successful write / default / conversion of the configured value fixes it.
    Returns (answer acceptable?, state afterwards). -/
def typedAccept (st : PState) (a : Acc) (ans : TAns) : Bool × PState :=
  match a with
  | .clear => (ans = .ok, .untyped)
  | .drop => (ans = .ok, st)
  | .openT t =>
    match st with
    | .holds t' => if t = t' then (ans = .ok, st) else (ans = .invalid, st)
    | .untyped => (ans = .ok, st)
    | .configured =>
      match ans with
      | .ok => (true, .holds t)        -- the configured value was converted to `t`
      | .other => (true, st)           -- it does not convert: nothing changes
      | _ => (false, st)
  | .get t =>
    match st with
    | .holds t' =>
      if t = t' then
        match ans with
        | .val tv => (tv.ty = t, st)
        | _ => (false, st)
      else (ans = .panic, st)
    | _ => (ans = .none || ans = .panic, st)     -- no value: absent, or a `PRESENT` handle outlived a clear
  | .orDefault t =>
    match st with
    | .holds t' =>
      if t = t' then
        match ans with
        | .val tv => (tv.ty = t, st)
        | _ => (false, st)
      else (ans = .panic, st)
    | .untyped =>
      match ans with
      | .val tv => (tv.ty = t, .holds t)
      | .panic => (true, st)                     -- `PRESENT` handle after a clear
      | _ => (false, st)
    | .configured => (ans = .panic, st)
  | .set t =>
    match st with
    | .holds t' => if t = t' then (ans = .ok, st) else (ans = .panic, st)
    | _ => (ans = .ok, .holds t)

end CfgSpec

/-
Abstract specification for C17: which configuration entries address which module.

A flat configuration is a list of (dotted key, scalar) entries.  An entry with key `k` gives the
module with path `p` the property `name` iff `k = q ++ name` where `q` has the length of `p`,
every `qᵢ` is `pᵢ` or the wildcard `<any>`, and `name` is non-empty and wildcard-free
(`Matches`, by recursion on the path; `matches_iff_exists_prefix` in Proofs/CfgSpecLemmas states the
equivalence with the `∃ q` form).
-/
import Desverif.Model.Cfg
namespace CfgSpec
open Cfg (Seg Key ANY Ty TV TAns)

/-- entry key `k` addresses module path `p` with property name `name` -/
def Matches : List Seg → Key → Key → Prop
  | [], k, name => k = name ∧ name ≠ [] ∧ ANY ∉ name
  | _ :: _, [], _ => False
  | s :: rest, h :: k, name => (h = s ∨ h = ANY) ∧ Matches rest k name

/-- executable form: the property name under which key `k` reaches module `p`, if it does -/
def matchName : List Seg → Key → Option Key
  | [], k => if k ≠ [] ∧ ANY ∉ k then some k else none
  | _ :: _, [] => none
  | s :: rest, h :: k => if h = s ∨ h = ANY then matchName rest k else none

/-- the domain of the property: keys are pairwise different, non-empty, and end in a property name
    (not in the wildcard) -/
def WF (c : Cfg.Flat) : Prop :=
  (c.map (·.1)).Nodup ∧ ∀ e ∈ c, e.1 ≠ [] ∧ e.1.getLast? ≠ some ANY

instance (c : Cfg.Flat) : Decidable (WF c) := by unfold WF; infer_instance

/-- the unrepaired class F11b: some entry's key, followed by the wildcard, is a prefix of another
    entry's key (`lx: 5` together with `lx.<any>.log: t`) -/
def Clash (c : Cfg.Flat) : Prop :=
  ∃ e1 ∈ c, ∃ e2 ∈ c, (e1.1 ++ [ANY]) <+: e2.1

instance (c : Cfg.Flat) : Decidable (Clash c) := by unfold Clash; infer_instance

/-- the property names the specification gives module `p` -/
def specKeys (c : Cfg.Flat) (p : List Seg) : List Key := c.filterMap fun e => matchName p e.1

/-- acceptance checker used by the driver: an observed property set (name, scalar) of module `p`
    is accepted for the configurations `cs` iff its names are exactly the specified ones and every
    value is the value of an entry that addresses `p` under that name -/
def accepts (cs : List Cfg.Flat) (p : List Seg) (obs : List (Key × String)) : Bool :=
  let want := cs.flatMap fun c => specKeys c p
  obs.all (fun o => want.contains o.1) && want.all (fun n => obs.any (·.1 = n)) &&
  obs.all fun o => cs.any fun c => c.any fun e => matchName p e.1 = some o.1 && e.2 = o.2

/-- abstract typed-slot rule.  `fixed` is the type the property currently holds a value of (if any);
    returns whether the implementation's answer to an access with type `t` is acceptable, and the
    type held afterwards.  A property holding a value of type `t'` answers `invalid` to every other
    type and is never reinterpreted. -/
def typedAccept (fixed : Option Ty) (t : Ty) (ans : TAns) : Bool × Option Ty :=
  match fixed with
  | some t' =>
    if t = t' then
      match ans with
      | .val tv => (tv.ty = t, fixed)
      | .ok => (true, fixed)
      | _ => (false, fixed)
    else (ans = .invalid, fixed)
  | none =>
    match ans with
    | .invalid => (false, none)
    | .val tv => (tv.ty = t, some t)
    | .ok => (true, some t)
    | _ => (true, none)

end CfgSpec

/-
Abstract future event set: the specification that C01 / C03 are stated against.
No bucket count, no bucket width, no window: just a clock, the FIFO of events that were
scheduled *for the current instant*, and the set of all other pending events.
-/
import Desverif.Model.CQ
namespace FES
open CQ (Ev)

structure State where
  cur : Nat
  zero : List Ev          -- scheduled for the current instant, FIFO
  pend : List Ev          -- all other pending events, in scheduling order
  nextId : Nat
deriving Repr

def init : State := { cur := 0, zero := [], pend := [], nextId := 0 }

/-- scheduling order on pending events: earlier time first, among equal times smaller id -/
def evLt (a b : Ev) : Prop := a.time < b.time ∨ (a.time = b.time ∧ a.id < b.id)

instance : DecidableRel evLt := fun a b => by unfold evLt; exact inferInstance

/-- `(time, id)`-minimum of a list -/
def minEv : List Ev → Option Ev
  | [] => none
  | e :: es => some (es.foldl (fun m x => if evLt x m then x else m) e)

def eraseId (l : List Ev) (i : Nat) : List Ev := l.filter (fun e => e.id ≠ i)

inductive Err | pastEvent | empty
deriving Repr, DecidableEq

def add (s : State) (time val : Nat) : Except Err (State × Nat) :=
  if time < s.cur then .error .pastEvent else
  let e : Ev := ⟨time, s.nextId, val⟩
  if time = s.cur then .ok ({ s with zero := s.zero ++ [e], nextId := s.nextId + 1 }, e.id)
  else .ok ({ s with pend := s.pend ++ [e], nextId := s.nextId + 1 }, e.id)

/-- cancelling removes the event with that id if (and only if) it is still pending -/
def cancel (s : State) (id : Nat) : State :=
  { s with zero := eraseId s.zero id, pend := eraseId s.pend id }

def fetch (s : State) : Except Err (Ev × State) :=
  match s.zero with
  | e :: z => .ok (e, { s with zero := z })
  | [] =>
    match minEv s.pend with
    | none => .error .empty
    | some e => .ok (e, { s with pend := eraseId s.pend e.id, cur := e.time })

def len (s : State) : Nat := s.zero.length + s.pend.length

/-- timestamp of the event the next `fetch` would return -/
def nextTime (s : State) : Option Nat :=
  match s.zero with
  | e :: _ => some e.time
  | [] => (minEv s.pend).map (·.time)

end FES

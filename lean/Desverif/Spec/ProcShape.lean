/-
C14 — the bracket an event must draw in the call log, stated by stack *index* (no recursion over
the stack, no state threading): this is what the model of the processing loops is proved against
(Props/C14.lean) and what the driver accepts implementation logs with (`accepts`).

For a stack of `k` elements whose `incoming` behaviours are `acts`, an event of kind `kind` on
module `mi` at time `t` must log

    start₀ inc₀? start₁ inc₁? … start_{k-1} inc_{k-1}?  handler?  end_{k-1} … end₀

where `incᵢ` is present iff the event carries a message and no element before `i` consumed it
(`msgAt acts m0 i` is the message element `i` then sees), and the handler entry is present iff the
kind has a callback (not a wake-up) and, for a message, no element consumed it.
-/
import Desverif.Model.Proc
namespace Proc

/-- the message that reaches element `i` (`none`: the event carries none, or an earlier element
    consumed it) -/
def msgAt (acts : List (Nat → Act)) (m0 : Option Nat) : Nat → Option Nat
  | 0 => m0
  | i + 1 => (msgAt acts m0 i).bind fun id =>
      match acts[i]? with
      | some a => (a id).apply id
      | none => none

/-- element `j` gets the message and consumes it -/
def consumesAt (acts : List (Nat → Act)) (m0 : Option Nat) (j : Nat) : Bool :=
  match acts[j]?, msgAt acts m0 j with
  | some a, some id => a id == .consume
  | _, _ => false

/-! ### the log of one event -/

def startEntry (mi t i : Nat) : Entry := ⟨mi, some i, .start, none, t⟩
def incEntry (mi t i id : Nat) : Entry := ⟨mi, some i, .inc, some id, t⟩
def endEntry (mi t i : Nat) : Entry := ⟨mi, some i, .end_, none, t⟩

/-- upstream part of element `i` -/
def upEntries (mi t : Nat) (acts : List (Nat → Act)) (m0 : Option Nat) (i : Nat) : List Entry :=
  startEntry mi t i :: (match msgAt acts m0 i with
    | some id => [incEntry mi t i id]
    | none => [])

/-- the handler entry of an event -/
def handlerEntries (mi t : Nat) (kind : Kind) (out : Option Nat) : List Entry :=
  match kind with
  | .message _ =>
    match out with
    | some id => [⟨mi, none, .msg, some id, t⟩]
    | none => []
  | .wakeup => []
  | .simStart k => [⟨mi, none, .simStart, some k, t⟩]
  | .simEnd => [⟨mi, none, .simEnd, none, t⟩]

/-- **the bracket** -/
def shape (mi t : Nat) (acts : List (Nat → Act)) (kind : Kind) : List Entry :=
  (List.range acts.length).flatMap (upEntries mi t acts kind.msg?)
    ++ handlerEntries mi t kind (msgAt acts kind.msg? acts.length)
    ++ (List.range acts.length).reverse.map (endEntry mi t)

/-! ### the full program-order trace of one event (calls and buffer pushes) -/

def upItemsAt (c : Ctx) (es : List ElemRt) (m0 : Option Nat) (i : Nat) : List Item :=
  match es[i]? with
  | none => []
  | some e => startItems c i e ++ (match msgAt (es.map (·.spec.act)) m0 i with
      | some id => incItems c i e id
      | none => [])

def endItemsAt (c : Ctx) (es : List ElemRt) (i : Nat) : List Item :=
  match es[i]? with
  | none => []
  | some e => endItems c i e

/-- the trace a bracket must produce on module state `m` when the tasks `woken` are due: per
    element in stack order its `event_start` call and what it does there, then (if the message
    got there) its `incoming` call and what it does there; the handler call and its direct sends /
    shutdown requests; the sends of the tasks that were due, in deadline order; per element in
    reverse order its `event_end` call and what it does there -/
def traceShape (c : Ctx) (m : ModRt) (kind : Kind) (woken : Sleepers) : List Item :=
  let acts := m.elems.map (·.spec.act)
  (List.range m.elems.length).flatMap (upItemsAt c m.elems kind.msg?)
    ++ handlerItems c m kind (msgAt acts kind.msg? m.elems.length)
    ++ wokenItems c woken
    ++ (List.range m.elems.length).reverse.flatMap (endItemsAt c m.elems)

/-- the tasks that are due at `c.now` -/
def dueTasks (c : Ctx) (m : ModRt) : Sleepers := m.sleepers.takeWhile (fun s => s.1 ≤ c.now)

/-! ### executable acceptor for implementation logs -/

def isPrefix : List Entry → List Entry → Bool
  | [], _ => true
  | _ :: _, [] => false
  | a :: as, b :: bs => a == b && isPrefix as bs

/-- candidate event kinds for the bracket that starts at the head of `log` -/
def candidates (log : List Entry) (k : Nat) : List Kind :=
  let ids := (log.take (2 * k + 2)).filterMap (·.msg)
  .wakeup :: .simEnd :: ids.flatMap fun x => [.message x, .simStart x]

/-- the log is a concatenation of complete brackets (`stacks[mi]` = behaviours of module `mi`'s
    stack); returns the number of entries that could be parsed and the brackets found -/
def parseLog (stacks : List (List (Nat → Act))) : Nat → List Entry → List (Nat × Nat × Kind) →
    Nat × List (Nat × Nat × Kind)
  | 0, log, acc => (log.length, acc.reverse)
  | _ + 1, [], acc => (0, acc.reverse)
  | fuel + 1, e :: rest, acc =>
    match stacks[e.mod]? with
    | none => ((e :: rest).length, acc.reverse)
    | some acts =>
      let fits := (candidates (e :: rest) acts.length).filter fun kind =>
        let sh := shape e.mod e.time acts kind
        !sh.isEmpty && isPrefix sh (e :: rest)
      match fits with
      | [] => ((e :: rest).length, acc.reverse)
      | kind :: _ =>
        parseLog stacks fuel ((e :: rest).drop (shape e.mod e.time acts kind).length)
          ((e.mod, e.time, kind) :: acc)

/-- `none`: accepted; `some i`: the entry with index `i` does not start a well-formed bracket -/
def rejectsAt (stacks : List (List (Nat → Act))) (log : List Entry) : Option Nat :=
  let r := parseLog stacks (log.length + 1) log []
  if r.1 = 0 then none else some (log.length - r.1)

def brackets (stacks : List (List (Nat → Act))) (log : List Entry) : List (Nat × Nat × Kind) :=
  (parseLog stacks (log.length + 1) log []).2

/-! ### lifecycle acceptor: no hook for a module that is shut down -/

/-- what the log has told about a module so far -/
structure Life where
  down : Option (Option Nat) := none   -- a shutdown is in effect (with the restart time)
  chain : Option (Nat × Nat) := none   -- its last bracket was start stage `k` of a restart at time `t`

/-- the next bracket of a module with `stages` start stages: its time, kind and the shutdown
    requests made inside it (absolute restart times).  `none`: the bracket must not exist.

    * an active module may draw any bracket;
    * a module that is shut down draws no bracket, except: the tear-down bracket (`at_sim_end` is
      called on every module), start stage 0 at exactly the restart time (the restart, which makes
      it active again), and the further stages `k+1` of a restart right after stage `k` at the same
      time (all stages of a restart run inside one kernel event, a shutdown requested in one of
      them takes effect after the last);
    * a module without start stages restarts invisibly: from the restart time on it may draw
      brackets again. -/
def Life.next (stages : Nat) (st : Life) (t : Nat) (kind : Kind) (reqs : List (Option Nat)) :
    Option Life :=
  let continues (k : Nat) : Bool :=
    match st.chain with
    | some (t', k') => t' == t && k == k' + 1
    | none => false
  let r : Option (Option (Option Nat) × Option (Nat × Nat)) :=
    match st.down with
    | none =>
      some (none, match kind with
        | .simStart k => if continues k then some (t, k) else none
        | _ => none)
    | some r =>
      match kind with
      | .simEnd => some (st.down, none)
      | .simStart k =>
        if k == 0 && r == some t then some (none, some (t, 0))
        else if continues k then some (st.down, some (t, k))
        else none
      | _ =>
        match r with
        | some tr => if stages == 0 && tr ≤ t then some (none, none) else none
        | none => none
  match r with
  | none => none
  | some (down, chain) =>
    some { down := match reqs.getLast? with
             | some x => if kind == .simEnd then down else some x
             | none => down
           chain := chain }

/-- walk over the brackets `(module, time, kind, shutdown requests inside)`; `some i`: bracket `i`
    belongs to a module that is shut down -/
def lifeRejectsAt (stages : List Nat) :
    List (Nat × Nat × Kind × List (Option Nat)) → List Life → Nat → Option Nat
  | [], _, _ => none
  | b :: rest, lives, i =>
    match Life.next (stages[b.1]?.getD 0) (lives[b.1]?.getD {}) b.2.1 b.2.2.1 b.2.2.2 with
    | none => some i
    | some l => lifeRejectsAt stages rest (lives.set b.1 l) (i + 1)

end Proc

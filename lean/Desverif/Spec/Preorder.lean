/-
Abstract specification for C12: the *declared module tree*.

A declaration is a path given as its list of name segments plus the number of start-up stages.
`D : List (Decl α)` is the sequence of accepted declarations in creation order.  Everything below
depends on `D` only through `kids D q` / `roots D`, i.e. through the creation order *among siblings*.

* `declare`   — what the builder must answer (`ok` / `dup` / `noParent`)
* `preorder`  — depth-first pre-order of the declared tree, siblings in creation order
* `startSpec` — stage-major start-up calls; `endSpec` — tear-down calls

A module whose path has length ≤ 1 has no parent module (`ObjectPath::nonzero_parent`); this
includes a module declared at the root path `""` (segments `[]`).
-/
namespace PreSpec
variable {α : Type} [DecidableEq α]

structure Decl (α : Type) where
  segs : List α
  stages : Nat
deriving Repr, DecidableEq

/-- the path of the parent *module*, if the path has one -/
def par (p : List α) : Option (List α) := if p.length ≤ 1 then none else some p.dropLast

/-- declared children of the module at `q`, in creation order -/
def kids (D : List (Decl α)) (q : List α) : List (Decl α) := D.filter (fun d => par d.segs == some q)

/-- declared modules without a parent module, in creation order -/
def roots (D : List (Decl α)) : List (Decl α) := D.filter (fun d => par d.segs == none)

/-- pre-order of the subtree of `d` (fuel = remaining depth) -/
def dfs (D : List (Decl α)) : Nat → Decl α → List (Decl α)
  | 0, d => [d]
  | f + 1, d => d :: (kids D d.segs).flatMap (dfs D f)

def maxLen (D : List (Decl α)) : Nat := D.foldl (fun a d => max a d.segs.length) 0

/-- depth-first pre-order of the declared tree with siblings in creation order -/
def preorder (D : List (Decl α)) : List (Decl α) := (roots D).flatMap (dfs D (maxLen D))

inductive Ans
  | ok | dup | noParent
deriving Repr, DecidableEq

def has (D : List (Decl α)) (p : List α) : Bool := D.any (fun d => d.segs == p)

/-- the builder's contract: duplicate paths and nodes without an existing parent are rejected -/
def declare (D : List (Decl α)) (d : Decl α) : Ans × List (Decl α) :=
  if has D d.segs then (.dup, D)
  else match par d.segs with
    | none => (.ok, D ++ [d])
    | some q => if has D q then (.ok, D ++ [d]) else (.noParent, D)

/-- every prefix of `D` was acceptable: no duplicates, each parent declared earlier -/
def validFrom (seen : List (List α)) : List (Decl α) → Bool
  | [] => true
  | d :: ds =>
    !seen.contains d.segs
      && (match par d.segs with
          | none => true
          | some q => seen.contains q)
      && validFrom (d.segs :: seen) ds

def Valid (D : List (Decl α)) : Prop := validFrom [] D = true

instance (D : List (Decl α)) : Decidable (Valid D) := by unfold Valid; infer_instance

def maxStage (D : List (Decl α)) : Nat := D.foldl (fun a d => max a d.stages) 1

/-- start-up calls: stage by stage, inside a stage the declared stages' owners in pre-order -/
def startSpec (D : List (Decl α)) : List (Decl α × Nat) :=
  (List.range (maxStage D)).flatMap
    (fun s => ((preorder D).filter (fun d => s < d.stages)).map (fun d => (d, s)))

/-- tear-down calls: every module once, in pre-order -/
def endSpec (D : List (Decl α)) : List (Decl α) := preorder D

end PreSpec

/-
C06 as an acceptance check on an implementation history (abstract specification).

The history is the sequence of records `(SimTime::now(), task)` made by the tasks of ONE module at their first poll
and after every await.  The specification fixes what the tokio primitives mean (the helpers of Model/Exec.lean:
FIFO hand-over of permits, JoinHandles, timers) but NOT how the executor schedules: no budgets, no queues order, no
passes.  It replays the history event by event:

  * at an event of the module at instant `t` (message, consumed message, timer wake-up) the due timers are woken and
    the handler's spawns / wakes are performed; then every record stamped `t` is consumed in order: its task must
    be RUNNABLE at that point (spawned and not yet polled, woken, yielded, or standing at an await that can complete),
    it completes exactly that one await and runs on to its next await;
  * when the records of instant `t` are used up NOTHING of the module may be runnable: "every task of that module that
    is or becomes runnable during the event is polled until all tasks are blocked again before simulated time
    advances".  A task that is left runnable is reported (`Verdict.left`); a record at an instant at which the task
    was not runnable (e.g. at a later event) is `Verdict.infeasible`.
  * wakes performed by another module's event (`Ev.foreign`) make tasks runnable while no event of this module is
    processed; they have to be polled by the end of the module's next own event.

A late observation always shows up as `left` at the instant that enabled it.
-/
import Desverif.Model.Exec
namespace ExecSpec
open Exec

inductive Verdict
  | ok
  /-- record number `pos` (time, task) cannot be made by a runnable task at that instant -/
  | infeasible (pos : Nat) (time task : Nat)
  /-- after the event at `time` task `e.idx` was still runnable -/
  | left (time : Nat) (e : Entry)
  deriving Repr, DecidableEq

/-- one await may complete (`b = 1`); at the next await the task blocks (registers) or, if it could go on, stays
runnable (parked in `dq`, which serves as the pool of runnable-but-unscheduled tasks) -/
def sRun (k : Kind) (i : Nat) : List Instr → Nat → Nat → Phase → St → St
  | [], _, _, _, s => finish s i
  | .spawn t :: r, b, rdy, org, s => sRun k i r b rdy org (spawnTask (setProg s i r) t)
  | .wake q :: r, b, rdy, org, s => sRun k i r b rdy org (wakeCond (setProg s i r) q)
  | .notifyAll q :: r, b, rdy, org, s => sRun k i r b rdy org (wakeAll (setProg s i r) q)
  | .yield :: r, _, _, _, s => defer (setProg s i (.resume :: r)) k i
  | .resume :: r, b, rdy, org, s =>
    if b = 0 then defer s k i
    else sRun k i r (b - 1) s.now s.phase (logAt (setProg s i r) i rdy org)
  | .wait q :: r, b, rdy, org, s =>
    match s.conds[q]? with
    | none => s
    | some cd =>
      if cd.permits == 0 then
        setProg { s with conds := s.conds.set q { cd with waiters := cd.waiters ++ [(k, i)] } } i (.waiting q :: r)
      else if b = 0 then defer s k i
      else
        let s1 := { s with conds := s.conds.set q { cd with permits := cd.permits - 1 } }
        sRun k i r (b - 1) s.now s.phase (logAt (setProg s1 i r) i rdy org)
  | .waiting q :: r, b, rdy, org, s =>
    match s.tasks[i]? with
    | none => s
    | some tk =>
      if tk.granted then
        if b = 0 then defer s k i
        else
          let s1 := { s with tasks := s.tasks.set i { tk with granted := false } }
          sRun k i r (b - 1) s.now s.phase (logAt (setProg s1 i r) i rdy org)
      else s
  | .join t :: r, b, rdy, org, s =>
    match s.tasks[t]? with
    | none => s
    | some tj =>
      if !tj.started then s
      else if tj.done then
        if b = 0 then defer s k i
        else sRun k i r (b - 1) s.now s.phase (logAt (setProg s i r) i rdy org)
      else setProg { s with tasks := s.tasks.set t { tj with joiner := some (k, i) } } i (.joining t :: r)
  | .joining t :: r, b, rdy, org, s =>
    match s.tasks[t]? with
    | none => s
    | some tj =>
      if tj.done then
        if b = 0 then defer s k i
        else sRun k i r (b - 1) s.now s.phase (logAt (setProg s i r) i rdy org)
      else s
  | .sleep d :: r, b, rdy, org, s =>
    if s.now < s.now + d then addTimer (setProg s i (.sleeping (s.now + d) :: r)) ⟨s.now + d, k, i⟩
    else if b = 0 then defer s k i
    else sRun k i r (b - 1) s.now s.phase (logAt (setProg s i r) i rdy org)
  | .sleepUntil t :: r, b, rdy, org, s =>
    if s.now < t then addTimer (setProg s i (.sleeping t :: r)) ⟨t, k, i⟩
    else if b = 0 then defer s k i
    else sRun k i r (b - 1) s.now s.phase (logAt (setProg s i r) i rdy org)
  | .sleeping t :: r, b, rdy, org, s =>
    if s.now < t then s
    else if b = 0 then defer s k i
    else sRun k i r (b - 1) s.now s.phase (logAt (setProg s i r) i rdy org)

/-- the step that one record stands for -/
def sPoll (e : Entry) (s : St) : St :=
  match s.tasks[e.idx]? with
  | none => s
  | some tk =>
    if tk.done then s
    else if tk.polled then sRun e.kind e.idx tk.prog 1 e.ready e.origin s
    else sRun e.kind e.idx tk.prog 0 s.now s.phase (logAt (markPolled s e.idx) e.idx e.ready e.origin)

def takeIdx (i : Nat) : List Entry → Option (Entry × List Entry)
  | [] => none
  | e :: r => if e.idx = i then some (e, r) else
    match takeIdx i r with
    | none => none
    | some (x, r') => some (x, e :: r')

/-- remove the (single) entry of task `i` from the runnable pool -/
def takeRunnable (i : Nat) (s : St) : Option (Entry × St) :=
  match takeIdx i s.rq with
  | some (e, r) => some (e, { s with rq := r })
  | none =>
    match takeIdx i s.iq with
    | some (e, r) => some (e, { s with iq := r })
    | none =>
      match takeIdx i s.lq with
      | some (e, r) => some (e, { s with lq := r })
      | none =>
        match takeIdx i s.dq with
        | some (e, r) => some (e, { s with dq := r })
        | none => none

/-- consume the records stamped `t` -/
def consume (t : Nat) : List (Nat × Nat) → Nat → St → St × List (Nat × Nat) × Nat × Option Verdict
  | [], pos, s => (s, [], pos, none)
  | (rt, x) :: rest, pos, s =>
    if rt ≠ t then (s, (rt, x) :: rest, pos, none)
    else
      match takeRunnable x s with
      | none => (s, rest, pos, some (.infeasible pos rt x))
      | some (e, s1) =>
        let s2 := sPoll e { s1 with phase := .tick }
        -- the step must have made exactly this record
        if s2.log.length = s.log.length + 1 then consume t rest (pos + 1) s2
        else (s, rest, pos, some (.infeasible pos rt x))

def firstRunnable (s : St) : Option Entry := (s.rq ++ s.iq ++ s.lq ++ s.dq).head?

/-- one event; `none` = accepted so far -/
def sHandle (ev : Ev) (recs : List (Nat × Nat)) (pos : Nat) (s : St) : St × List (Nat × Nat) × Nat × Option Verdict :=
  if ev.foreign then
    ({ runH ev.prog { s with now := ev.time, phase := .foreign } with now := s.now }, recs, pos, none)
  else
    let s0 := activate ev.time s
    let s1 := if ev.consumed then runH ev.prog s0 else runH ev.prog { s0 with phase := .handler }
    match consume ev.time recs pos s1 with
    | (s2, recs', pos', some v) => (s2, recs', pos', some v)
    | (s2, recs', pos', none) =>
      match firstRunnable s2 with
      | some e => (s2, recs', pos', some (.left ev.time e))
      | none => (s2, recs', pos', none)

/-- the whole history: the module's events in time order (as `Exec.runSim`: messages and the wake-up events
scheduled for the earliest pending deadline) -/
def accept : Nat → List Ev → List Nat → Option Nat → List (Nat × Nat) → Nat → St → Verdict
  | 0, _, _, _, _, _, _ => .ok
  | n + 1, evs, wk, nw, recs, pos, s =>
    match nextEvent evs wk with
    | none =>
      match recs with
      | [] => .ok
      | (t, x) :: _ => .infeasible pos t x
    | some (ev, evs', wk') =>
      match sHandle ev recs pos s with
      | (_, _, _, some v) => v
      | (s', recs', pos', none) =>
        if ev.foreign then accept n evs' wk' nw recs' pos' s' else
        let (nw', w) := deactivate s' (resetWakeup ev.time nw)
        accept n evs' (wk' ++ w.toList) nw' recs' pos' s'

end ExecSpec

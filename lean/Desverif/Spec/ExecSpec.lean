/-
C06 as an acceptance check on an implementation history (abstract specification).

The history is the sequence of records `(SimTime::now(), task)` made by the tasks of ONE module at their first poll
and after every await.  The specification fixes what a poll of a task means - `Exec.pollTask`: the tokio primitives
(FIFO hand-over of permits, JoinHandles, timers, the cooperative budget of one poll) - but NOT how the executor
schedules: no queue order, no tick / event-interval budgets, no passes.  Every runnable task sits in one pool
(the four queues of `Exec.St`, read as a set).  The history is replayed event by event:

  * at an own event of the module at instant `t` (message, consumed message, timer wake-up) the due timers are woken
    and the handler's spawns / wakes are performed; then the records stamped `t` are consumed: the task of the next
    record must be in the pool, it is polled, and that poll must make exactly the next records of the history;
  * when the records of instant `t` are used up NOTHING of the module may be runnable: "every task of that module that
    is or becomes runnable during the event is polled until all tasks are blocked again before simulated time
    advances".  What is left in the pool is polled: a task whose poll makes an observation was left runnable
    (`Verdict.left`); a poll without observation (a task the cooperative budget deferred at an await that cannot
    complete: it just registers) is harmless.  A record that no pooled task can make is `Verdict.infeasible`.
  * wakes performed by another module's event (`Ev.foreign`) make tasks runnable while no event of this module is
    processed; they have to be polled by the end of the module's next own event.

A late observation always shows up as `left` at the instant that enabled it.
`Proofs/ExecRefine.lean` proves that every history of the model `Exec.runSim` is accepted.
-/
import Desverif.Model.Exec
namespace ExecSpec
open Exec

inductive Verdict
  | ok
  /-- record number `pos` (time, task) cannot be made by a pooled task at that instant -/
  | infeasible (pos : Nat) (time task : Nat)
  /-- after the event at `time` task `e.idx` was still runnable -/
  | left (time : Nat) (e : Entry)
  deriving Repr, DecidableEq

def key (x : LogEntry) : Nat × Nat := (x.time, x.idx)

/-- the records a step added, oldest first -/
def newRecs (before after : St) : List (Nat × Nat) :=
  ((after.log.take (after.nobs - before.nobs)).reverse).map key

def takeIdx (i : Nat) : List Entry → Option (Entry × List Entry)
  | [] => none
  | e :: r => if e.idx = i then some (e, r) else
    match takeIdx i r with
    | none => none
    | some (x, r') => some (x, e :: r')

/-- remove an entry of task `i` from the pool -/
def takeRunnable (i : Nat) (s : St) : Option (Entry × St) :=
  match takeIdx i s.rq with
  | some (e, r) => some (e, { s with rq := r })
  | none =>
    match takeIdx i s.iq with
    | some (e, r) => some (e, { s with iq := r })
    | none =>
      match takeIdx i s.lq with
      | some (e, r) => some (e, { s with lq := r })
      | none =>
        match takeIdx i s.dq with
        | some (e, r) => some (e, { s with dq := r })
        | none => none

def isPrefix : List (Nat × Nat) → List (Nat × Nat) → Bool
  | [], _ => true
  | _ :: _, [] => false
  | a :: r, b :: r' => a == b && isPrefix r r'

/-- consume the records stamped `t`, one poll at a time (`n` bounds the number of polls) -/
def consume (P : Params) (t : Nat) : Nat → List (Nat × Nat) → Nat → St → St × List (Nat × Nat) × Nat × Option Verdict
  | 0, recs, pos, s => (s, recs, pos, none)
  | _ + 1, [], pos, s => (s, [], pos, none)
  | n + 1, (rt, x) :: rest, pos, s =>
    if rt ≠ t then (s, (rt, x) :: rest, pos, none)
    else
      match takeRunnable x s with
      | none => (s, (rt, x) :: rest, pos, some (.infeasible pos rt x))
      | some (e, s1) =>
        let s2 := pollTask P e { s1 with phase := .tick }
        let made := newRecs s1 s2
        if made.isEmpty || !isPrefix made ((rt, x) :: rest) then (s, (rt, x) :: rest, pos, some (.infeasible pos rt x))
        else consume P t n (((rt, x) :: rest).drop made.length) (pos + made.length) s2

def firstRunnable (s : St) : Option Entry := (s.rq ++ s.iq ++ s.lq ++ s.dq).head?

/-- nothing may be left runnable: poll what is left in the pool; an observation means it was left behind -/
def settle (P : Params) (t : Nat) : Nat → St → St × Option Verdict
  | 0, s => (s, (firstRunnable s).map (Verdict.left t))
  | n + 1, s =>
    match firstRunnable s with
    | none => (s, none)
    | some e =>
      match takeRunnable e.idx s with
      | none => (s, some (.left t e))
      | some (e', s1) =>
        let s2 := pollTask P e' { s1 with phase := .tick }
        if s2.nobs = s1.nobs then settle P t n s2 else (s, some (.left t e))

/-- consume the records of the instant, then nothing may be left runnable -/
def sFinish (P : Params) (t : Nat) (recs : List (Nat × Nat)) (pos : Nat) (s1 : St) :
    St × List (Nat × Nat) × Nat × Option Verdict :=
  match consume P t recs.length recs pos s1 with
  | (s2, recs', pos', some v) => (s2, recs', pos', some v)
  | (s2, recs', pos', none) =>
    match settle P t (s2.rq.length + s2.iq.length + s2.lq.length + s2.dq.length) s2 with
    | (s3, v) => (s3, recs', pos', v)

/-- one event; `none` = accepted so far -/
def sHandle (P : Params) (ev : Ev) (recs : List (Nat × Nat)) (pos : Nat) (s : St) :
    St × List (Nat × Nat) × Nat × Option Verdict :=
  if ev.foreign then
    ({ runH ev.prog { s with now := ev.time, phase := .foreign } with now := s.now }, recs, pos, none)
  else if ev.consumed then sFinish P ev.time recs pos (runH ev.prog (activate ev.time s))
  else sFinish P ev.time recs pos (runH ev.prog { activate ev.time s with phase := .handler })

/-- the whole history: the module's events in time order (as `Exec.runSim`: messages and the wake-up events
scheduled for the earliest pending deadline) -/
def accept (P : Params) : Nat → List Ev → List Nat → Option Nat → List (Nat × Nat) → Nat → St → Verdict
  | 0, _, _, _, _, _, _ => .ok
  | n + 1, evs, wk, nw, recs, pos, s =>
    match nextEvent evs wk with
    | none =>
      match recs with
      | [] => .ok
      | (t, x) :: _ => .infeasible pos t x
    | some (ev, evs', wk') =>
      match sHandle P ev recs pos s with
      | (_, _, _, some v) => v
      | (s', recs', pos', none) =>
        if ev.foreign then accept P n evs' wk' nw recs' pos' s' else
        let (nw', w) := deactivate s' (resetWakeup ev.time nw)
        accept P n evs' (wk' ++ w.toList) nw' recs' pos' s'

end ExecSpec

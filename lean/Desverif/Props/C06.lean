/-
C06 — all runnable async work finishes within the simulated instant that enabled it.

Statements about the model of `Harness::exec` and of a module's event loop (Model/Exec.lean):
  `pass`   = LocalSet tick (budget L) ; runtime loop (budget E, local + inject queue) ; deferred wakers re-queued
  `turn1`  = callback ; one pass                      (the code before the repairs: exactly one pass per event)
  `exec`   = callback ; pass ; passes until idle      (the repaired code)
  `handle` = activate (timer wake-ups, outside the executor) ; [consuming element] ; exec
  `runSim` = the module's events - messages and the `AsyncWakeupEvent`s scheduled by `deactivate` - in time order
`Exec.Need P q s n` = `next_task()` of queue `q` needs exactly `n` polls from state `s` until it finds nothing.

For ONE pass the property is false in four ways, characterised exactly by `pass_drains_iff`; the `*_witness`
theorems exhibit a failing run per mechanism (F4, F4b, F4c, F4d, and F4 through timer wake-ups).  The repaired
`exec` always ends with nothing runnable (`exec_drains`); the wake-up events never skip a deadline; hence
`no_await_observes_later_time` for every script and every event sequence, timer-woken tasks included.
-/
import Desverif.Proofs.ExecMeasure
import Desverif.Proofs.ExecTime
import Desverif.Proofs.ExecPotential
import Desverif.Proofs.ExecSim
import Desverif.Proofs.ExecRefine
import Desverif.Proofs.ExecOrder
import Desverif.Proofs.ExecExamples
namespace C06
open Exec

/-- Nothing is runnable after one pass IFF the LocalSet queue needs at most `L` polls, the runtime's queues (local
and inject) at most `E` polls, no local task became runnable during the runtime loop, and no waker was deferred. -/
theorem pass_drains_iff (P : Params) (s : St) (nL nE : Nat)
    (hL : Need P .loc (tickStart s) nL) (hE : Need P .rt (rtStart P s) nE) :
    Quiet (pass P s) ↔
      nL ≤ P.L ∧ nE ≤ P.E ∧ (afterRt P s).lq = [] ∧ (afterRt P s).dq = [] := by
  unfold pass
  rw [quiet_flush_iff]
  have hrt : ((afterRt P s).rq = [] ∧ (afterRt P s).iq = []) ↔ nE ≤ P.E := by
    rw [← need_iff P .rt (rtStart P s) nE P.E hE, pop_none_rt]
    unfold afterRt
    rw [runQn_eq]
    simp only
    split <;> exact Iff.rfl
  have hlt : (afterTick P s).lq = [] ↔ nL ≤ P.L := by
    rw [← need_iff P .loc (tickStart s) nL P.L hL, pop_none_loc]
    unfold afterTick
    rw [runQn_eq]
    simp only
    split <;> exact Iff.rfl
  have hmono : (afterTick P s).lq.length ≤ (afterRt P s).lq.length := by
    have := (runQ_rt_lq P P.E (rtStart P s)).1
    unfold afterRt
    rw [runQn_eq]
    simp only
    split <;> exact this
  unfold Quiet
  constructor
  · rintro ⟨h1, h2, h3, h4⟩
    refine ⟨hlt.1 ?_, hrt.1 ⟨h1, h2⟩, h3, h4⟩
    rw [h3] at hmono
    exact List.eq_nil_of_length_eq_zero (by simpa using hmono)
  · rintro ⟨_, h2, h3, h4⟩
    exact ⟨(hrt.2 h2).1, (hrt.2 h2).2, h3, h4⟩

/-- The code before the repairs ran exactly one pass per event: its run queues are empty at return iff the polls
needed fit the budgets and neither budget-independent mechanism struck. -/
theorem exec_drains_iff (P : Params) (h : List Instr) (s : St) (nL nE : Nat)
    (hL : Need P .loc (tickStart (afterHandler h { s with lflag := false })) nL)
    (hE : Need P .rt (rtStart P (afterHandler h { s with lflag := false })) nE) :
    Quiet (turn1 P h s) ↔
      nL ≤ P.L ∧ nE ≤ P.E ∧ (afterRt P (afterHandler h { s with lflag := false })).lq = [] ∧
        (afterRt P (afterHandler h { s with lflag := false })).dq = [] :=
  pass_drains_iff P _ nL nE hL hE

/-- The hypotheses of `pass_drains_iff` can always be met: every wake chain of the model terminates, a queue needs
at most `measure s` polls. -/
theorem chains_terminate (P : Params) (q : Kind) (s : St) : ∃ n, n ≤ measure s ∧ Need P q s n :=
  ⟨polls P q (measure s) s, polls_le P q _ s,
    need_polls P q (measure s) s (measure_drains P q (measure s) s (Nat.le_refl _))⟩

/-- With unbounded budgets (at least `measure`) every terminating wake chain inside a queue is fully run by the
pass: the LocalSet tick empties the LocalSet queue, the runtime loop empties the runtime's local and inject queue. -/
theorem pass_drains_unbounded (P : Params) (s : St) :
    (measure (tickStart s) ≤ P.L → (afterTick P s).lq = []) ∧
    (measure (rtStart P s) ≤ P.E → (afterRt P s).rq = [] ∧ (afterRt P s).iq = []) := by
  constructor
  · intro h
    have := (pop_none_loc P _).1 (measure_drains P .loc P.L (tickStart s) h)
    unfold afterTick
    rw [runQn_eq]
    simp only
    split <;> exact this
  · intro h
    have := (pop_none_rt P _).1 (measure_drains P .rt P.E (rtStart P s) h)
    unfold afterRt
    rw [runQn_eq]
    simp only
    split <;> exact this

/-- ... but even with `event_interval` unbounded one pass leaves work behind: local tasks still queued after the
runtime loop (tick budget exceeded, or woken by a runtime task) and deferred wakers. -/
theorem pass_drains_partial (P : Params) (s : St) (hE : measure (rtStart P s) ≤ P.E) :
    Quiet (pass P s) ↔ (afterRt P s).lq = [] ∧ (afterRt P s).dq = [] := by
  unfold pass
  rw [quiet_flush_iff]
  unfold Quiet
  have := (pass_drains_unbounded P s).2 hE
  exact ⟨fun ⟨_, _, h2, h3⟩ => ⟨h2, h3⟩, fun ⟨h2, h3⟩ => ⟨this.1, this.2, h2, h3⟩⟩

/-- The repaired `exec`: whatever the script and whatever was woken before it (timers, a consuming element), every
task that is or becomes runnable during the event is polled until all tasks are blocked again — for ANY budgets
of at least one poll. -/
theorem exec_drains (P : Params) (hL : 1 ≤ P.L) (hE : 1 ≤ P.E) (hC : 1 ≤ P.C) (h : List Instr) (s : St) :
    Quiet (exec P h s) :=
  exec_quiet P hL hE hC h s

/-- An own event of the module (either code) that starts with nothing runnable but tasks woken by other modules'
events, at an instant no pending timer deadline
precedes, never makes a late observation: whatever it polls - the timer-woken tasks included - became runnable
in this very instant.  Lateness can only come from work an earlier event left behind. -/
theorem event_from_quiet_on_time (P : Params) (single : Bool) (ev : Ev) (s : St) (hf : ev.foreign = false)
    (hq : Pend s) (ho : OnTime s) (hns : ∀ tm ∈ s.timers, ev.time ≤ tm.deadline) :
    OnTime (handle P single ev s) :=
  (handle_inv P single ev s hf hq ho hns).2.2.2.2.1

/-- Another module's event that wakes tasks of this module (shared `Arc<Notify>` / channel): nothing of this
module is polled, the woken tasks are queued with the stamp `.foreign`, the timers and the log are untouched.  They
are polled at the module's next own event (`exec_drains`).  C06 speaks of "an event processed for a module" and
"every task of that module": such a wake is outside its scope, and `OnTime` exempts exactly these observations. -/
theorem foreign_wakes_wait_for_next_event (P : Params) (single : Bool) (ev : Ev) (s : St) (hf : ev.foreign = true)
    (hq : Pend s) (ho : OnTime s) :
    Pend (handle P single ev s) ∧ OnTime (handle P single ev s) ∧ (handle P single ev s).timers = s.timers :=
  handle_foreign P single ev s hf hq ho

/-- No task ever observes a simulated time later than the instant at which its awaited condition became true -
be it woken by a task, the handler, a consuming processing element or a timer (`sleep`) - for every script,
every sequence of own messages interleaved with events of other modules that wake its tasks, and any budgets of
at least one poll (repaired code); at the end only wakes by other modules can be pending.  Observations enabled by
another module's event are the one exemption (`OnTime`): they are made at the module's next own event. -/
theorem no_await_observes_later_time (P : Params) (hL : 1 ≤ P.L) (hE : 1 ≤ P.E) (hC : 1 ≤ P.C)
    (fuel : Nat) (evs : List Ev) (s : St) (hq : Quiet s) (ho : OnTime s) (ht : s.timers = []) :
    OnTime (runSim P false fuel evs [] none s) ∧ Pend (runSim P false fuel evs [] none s) :=
  runSim_onTime P hL hE hC fuel evs [] none s (pend_of_quiet s hq) ho
    ⟨fun tm htm => by rw [ht] at htm; simp at htm, fun w0 h => by simp at h⟩

/-- The specification `ExecSpec.accept` - the acceptance check the driver applies to the implementation's history -
accepts every history of the model whose polls all make an observation and whose observations after an own event
are not stamped with that event's instant (`GoodRun`, decidable): for all scripts, event sequences (own messages,
consumed messages, timer wake-ups, other modules' events) and budgets of at least one poll. -/
theorem spec_accepts_good_run (P : Params) (hL : 1 ≤ P.L) (hE : 1 ≤ P.E) (hC : 1 ≤ P.C)
    (n : Nat) (evs : List Ev) (m : St) (hg : GoodRun P n evs [] none m) :
    ExecSpec.accept P n evs [] none ((hist (runSim P false n evs [] none m)).drop (hist m).length) 0 m = .ok := by
  obtain ⟨Δ, hΔ⟩ := runSim_grows P n evs [] none m
  refine accept_model P hL hE hC n evs [] none m m 0 _ (sim_refl m) hg ?_
  rw [hΔ, List.drop_left]

/-- Model refines specification: started with nothing runnable, and external messages (own and other modules')
arriving at strictly increasing instants, every history of the model is accepted by `ExecSpec.accept` - so what
the driver's acceptance check demands of the implementation is met by the model the other theorems are about.
One hypothesis on the run remains, hence `_partial`: `NoSilent`, every poll makes an observation (ghost counter
`St.silent`).  The one poll that does not is that of a task which the cooperative budget (128) deferred at an await
that cannot complete: it registers there when polled again; the specification sees only observations and cannot
place that poll among the others (it performs it at the end of the event, which is accepted whenever the order of
registration does not matter - evidence key `silentpolls`). -/
theorem spec_accepts_model_partial (P : Params) (hL : 1 ≤ P.L) (hE : 1 ≤ P.E) (hC : 1 ≤ P.C)
    (n : Nat) (evs : List Ev) (m : St) (hq : Quiet m) (ho : OnTime m) (ht : m.timers = [])
    (hsorted : Sorted evs) (hns : NoSilent P n evs [] none m) :
    ExecSpec.accept P n evs [] none ((hist (runSim P false n evs [] none m)).drop (hist m).length) 0 m = .ok := by
  refine spec_accepts_good_run P hL hE hC n evs m ?_
  refine goodRun_of_sorted P hL hE hC n 0 evs [] none m ?_ hns
  exact ⟨pend_of_quiet m hq, ho, ⟨fun tm htm => by rw [ht] at htm; simp at htm, fun w0 h => by simp at h⟩,
    hsorted, fun e _ => Nat.zero_le _, fun w hw => by simp at hw⟩

/-! ### witnesses: one pass per event leaves work behind -/

/-- F4 (tokio's default `event_interval` = 61, one pass): 62 ready `tokio::spawn` tasks, one is left behind. -/
theorem budget_witness :
    ((turn1 { L := 61, E := 61, C := 128 } (spawnAll 62) (readyTasks .rt 62)).rq.map (·.idx)) = [61] := by
  decide +kernel

/-- F4 through timers (`event_interval` = 61, one pass): 62 `tokio::spawn` tasks sleeping until the same deadline
(61 of them registered, the 62nd still queued from the spawning event) are woken into the inject queue; at the
deadline 61 polls are made, one timer-woken task stays in the inject queue. -/
theorem timer_budget_witness :
    ((runSim { L := 61, E := 61, C := 128 } true 9 [{ time := 1, prog := spawnAll 62 }] [] none (sleepers .rt 62 5)).iq.map
      (·.idx)) = [60] := by
  decide +kernel

/-- F4b (one pass): 62 ready `spawn_local` tasks, one is left behind by the LocalSet tick. -/
theorem local_budget_witness :
    ((turn1 tokioParams (spawnAll 62) (readyTasks .loc 62)).lq.map (·.idx)) = [61] := by
  decide +kernel

/-- F4d (one pass): a local task woken by a runtime task is polled only at the module's next event:
woken at instant 2, observed at instant 9. -/
theorem cross_wake_witness :
    ((runSim tokioParams true 9 [{ time := 1, prog := [.spawn 0] }, { time := 2, prog := [.spawn 1] }, { time := 9, prog := [] }] [] none
        crossState).log.map
      fun x => (x.idx, x.time, x.ready)) = [(0, 9, 2), (1, 2, 2), (0, 1, 1)] := by
  decide +kernel

/-- F4c (one pass): a task that calls `yield_now` continues only at the module's next event. -/
theorem yield_witness :
    ((runSim tokioParams true 9 [{ time := 1, prog := [.spawn 0] }, { time := 9, prog := [] }] [] none
        { tasks := [{ kind := .rt, prog := [.yield] }] }).log.map
      fun x => (x.idx, x.time, x.ready)) = [(0, 9, 1), (0, 1, 1)] := by
  decide +kernel

/-- Cross-module wake (code under test): task 0 of this module awaits condition 0; another module's event at
instant 2 wakes it; it observes instant 5, the module's next own event.  Outside the scope of C06 as worded
(origin `.foreign`), reported for information. -/
theorem cross_module_witness :
    ((runSim tokioParams false 9 [{ time := 1, prog := [.spawn 0] }, { time := 2, prog := [.wake 0], foreign := true },
        { time := 5 }] [] none { tasks := [{ kind := .rt, prog := [.wait 0] }], conds := [{ coop := true }] }).log.map
      fun x => (x.idx, x.time, x.ready, x.origin)) = [(0, 5, 2, .foreign), (0, 1, 1, .handler)] := by
  decide +kernel

/-! ### non-vacuity -/

-- three tasks wait on one Notify; `notify_waiters` releases them all, oldest first, within the instant
example : ((runSim tokioParams false 9 [{ time := 1, prog := [.spawn 0, .spawn 1, .spawn 2] },
      { time := 4, prog := [.notifyAll 0] }] [] none waitersState).log.map fun x => (x.idx, x.time, x.ready))
    = [(2, 4, 4), (0, 4, 4), (1, 4, 4), (2, 1, 1), (0, 1, 1), (1, 1, 1)] := by decide +kernel

-- two wakes for three waiting tasks: the two longest-waiting ones (1, the local task polled first, then 0) get them
example : ((runSim tokioParams false 9 [{ time := 1, prog := [.spawn 0, .spawn 1, .spawn 2] },
      { time := 4, prog := [.wake 0, .wake 0] }] [] none waitersState).log.map fun x => (x.idx, x.time, x.ready))
    = [(0, 4, 4), (1, 4, 4), (2, 1, 1), (0, 1, 1), (1, 1, 1)] := by decide +kernel


-- the repaired code on the witnesses' inputs: everything runs in its instant
example : ((runSim tokioParams false 9 [{ time := 1, prog := [.spawn 0] }, { time := 2, prog := [.spawn 1] }, { time := 9, prog := [] }] [] none
    crossState).log.map fun x => (x.idx, x.time, x.ready)) = [(0, 2, 2), (1, 2, 2), (0, 1, 1)] := by
  decide +kernel

example : ((runSim tokioParams false 9 [{ time := 1, prog := [.spawn 0] }, { time := 9, prog := [] }] [] none
    { tasks := [{ kind := .rt, prog := [.yield] }] }).log.map
    fun x => (x.idx, x.time, x.ready)) = [(0, 1, 1), (0, 1, 1)] := by decide +kernel

example : (exec tokioParams (spawnAll 62) (readyTasks .loc 62)).lq = [] ∧
    (exec tokioParams (spawnAll 62) (readyTasks .loc 62)).log.length = 62 := by decide +kernel

-- 62 sleepers with one deadline, E = 61, repaired drain loop: all observe the deadline
example : ((runSim { L := 61, E := 61, C := 128 } false 9 [{ time := 1, prog := spawnAll 62 }] [] none
    (sleepers .rt 62 5)).log.filter fun x => x.time == 5).length = 62 := by decide +kernel

-- timers, a wake from a timer-woken runtime task to a local task, a relative sleep: wake-up events at 5 and 7
example : ((runSim tokioParams false 9 [{ time := 1, prog := [.spawn 1, .spawn 0] }] [] none timerChain).log.map
    fun x => (x.idx, x.time, x.ready)) = [(1, 7, 7), (1, 5, 5), (0, 5, 5), (0, 1, 1), (1, 1, 1)] := by
  decide +kernel

-- a message consumed by a processing element wakes a runtime task through the inject queue
example : ((runSim tokioParams false 9 [{ time := 1, prog := [.spawn 2, .spawn 1] }, { time := 3, consumed := true, prog := [.wake 0] }] [] none
    chainState).log.map fun x => (x.idx, x.time)) = [(2, 3), (1, 3), (1, 1), (2, 1)] := by decide +kernel

-- `timeout(d, notified())`: one notification arrives at the deadline's instant - the longest-waiting task (the
-- local one, polled first) gets it, the other one elapses; both observe the deadline 501; neither is polled twice
example : ((runSim tokioParams false 9 [{ time := 1, prog := [.spawn 0, .spawn 1] },
      { time := 501, prog := [.wake 0] }] [] none timeoutState).log.map fun x => (x.idx, x.time, x.ready))
    = [(0, 501, 501), (1, 501, 501), (0, 1, 1), (1, 1, 1)] := by decide +kernel

-- the notification comes first: the Sleep is dropped, its timer leaves the queue
example : (runSim tokioParams false 9 [{ time := 1, prog := [.spawn 0] }, { time := 7, prog := [.wake 0] }] [] none
    timeoutState).timers = [] := by decide +kernel

example : 1 ≤ tokioParams.L ∧ 1 ≤ tokioParams.E ∧ 1 ≤ tokioParams.C := by decide

-- a run with timers, a runtime → local wake and a relative sleep is a `GoodRun` / has no silent poll
example : GoodRun tokioParams 9 [{ time := 1, prog := [.spawn 1, .spawn 0] }] [] none timerChain := by
  decide +kernel

example : NoSilent tokioParams 9 [{ time := 1, prog := [.spawn 1, .spawn 0] }] [] none timerChain ∧
    Sorted [({ time := 1, prog := [.spawn 1, .spawn 0] } : Ev)] := by
  decide +kernel

-- a run with a cross-module wake and several waiters is a `GoodRun`
example : GoodRun tokioParams 9 [{ time := 1, prog := [.spawn 0, .spawn 1, .spawn 2] },
    { time := 3, prog := [.wake 0], foreign := true }, { time := 4, prog := [.notifyAll 0] }] [] none waitersState := by
  decide +kernel

example : Quiet timerChain ∧ OnTime timerChain ∧ timerChain.timers = [] :=
  ⟨by decide, fun x hx => by simp [timerChain] at hx, rfl⟩

example : Need tokioParams .loc
    (tickStart (afterHandler [.spawn 2, .spawn 1, .spawn 0] { chainState with lflag := false })) 0 :=
  ⟨by decide +kernel, fun m hm => by omega⟩

example : Need tokioParams .rt
    (rtStart tokioParams (afterHandler [.spawn 2, .spawn 1, .spawn 0] { chainState with lflag := false })) 5 := by
  unfold Need; decide +kernel

example : Quiet (turn1 tokioParams [.spawn 2, .spawn 1, .spawn 0] chainState) := by decide +kernel

example : measure (rtStart tokioParams (afterHandler [.spawn 2, .spawn 1, .spawn 0] chainState)) ≤ tokioParams.E := by
  decide +kernel

end C06

/-
C06 — all runnable async work finishes within the simulated instant that enabled it.

Statements about the model of `Harness::exec` (Model/Exec.lean):
  `pass`  = LocalSet tick (budget L) ; runtime loop (budget E) ; deferred wakers re-queued
  `turn1` = callback ; one pass                      (the code before the repairs: exactly one pass per event)
  `exec`  = callback ; pass ; passes until idle      (the repaired code)
`Exec.Need P q s n` = queue `q` needs exactly `n` polls from state `s` until it is empty (Proofs/ExecQueue.lean).

For ONE pass the property is false in four ways, characterised exactly by `pass_drains_iff`; the `*_witness`
theorems exhibit a failing run per mechanism (F4, F4b, F4c, F4d).  The repaired `exec` always ends with nothing
runnable (`exec_drains`), hence `no_await_observes_later_time` holds for every script and every event sequence.
-/
import Desverif.Proofs.ExecMeasure
import Desverif.Proofs.ExecTime
import Desverif.Proofs.ExecPotential
import Desverif.Proofs.ExecExamples
namespace C06
open Exec

/-- Nothing is runnable after one pass IFF the LocalSet queue needs at most `L` polls, the runtime queue at most
`E` polls, no local task became runnable during the runtime loop, and no waker was deferred. -/
theorem pass_drains_iff (P : Params) (s : St) (nL nE : Nat)
    (hL : Need P .loc (tickStart s) nL) (hE : Need P .rt (rtStart P s) nE) :
    Quiet (pass P s) ↔
      nL ≤ P.L ∧ nE ≤ P.E ∧ (afterRt P s).lq = [] ∧ (afterRt P s).dq = [] := by
  unfold pass
  rw [quiet_flush_iff]
  have hrt : (afterRt P s).rq = [] ↔ nE ≤ P.E := need_iff P .rt (rtStart P s) nE P.E hE
  have hlt : (afterTick P s).lq = [] ↔ nL ≤ P.L := need_iff P .loc (tickStart s) nL P.L hL
  have hmono : (afterTick P s).lq.length ≤ (afterRt P s).lq.length :=
    (runQ_rt_inv P P.E (rtStart P s)).2.2
  unfold Quiet
  constructor
  · rintro ⟨h1, h2, h3⟩
    refine ⟨hlt.1 ?_, hrt.1 h1, h2, h3⟩
    rw [h2] at hmono
    exact List.eq_nil_of_length_eq_zero (by simpa using hmono)
  · rintro ⟨_, h2, h3, h4⟩
    exact ⟨hrt.2 h2, h3, h4⟩

/-- The code before the repairs ran exactly one pass per event: its run queues are empty at return iff the polls
needed fit the budgets and neither budget-independent mechanism struck. -/
theorem exec_drains_iff (P : Params) (h : List Instr) (s : St) (nL nE : Nat)
    (hL : Need P .loc (tickStart (afterHandler h s)) nL) (hE : Need P .rt (rtStart P (afterHandler h s)) nE) :
    Quiet (turn1 P h s) ↔
      nL ≤ P.L ∧ nE ≤ P.E ∧ (afterRt P (afterHandler h s)).lq = [] ∧ (afterRt P (afterHandler h s)).dq = [] :=
  pass_drains_iff P (afterHandler h s) nL nE hL hE

/-- The hypotheses of `pass_drains_iff` can always be met: every wake chain of the model terminates, a queue needs
at most `measure s` polls. -/
theorem chains_terminate (P : Params) (q : Kind) (s : St) : ∃ n, n ≤ measure s ∧ Need P q s n := by
  have h := measure_drains P q (measure s) s (Nat.le_refl _)
  exact ⟨polls P q (measure s) s, by
    clear h
    generalize measure s = b
    induction b generalizing s with
    | zero => simp [polls]
    | succ b ih =>
      cases hq : queue q s with
      | nil => simp [polls, hq]
      | cons e r => rw [polls_cons P q b s e r hq]; have := ih (step P q s); omega,
    need_polls P q (measure s) s h⟩

/-- With unbounded budgets (at least `measure`) every terminating wake chain inside a queue is fully run by the
pass: the LocalSet tick empties the LocalSet queue, the runtime loop empties the runtime queue. -/
theorem pass_drains_unbounded (P : Params) (s : St) :
    (measure (tickStart s) ≤ P.L → (afterTick P s).lq = []) ∧
    (measure (rtStart P s) ≤ P.E → (afterRt P s).rq = []) :=
  ⟨measure_drains P .loc P.L (tickStart s), measure_drains P .rt P.E (rtStart P s)⟩

/-- ... but even with `event_interval` unbounded one pass leaves work behind: local tasks still queued after the
runtime loop (tick budget exceeded, or woken by a runtime task) and deferred wakers. -/
theorem pass_drains_partial (P : Params) (s : St) (hE : measure (rtStart P s) ≤ P.E) :
    Quiet (pass P s) ↔ (afterRt P s).lq = [] ∧ (afterRt P s).dq = [] := by
  unfold pass
  rw [quiet_flush_iff]
  unfold Quiet
  exact ⟨fun ⟨_, h2, h3⟩ => ⟨h2, h3⟩, fun ⟨h2, h3⟩ => ⟨(pass_drains_unbounded P s).2 hE, h2, h3⟩⟩

/-- The repaired `exec`: whatever the script, every task that is or becomes runnable during the event is polled
until all tasks are blocked again — for ANY budgets of at least one poll. -/
theorem exec_drains (P : Params) (hL : 1 ≤ P.L) (hE : 1 ≤ P.E) (hC : 1 ≤ P.C) (h : List Instr) (s : St) :
    Quiet (exec P h s) := by
  unfold exec
  exact drain_quiet P hL hE hC _ _ (Nat.le_refl _) (pass_dq P _)

/-- An `exec` that starts with nothing runnable never makes a late observation: whatever it polls became runnable
in this very instant.  Lateness can only come from work an earlier `exec` left behind. -/
theorem exec_from_quiet_on_time (P : Params) (t : Nat) (h : List Instr) (s : St)
    (hq : Quiet s) (ho : OnTime s) : OnTime (deliver P t h s) :=
  deliver_onTime P t h s hq ho

/-- No task ever observes a simulated time later than the instant at which its awaited condition became true,
for every script and every sequence of events (repaired `exec`). -/
theorem no_await_observes_later_time (P : Params) (hL : 1 ≤ P.L) (hE : 1 ≤ P.E) (hC : 1 ≤ P.C)
    (evs : List (Nat × List Instr)) (s : St) (hq : Quiet s) (ho : OnTime s) :
    OnTime (runEvents P evs s) ∧ Quiet (runEvents P evs s) := by
  induction evs generalizing s with
  | nil => exact ⟨ho, hq⟩
  | cons ev r ih =>
    obtain ⟨t, h⟩ := ev
    simp only [runEvents]
    exact ih _ (exec_drains P hL hE hC h _) (deliver_onTime P t h s hq ho)

/-- The single-pass code: late observations are excluded only as long as every event happens to end with nothing
runnable. -/
theorem single_pass_no_late_if_quiet (P : Params) (evs : List (Nat × List Instr)) (s : St)
    (hq : Quiet s) (ho : OnTime s) (ha : AllQuiet1 P evs s) : OnTime (runEvents1 P evs s) :=
  runEvents1_onTime P evs s hq ho ha

/-! ### witnesses: one pass per event leaves work behind -/

/-- F4 (tokio's default `event_interval` = 61, one pass): 62 ready `tokio::spawn` tasks, one is left behind. -/
theorem budget_witness :
    ((turn1 { L := 61, E := 61, C := 128 } (spawnAll 62) (readyTasks .rt 62)).rq.map (·.idx)) = [61] := by
  decide +kernel

/-- F4b (one pass): 62 ready `spawn_local` tasks, one is left behind by the LocalSet tick. -/
theorem local_budget_witness :
    ((turn1 tokioParams (spawnAll 62) (readyTasks .loc 62)).lq.map (·.idx)) = [61] := by
  decide +kernel

/-- F4d (one pass): a local task woken by a runtime task is polled only at the module's next event:
woken at instant 2, observed at instant 9. -/
theorem cross_wake_witness :
    ((runEvents1 tokioParams [(1, [.spawn 0]), (2, [.spawn 1]), (9, [])] crossState).log.map
      fun x => (x.idx, x.time, x.ready)) = [(0, 9, 2), (1, 2, 2), (0, 1, 1)] := by
  decide +kernel

/-- F4c (one pass): a task that calls `yield_now` continues only at the module's next event. -/
theorem yield_witness :
    ((runEvents1 tokioParams [(1, [.spawn 0]), (9, [])] { tasks := [{ kind := .rt, prog := [.yield] }] }).log.map
      fun x => (x.idx, x.time, x.ready)) = [(0, 9, 1), (0, 1, 1)] := by
  decide +kernel

/-! ### non-vacuity -/

-- the repaired exec on the witnesses' inputs: everything runs in its instant
example : ((runEvents tokioParams [(1, [.spawn 0]), (2, [.spawn 1]), (9, [])] crossState).log.map
    fun x => (x.idx, x.time, x.ready)) = [(0, 2, 2), (1, 2, 2), (0, 1, 1)] := by decide +kernel

example : ((runEvents tokioParams [(1, [.spawn 0]), (9, [])] { tasks := [{ kind := .rt, prog := [.yield] }] }).log.map
    fun x => (x.idx, x.time, x.ready)) = [(0, 1, 1), (0, 1, 1)] := by decide +kernel

example : (exec tokioParams (spawnAll 62) (readyTasks .loc 62)).lq = [] ∧
    (exec tokioParams (spawnAll 62) (readyTasks .loc 62)).log.length = 62 := by decide +kernel

example : 1 ≤ tokioParams.L ∧ 1 ≤ tokioParams.E ∧ 1 ≤ tokioParams.C := by decide

example : Need tokioParams .loc (tickStart (afterHandler [.spawn 2, .spawn 1, .spawn 0] chainState)) 0 :=
  ⟨by decide +kernel, fun m hm => by omega⟩

example : Need tokioParams .rt (rtStart tokioParams (afterHandler [.spawn 2, .spawn 1, .spawn 0] chainState)) 5 := by
  unfold Need; decide +kernel

example : Quiet (turn1 tokioParams [.spawn 2, .spawn 1, .spawn 0] chainState) := by decide +kernel

example : measure (rtStart tokioParams (afterHandler [.spawn 2, .spawn 1, .spawn 0] chainState)) ≤ tokioParams.E := by
  decide +kernel

example : AllQuiet1 tokioParams [(1, [.spawn 2, .spawn 1]), (5, [.spawn 0])] chainState ∧ Quiet chainState ∧
    OnTime chainState := by
  refine ⟨?_, by decide, fun x hx => by simp [chainState] at hx⟩
  unfold AllQuiet1 AllQuiet1 AllQuiet1
  decide +kernel

end C06

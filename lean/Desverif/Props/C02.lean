/-
C02 — Simulation clock is monotone and equals the timestamp of the running event.

`Rt` (Model/Rt.lean) is the model of `des::runtime::Runtime`; `Rt.cqES` runs it over the
calendar-queue model (what the code does), `Rt.fesES` over the abstract event set.
All statements hold for every handler table `prog`, every session `cmds` (external adds, steps,
runs), every start time, every builder limit, every bucket count n ≥ 1 and width t ≥ 1, every fuel.
-/
import Desverif.Proofs.RtStep
namespace C02
open Rt

/-- a session on the runtime as built by `Builder::…::cqueue_options(n,t).start_time(start)` -/
def session (n t start : Nat) (l : Limit) (prog : Prog) (fuel : Nat) (cmds : List Cmd) :=
  execCmds cqES prog fuel (build (CQ.init n t) start l) cmds

def specSession (start : Nat) (l : Limit) (prog : Prog) (fuel : Nat) (cmds : List Cmd) :=
  execCmds fesES prog fuel (build FES.init start l) cmds

/-- **The runtime over the calendar queue behaves exactly like the runtime over the abstract event
    set**: same observations (handler runs with their clock readings, accepted / rejected
    `add_event`s, paused status), related final states, same remaining events at `finish`. -/
theorem runtime_refines_spec (n t : Nat) (hn : 1 ≤ n) (ht : 1 ≤ t) (start : Nat) (l : Limit)
    (prog : Prog) (fuel : Nat) (cmds : List Cmd) :
    (session n t start l prog fuel cmds).2 = (specSession start l prog fuel cmds).2 ∧
    SRel CQ.R (session n t start l prog fuel cmds).1 (specSession start l prog fuel cmds).1 ∧
    ∀ f, drain cqES f (session n t start l prog fuel cmds).1.es =
      drain fesES f (specSession start l prog fuel cmds).1.es := by
  obtain ⟨h1, h2⟩ := execCmds_sim cq_fes_sim prog fuel cmds (build_srel n t hn ht start l)
  exact ⟨h1, h2, fun f => drain_sim cq_fes_sim f h2.es⟩

/-- everything a session guarantees, on the abstract runtime -/
theorem spec_session_run (start : Nat) (l : Limit) (prog : Prog) (fuel : Nat) (cmds : List Cmd) :
    Run (build FES.init start l) (allObs (specSession start l prog fuel cmds).2)
      (specSession start l prog fuel cmds).1 :=
  execCmds_run prog fuel cmds (build_inv start l)

/-- **Events are handled in non-decreasing timestamp order, never before the start time**, and
    `SimTime::now()` inside each handler is that timestamp (the `handled` observation carries the
    clock reading; it equals the event's timestamp by `each_event_exactly_once`). -/
theorem handled_times_monotone (n t : Nat) (hn : 1 ≤ n) (ht : 1 ≤ t) (start : Nat) (l : Limit)
    (prog : Prog) (fuel : Nat) (cmds : List Cmd) :
    ((handledOf (allObs (session n t start l prog fuel cmds).2)).map (·.2)).Pairwise (· ≤ ·) ∧
    ∀ x ∈ (handledOf (allObs (session n t start l prog fuel cmds).2)).map (·.2), start ≤ x := by
  rw [(runtime_refines_spec n t hn ht start l prog fuel cmds).1]
  have r := spec_session_run start l prog fuel cmds
  exact ⟨r.mono, r.lo⟩

/-- **The clock never decreases and always shows the timestamp of the last dispatched event**
    (the start time before the first one). -/
theorem clock_is_last_dispatched (n t : Nat) (hn : 1 ≤ n) (ht : 1 ≤ t) (start : Nat) (l : Limit)
    (prog : Prog) (fuel : Nat) (cmds : List Cmd) :
    (session n t start l prog fuel cmds).1.now =
      lastTime (handledOf (allObs (session n t start l prog fuel cmds).2)) start ∧
    start ≤ (session n t start l prog fuel cmds).1.now := by
  obtain ⟨h1, h2, _⟩ := runtime_refines_spec n t hn ht start l prog fuel cmds
  rw [h1, h2.now]
  have r := spec_session_run start l prog fuel cmds
  exact ⟨r.last, r.nowLe⟩

/-- **Each successfully scheduled event is handled exactly once, with exactly the timestamp it
    was scheduled with, or is still pending** — as multisets of (event, timestamp); nothing is
    handled that was not scheduled, nothing twice, none with another clock reading. -/
theorem each_event_exactly_once (n t : Nat) (hn : 1 ≤ n) (ht : 1 ≤ t) (start : Nat) (l : Limit)
    (prog : Prog) (fuel : Nat) (cmds : List Cmd) :
    (schedOkOf (allObs (session n t start l prog fuel cmds).2)).Perm
      (handledOf (allObs (session n t start l prog fuel cmds).2) ++
        pendingVT (specSession start l prog fuel cmds).1.es) := by
  rw [(runtime_refines_spec n t hn ht start l prog fuel cmds).1]
  have r := spec_session_run start l prog fuel cmds
  simpa [pendingVT, build, FES.init] using r.perm

/-- `finish()` hands back every pending event exactly once, with its timestamp. -/
theorem finish_returns_pending (n t : Nat) (hn : 1 ≤ n) (ht : 1 ≤ t) (start : Nat) (l : Limit)
    (prog : Prog) (fuel : Nat) (cmds : List Cmd) (f : Nat)
    (hf : (session n t start l prog fuel cmds).1.es.len ≤ f) :
    (drain cqES f (session n t start l prog fuel cmds).1.es).Perm
      (pendingVT (specSession start l prog fuel cmds).1.es) := by
  obtain ⟨_, h2, h3⟩ := runtime_refines_spec n t hn ht start l prog fuel cmds
  rw [h3 f]
  have r := spec_session_run start l prog fuel cmds
  apply drain_perm f r.inv'
  have := cq_fes_sim.len _ _ h2.es
  simp only [cqES, fesES] at this
  omega

/-- **Scheduling at or after the current simulated time always succeeds; scheduling before it is
    always rejected and changes nothing** — in every reachable state, also with a non-zero start
    time and while paused. -/
theorem add_outcome (n t : Nat) (hn : 1 ≤ n) (ht : 1 ≤ t) (start : Nat) (l : Limit)
    (prog : Prog) (fuel : Nat) (cmds : List Cmd) (time node : Nat) :
    let s := (session n t start l prog fuel cmds).1
    (addEvent cqES s time node).2 = .sched node time (decide (s.now ≤ time)) ∧
    (time < s.now → (addEvent cqES s time node).1 = s) ∧
    (addEvent cqES s time node).1.now = s.now := by
  intro s
  obtain ⟨_, h2, _⟩ := runtime_refines_spec n t hn ht start l prog fuel cmds
  have r := spec_session_run start l prog fuel cmds
  obtain ⟨e1, e2⟩ := addEvent_sim cq_fes_sim h2 time node
  refine ⟨?_, ?_, ?_⟩
  · rw [e1]
    by_cases hlt : time < (specSession start l prog fuel cmds).1.now
    · rw [addEvent_past _ _ _ hlt]
      have : ¬ s.now ≤ time := by rw [h2.now]; omega
      simp [this]
    · obtain ⟨s', hs', _⟩ := addEvent_ok r.inv' time node (by omega)
      rw [hs']
      have : s.now ≤ time := by rw [h2.now]; omega
      simp [this]
  · intro hlt; simp [addEvent, hlt]
  · rw [e2.now]
    by_cases hlt : time < (specSession start l prog fuel cmds).1.now
    · rw [addEvent_past _ _ _ hlt]; exact h2.now.symm
    · obtain ⟨s', hs', _, hnow, _⟩ := addEvent_ok r.inv' time node (by omega)
      rw [hs', hnow]; exact h2.now.symm

/-! Non-vacuity: start time 10, an event scheduled in the past is rejected, ties, a handler that
probes the past. -/
def demoProg : Prog := [[⟨false, 0, 1⟩, ⟨true, 1, 1⟩, ⟨false, 5, 2⟩], [], []]
def demoCmds : List Cmd := [.add 5 0, .add 10 0, .add 10 1, .runAll]

example : allObs (session 4 3 10 .none demoProg 100 demoCmds).2 =
    [.sched 0 5 false, .sched 0 10 true, .sched 1 10 true,
     .handled 0 10, .sched 1 10 true, .sched 1 9 false, .sched 2 15 true,
     .handled 1 10, .handled 1 10, .handled 2 15] := by decide

end C02

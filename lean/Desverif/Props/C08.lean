/-
C08 — a message sent into a gate chain reaches the module at the far end.

Only property theorems live here.  `Gate` is the model of `des/src/net/gate.rs` and of the message
walk of `net/runtime/events.rs` / `ctx.rs` (Model/Gate.lean); `Paths` the abstract specification
"disjoint simple paths (+ closed rings)" (Spec/Paths.lean); `Gate.R n net sp` the representation
invariant (Proofs/GateInv.lean).  All statements quantify over every builder script (any number
of `connect` calls, any order, any orientation, with or without channels, including calls that
panic, repeat, or close a ring), every number of gates `n`, chains of every length.
-/
import Desverif.Proofs.GateWalk
import Desverif.Proofs.ChainSrvLemmas
namespace C08
open Gate

/-- a builder script over `n` gates names existing gates only -/
def Valid (n : Nat) (ops : List (Nat × Nat × Option Nat)) : Prop := ∀ op ∈ ops, op.1 < n ∧ op.2.1 < n

/-- **Refinement.** Whatever `connect` calls are issued, in whatever order and orientation, the gate
    slots always represent a set of disjoint simple paths and closed rings that arises from `n`
    single gates by linking path ends. -/
theorem connects_refine_paths (n : Nat) (ops : List (Nat × Nat × Option Nat)) (hv : Valid n ops) :
    ∃ sp, Paths.Reach n sp ∧ R n (connectAll Net.empty ops) sp :=
  connectAll_R n ops Net.empty (Paths.init n) hv Paths.Reach.init (init_R n)

/-- one more `connect` on any state satisfying the invariant: nothing changes, or two path ends
    are linked exactly as the specification says (joined, or closed into a ring) -/
theorem connect_step (n : Nat) (net net' : Net) (sp : Paths.State) (a b : Nat) (ch : Option Nat)
    (hR : R n net sp) (ha : a < n) (hb : b < n) (h : connect net a b ch = .ok net') :
    net' = net ∨ ∃ sp', Paths.link sp a b = some sp' ∧ R n net' sp' :=
  connect_R n net net' sp a b ch hR ha hb h

/-- a gate never has more than two peers (and `kind` is total over 0, 1, 2) -/
theorem degree_le_two (net : Net) (g : Nat) : (net g).len ≤ 2 := by
  simp only [Slots.len]; split <;> split <;> omega

/-- a `connect` that returns stores the link on both gates -/
theorem connect_symmetric (ops : List (Nat × Nat × Option Nat)) (a b : Nat) (ch : Option Nat) (net' : Net)
    (h : connect (connectAll Net.empty ops) a b ch = .ok net') :
    (net' a).hasPeer b = true ∧ (net' b).hasPeer a = true := by
  have hw := connectAll_WF ops Net.empty wf_empty
  have hw' := connect_WF _ _ a b ch hw h
  have hab : (net' a).hasPeer b = true := by
    rcases connect_cases _ _ a b ch h with rfl | ⟨hab, _, _, _, sa, sb, e1, _, rfl⟩
    · unfold connect at h
      split at h
      · cases h
      · split at h
        · assumption
        · rename_i hne hp
          simp only at h
          split at h
          · split at h
            · rename_i sa sb e1 e2
              have h' := Except.ok.inj h
              have : (connectAll Net.empty ops a).hasPeer b = true := by
                have hp' := put_hasPeer _ _ _ e1
                have : ((connectAll Net.empty ops).set a sa).set b sb a = sa := by simp [Net.set, hne]
                rw [← h', this]; exact hp'
              exact this
            · cases h
          · cases h
    · have : ((connectAll Net.empty ops).set a sa).set b sb a = sa := by simp [Net.set, hab]
      rw [this]; exact put_hasPeer _ _ _ e1
  exact ⟨hab, hasPeer_symm net' hw' a b hab⟩

/-- "is connected to" is symmetric in every reachable state -/
theorem peers_symmetric (ops : List (Nat × Nat × Option Nat)) (a b : Nat) :
    ((connectAll Net.empty ops) a).hasPeer b = ((connectAll Net.empty ops) b).hasPeer a := by
  have hw := connectAll_WF ops Net.empty wf_empty
  cases h1 : ((connectAll Net.empty ops) a).hasPeer b <;> cases h2 : ((connectAll Net.empty ops) b).hasPeer a
  · rfl
  · rw [hasPeer_symm _ hw b a h2] at h1; cases h1
  · rw [hasPeer_symm _ hw a b h1] at h2; cases h2
  · rfl

/-- connecting is idempotent: repeating a `connect` (either orientation, any channel argument)
    returns without changing any gate -/
theorem connect_idempotent (ops : List (Nat × Nat × Option Nat)) (a b : Nat) (ch ch' : Option Nat) (net' : Net)
    (h : connect (connectAll Net.empty ops) a b ch = .ok net') :
    connect net' a b ch' = .ok net' ∧ connect net' b a ch' = .ok net' := by
  obtain ⟨h1, h2⟩ := connect_symmetric ops a b ch net' h
  have hab : a ≠ b := by
    intro e; subst e; simp [connect] at h
  constructor
  · simp [connect, hab, h1]
  · simp [connect, Ne.symm hab, h2]

/-- **walk = path.** `path_iter` on a gate that is not a transit gate enumerates exactly the rest of
    the gate's abstract path; on a transit gate (inner gate or ring) there is no iterator and the
    specification has no walk either. -/
theorem walk_enumerates_path (n : Nat) (net : Net) (sp : Paths.State) (hR : R n net sp) (g : Nat)
    (hg : g < n) :
    (pathIter net n g).map (·.map (·.peer)) = Paths.walkFrom sp g := by
  unfold pathIter
  by_cases hk : kind net g = .transit
  · have hl : ¬ (net g).len < 2 := fun h => (kind_ne_transit net g).mpr h hk
    simp [hk, transit_no_walk n net sp hR g hl]
  · have hl := (kind_ne_transit net g).mp hk
    obtain ⟨p, _, h2, ok, hpo, hst, hlen, _⟩ := endpoint_chain n net sp hR g hg hl
    have hw := walk_seg net h2 g true _ n ok.2.1 ok.2.2 hlen
    simp [hk, hw, Paths.walkFrom, hpo, hst, gatesOf]

/-- **mirror image.** From a non-transit gate `g` the walk ends on a gate `e` that is again not a
    transit gate, and the walk from `e` is the exact mirror image: same gates in reverse order
    (ending on `g`), same channels in reverse order, same total delay. -/
theorem walk_mirror (n : Nat) (net : Net) (sp : Paths.State) (hR : R n net sp) (g : Nat)
    (hg : g < n) (hk : kind net g ≠ .transit) :
    let hops := walk net n g true
    let e := lastGate g hops
    kind net e ≠ .transit ∧
    walk net n e true = mirror g true hops [] ∧
    gatesOf e (walk net n e true) = (gatesOf g hops).reverse ∧
    (walk net n e true).map (·.chan) = (hops.map (·.chan)).reverse ∧
    lastGate e (walk net n e true) = g ∧
    delaySum (walk net n e true) = delaySum hops := by
  have hl := (kind_ne_transit net g).mp hk
  obtain ⟨p, _, h2, ok, _, _, hlen, _⟩ := endpoint_chain n net sp hR g hg hl
  have hw := walk_seg net h2 g true _ n ok.2.1 ok.2.2 hlen
  simp only [hw]
  obtain ⟨okm, hlast, hgates⟩ := pathOK_mirror net g h2 ok
  have hlen' : (mirror g true h2 []).length < n := by rw [mirror_length]; simpa using hlen
  have hwm := walk_seg net _ _ true _ n okm.2.1 okm.2.2 hlen'
  have hle : (net (lastGate g h2)).len < 2 := by
    have := (pathOK_last_slots net g h2 ok).1
    simp [Slots.len, this]; split <;> omega
  refine ⟨(kind_ne_transit net _).mpr hle, hwm, ?_, ?_, ?_, ?_⟩
  · rw [hwm]; exact hgates
  · rw [hwm]; simpa using mirror_chans h2 g true []
  · rw [hwm]; exact hlast
  · rw [hwm]; exact delaySum_mirror h2 g true

/-- **delivery.** A message sent (at `sendTime`, immediately or delayed) on a non-transit gate `g`
    while every module is active produces exactly one `HandleMessageEvent`: for the owner of the far
    end `e` of `g`'s chain, at `sendTime` + the sum of the per-hop channel delays, with header
    `last_gate = e`, and the receiving module sees it. -/
theorem delivered_once_to_far_owner (n : Nat) (net : Net) (sp : Paths.State) (hR : R n net sp)
    (owner : Nat → Nat) (active : Nat → Nat → Bool) (hact : ∀ m t, active m t = true) (sender : Nat) (g : Nat) (hg : g < n)
    (hk : kind net g ≠ .transit) (sendTime : Nat) :
    let hops := walk net n g true
    let e := lastGate g hops
    send net owner active sender (n + 1) g sendTime =
      .handled (owner e) (sendTime + delaySum hops) (some e) true sender := by
  have hl := (kind_ne_transit net g).mp hk
  obtain ⟨p, _, h2, ok, _, _, hlen, _⟩ := endpoint_chain n net sp hR g hg hl
  have hw := walk_seg net h2 g true _ n ok.2.1 ok.2.2 hlen
  simp only [hw]
  have hf := forward_seg net owner active sender h2 g true _ (n + 1) sendTime (some g) ok.2.1 ok.2.2
    (by omega) (fun x _ t' => hact (owner x) t')
  have hle : (net g).len ≤ 1 := by omega
  simp only [send, hle, if_true, hf, hact]
  cases h2 with
  | nil => simp [lastGate]
  | cons k r => simp

/-- the arrival time is the send time plus the sum of the hop delays, and it is the same in both
    directions of a chain -/
theorem arrival_time_eq_send_plus_sum_of_hop_delays (n : Nat) (net : Net) (sp : Paths.State)
    (hR : R n net sp) (owner : Nat → Nat) (active : Nat → Nat → Bool) (hact : ∀ m t, active m t = true) (sender : Nat)
    (g : Nat) (hg : g < n) (hk : kind net g ≠ .transit) (t t' : Nat) :
    let hops := walk net n g true
    let e := lastGate g hops
    send net owner active sender (n + 1) g t = .handled (owner e) (t + delaySum hops) (some e) true sender ∧
    send net owner active sender (n + 1) e t' = .handled (owner g) (t' + delaySum hops) (some g) true sender := by
  intro hops e
  obtain ⟨hke, _, _, _, hlast, hds⟩ := walk_mirror n net sp hR g hg hk
  have hl := (kind_ne_transit net g).mp hk
  obtain ⟨p, _, h2, ok, _, _, hlen, hlt⟩ := endpoint_chain n net sp hR g hg hl
  have hen : e < n := by
    apply hlt
    have hw := walk_seg net h2 g true _ n ok.2.1 ok.2.2 hlen
    show lastGate g (walk net n g true) ∈ _
    rw [hw]; exact lastGate_mem g h2
  refine ⟨delivered_once_to_far_owner n net sp hR owner active hact sender g hg hk t, ?_⟩
  have := delivered_once_to_far_owner n net sp hR owner active hact sender e hen hke t'
  simp only at this
  rw [this]
  show Fate.handled (owner (lastGate e (walk net n e true))) (t' + delaySum (walk net n e true))
    (some (lastGate e (walk net n e true))) true sender = _
  rw [hlast, hds]

/-- header fields on delivery: `receiver_module_id` is stamped by the `HandleMessageEvent` of the
    module that owns the far-end gate and `last_gate` is that gate — for every chain length; on a
    standalone gate the message stays in the sending module with `last_gate = g` -/
theorem header_fields (n : Nat) (net : Net) (sp : Paths.State) (hR : R n net sp)
    (owner : Nat → Nat) (active : Nat → Nat → Bool) (hact : ∀ m t, active m t = true) (sender : Nat) (g : Nat) (hg : g < n)
    (hk : kind net g ≠ .transit) (t : Nat) :
    ∃ time, send net owner active sender (n + 1) g t =
        .handled (owner ((Gate.pathEnd net n g).getD g)) time (some ((Gate.pathEnd net n g).getD g)) true sender := by
  have h := delivered_once_to_far_owner n net sp hR owner active hact sender g hg hk t
  simp only at h
  refine ⟨t + delaySum (walk net n g true), ?_⟩
  rw [h]
  have : (Gate.pathEnd net n g).getD g = lastGate g (walk net n g true) := by
    simp only [Gate.pathEnd, pathIter, hk, if_false, Option.bind]
    cases hh : walk net n g true with
    | nil => rfl
    | cons k r =>
      have := getLast?_peer (k :: r) g (by simp)
      simp only [Option.map] at this ⊢
      cases hl : (k :: r).getLast? with
      | none => rw [hl] at this; cases this
      | some c => rw [hl] at this; simp at this ⊢; exact this
  rw [this]

/-- a module that is shut down swallows messages passing through its gates: if the owner of any
    gate before the last one is inactive the message is dropped there, never delivered -/
theorem inactive_owner_drops (n : Nat) (net : Net) (sp : Paths.State) (hR : R n net sp)
    (owner : Nat → Nat) (active : Nat → Nat → Bool) (sender : Nat) (g : Nat) (hg : g < n)
    (hk : kind net g ≠ .transit) (t : Nat)
    (hex : ∃ x ∈ (gatesOf g (walk net n g true)).dropLast, ∀ t', active (owner x) t' = false) :
    ∃ x t', send net owner active sender (n + 1) g t = .dropped x t' := by
  have hl := (kind_ne_transit net g).mp hk
  obtain ⟨p, _, h2, ok, _, _, hlen, _⟩ := endpoint_chain n net sp hR g hg hl
  have hw := walk_seg net h2 g true _ n ok.2.1 ok.2.2 hlen
  rw [hw] at hex
  have hle : (net g).len ≤ 1 := by omega
  obtain ⟨x, t', hx⟩ := forward_seg_dropped net owner active sender h2 g true _ (n + 1) t (some g) ok.2.1
    (by omega) hex
  exact ⟨x, t', by simp only [send, hle, if_true, hx]⟩

/-- **delayed sends use the wiring at send time.** A `send_in` / `send_at` issued at time `issue` on a
    gate that is not a transit gate *then*, and whose send time lies at or after the last `connect`
    (the wiring is `net` from `sendTime` on), behaves exactly like a send on `net` at `sendTime`:
    with all modules active it is handed once to the owner of the far end of the chain as wired at
    the send time — also when the gate was still unconnected when the call was made. -/
theorem delayed_send_uses_wiring_at_send_time (n : Nat) (netAt : Nat → Net) (net : Net) (sp : Paths.State)
    (hR : R n net sp) (owner : Nat → Nat) (active : Nat → Nat → Bool) (hact : ∀ m t, active m t = true)
    (sender g : Nat) (hg : g < n) (issue sendTime : Nat)
    (hissue : (netAt issue g).len ≤ 1) (hstable : ∀ t', sendTime ≤ t' → netAt t' = net)
    (hk : kind net g ≠ .transit) :
    sendIssued netAt owner active sender (n + 1) g issue sendTime =
      send net owner active sender (n + 1) g sendTime ∧
    sendIssued netAt owner active sender (n + 1) g issue sendTime =
      .handled (owner (lastGate g (walk net n g true))) (sendTime + delaySum (walk net n g true))
        (some (lastGate g (walk net n g true))) true sender := by
  have hl := (kind_ne_transit net g).mp hk
  have hle : (net g).len ≤ 1 := by omega
  have h1 : sendIssued netAt owner active sender (n + 1) g issue sendTime =
      send net owner active sender (n + 1) g sendTime := by
    simp only [sendIssued, send, hissue, hle, if_true]
    exact forwardT_stable netAt net owner active sender _ _ _ _ _ hstable
  exact ⟨h1, h1.trans (delivered_once_to_far_owner n net sp hR owner active hact sender g hg hk sendTime)⟩

/-- **header fields are re-stamped on every leg.** Whatever a message's header held before — a fresh
    message, one built with explicit sender / receiver ids, or one that was received earlier and is
    sent on — the outcome of sending it does not depend on the old header: the delivered header has
    `sender_module_id` = the module that sent this leg, `receiver_module_id` = the module the message
    is handed to and `last_gate` as walked on this leg. -/
theorem header_restamped_per_leg (netAt : Nat → Net) (owner : Nat → Nat) (active : Nat → Nat → Bool)
    (sendingModule fuel g issue sendTime : Nat) (h h' : Hdr) :
    sendH netAt owner active sendingModule fuel g issue sendTime h =
      sendH netAt owner active sendingModule fuel g issue sendTime h' ∧
    sendH netAt owner active sendingModule fuel g issue sendTime h =
      (sendIssued netAt owner active sendingModule fuel g issue sendTime).toDelivery := by
  rw [sendH_eq, sendH_eq]; exact ⟨rfl, rfl⟩

/-- … in particular, with all modules active and the wiring settled at the send time, a message with
    arbitrary prior header contents arrives once at the owner of the far end `e` of this leg's chain
    with header (sender = the sending module, receiver = owner of `e`, last_gate = `e`) -/
theorem header_fields_any_prior_header (n : Nat) (netAt : Nat → Net) (net : Net) (sp : Paths.State)
    (hR : R n net sp) (owner : Nat → Nat) (active : Nat → Nat → Bool) (hact : ∀ m t, active m t = true)
    (sendingModule g : Nat) (hg : g < n) (issue sendTime : Nat)
    (hissue : (netAt issue g).len ≤ 1) (hstable : ∀ t', sendTime ≤ t' → netAt t' = net)
    (hk : kind net g ≠ .transit) (h : Hdr) :
    let e := lastGate g (walk net n g true)
    sendH netAt owner active sendingModule (n + 1) g issue sendTime h =
      .handled (owner e) (sendTime + delaySum (walk net n g true)) ⟨sendingModule, owner e, some e⟩ true := by
  intro e
  rw [sendH_eq, (delayed_send_uses_wiring_at_send_time n netAt net sp hR owner active hact sendingModule g hg
    issue sendTime hissue hstable hk).2]
  rfl

/-- **addressing by (name, pos) finds exactly that member.** If a module's gates carry distinct
    (name, pos) pairs, `gate(name, pos)` returns the member with that name and position for every
    registration order of the gates (cluster members created one by one in any order, other gates in
    between) — so a send on `(name, pos)` enters the chain of exactly that member. -/
theorem gate_lookup_finds_member (gs : List GateDecl) (d : GateDecl) (hd : d ∈ gs)
    (huniq : ∀ d' ∈ gs, d'.name = d.name → d'.pos = d.pos → d' = d) :
    lookupGate gs d.name d.pos = some d.id ∧
    ∀ gs', gs'.Perm gs → lookupGate gs' d.name d.pos = some d.id := by
  have key : ∀ l : List GateDecl, d ∈ l → (∀ d' ∈ l, d'.name = d.name → d'.pos = d.pos → d' = d) →
      lookupGate l d.name d.pos = some d.id := by
    intro l hl hu
    unfold lookupGate
    cases hf : l.find? (fun x => x.name == d.name && x.pos == d.pos) with
    | none =>
      have := List.find?_eq_none.mp hf d hl
      simp at this
    | some x =>
      have hp := List.find?_some hf
      have hx := List.mem_of_find?_eq_some hf
      simp only [Bool.and_eq_true, beq_iff_eq] at hp
      rw [hu x hx hp.1 hp.2]; rfl
  refine ⟨key gs hd huniq, fun gs' hp => key gs' (hp.mem_iff.mpr hd) (fun d' hd' => huniq d' (hp.mem_iff.mp hd'))⟩

/-- **bursts: nothing is lost or duplicated on unbounded queues, and a single message needs the idle
    delay.** A burst passing a chain of first-in first-out channel hops yields one outcome per
    message, in order; with unbounded queues every message gets through; a single message arrives
    after exactly the sum of (transmission time + latency) of the hops — the delay the walk theorems
    use. -/
theorem burst_exactly_once_and_idle_delay (hs : List ChainSrv.Hop) (ms : List (Option Nat)) :
    (ChainSrv.serveChain hs ms).length = ms.length ∧
    (∀ a, ChainSrv.serveChain hs [some a] = [some (a + ChainSrv.idleDelay hs)]) ∧
    (∀ h : ChainSrv.Hop, h.cap = none → (∀ m ∈ ms, m ≠ none) → ∀ m ∈ ChainSrv.serveHop h 0 [] ms, m ≠ none) :=
  ⟨ChainSrv.serveChain_length hs ms, ChainSrv.serveChain_single hs,
    fun h hc hall => ChainSrv.serveHop_unbounded_all h hc ms 0 [] hall⟩

/-- **bursts: transmissions start back to back.** `n` messages offered together at time `a` to an
    idle hop with an unbounded queue and transmission time `tx > 0`: the `k`-th transmission starts
    when the channel becomes idle, at `a + k·tx`, and the message leaves the hop at
    `a + (k+1)·tx + latency`. -/
theorem burst_start_times (h : ChainSrv.Hop) (hc : h.cap = none) (ht : h.tx ≠ 0) (a n : Nat) :
    ChainSrv.serveHop h 0 [] (List.replicate n (some a)) =
      (List.range n).map fun k => some (a + (k + 1) * h.tx + h.lat) := by
  cases n with
  | zero => rfl
  | succ n =>
    -- the first message finds the channel idle (`free = 0 ≤ a`), the others queue behind it
    rw [List.replicate_succ, List.range_succ_eq_map, List.map_cons, List.map_map]
    simp only [ChainSrv.serveHop, ht, if_false, Nat.zero_le, if_true]
    have := ChainSrv.serveHop_simultaneous h hc ht a n 1 ([] ++ [a]) (fun _ => trivial)
    simp only [Nat.one_mul] at this
    rw [this]
    simp only [Nat.zero_add, Nat.one_mul, List.cons.injEq, true_and]
    apply List.map_congr_left
    intro k _
    simp only [Function.comp, Nat.succ_eq_add_one]
    have : 1 + k + 1 = k + 1 + 1 := by omega
    rw [this]

/-- sending on a transit gate is refused (`Connection::new` asserts) -/
theorem send_on_transit_panics (net : Net) (owner : Nat → Nat) (active : Nat → Nat → Bool) (sender fuel g t : Nat)
    (hk : kind net g = .transit) : send net owner active sender fuel g t = .sendPanic := by
  have : ¬ (net g).len < 2 := fun h => (kind_ne_transit net g).mpr h hk
  have h2 : ¬ (net g).len ≤ 1 := by omega
  simp [send, h2]

/-! ### non-vacuity: a concrete 3-hop chain built out of order and with mixed orientation -/

/-- gates 0–1–2–3 (channels of 5 ns and 7 ns on the outer hops), connected as (2,1) (3,2) (0,1);
    plus a repeated, a self- and an over-full connect -/
def demoOps : List (Nat × Nat × Option Nat) :=
  [(2, 1, none), (3, 2, some 7), (1, 2, some 9), (0, 1, some 5), (4, 4, none), (4, 1, none)]

def demo : Net := connectAll Net.empty demoOps

example : Valid 5 demoOps := by unfold Valid; decide
example : kind demo 0 ≠ .transit ∧ kind demo 1 = .transit ∧ kind demo 4 = .standalone := by decide
example : (walk demo 5 0 true).map (·.peer) = [1, 2, 3] := by decide
example : (walk demo 5 3 true).map (·.peer) = [2, 1, 0] := by decide
example : send demo (fun g => g / 2) (fun _ _ => true) 0 6 0 100 = .handled 1 112 (some 3) true 0 := by decide
example : send demo (fun g => g / 2) (fun _ _ => true) 1 6 3 0 = .handled 0 12 (some 0) true 1 := by decide
example : ∃ x ∈ (gatesOf 0 (walk demo 5 0 true)).dropLast, ∀ t', (fun m (_ : Nat) => m != 0) ((fun g => g / 2) x) t' = false :=
  ⟨0, by decide, fun _ => rfl⟩
/-- module 1 (gates 2, 3) shuts down at t = 104: a message sent at 100 passes gate 2 at 105 and is dropped there;
    sent from the other end at 90 it passes gates 3 and 2 at 90 / 97 and arrives at module 0 at 102 -/
example : send demo (fun g => g / 2) (fun m t => m != 1 || t < 104) 0 6 0 100 = .dropped 2 105 := by decide
example : send demo (fun g => g / 2) (fun m t => m != 1 || t < 104) 1 6 3 90 = .handled 0 102 (some 0) true 1 := by decide

/-- gate 4 is unconnected when `send_in(msg, g4, 50)` is called at t = 0; at t = 20 it is connected to
    gate 0 (channel 3 ns): at t = 50 the message travels 4–0–1–2–3 and reaches module 1 at 50+3+5+7 —
    it is not handed back to the sender (module 2) -/
def demoAt (t : Nat) : Net := if t < 20 then demo else connectAll demo [(4, 0, some 3)]
example : sendIssued demoAt (fun g => g / 2) (fun _ _ => true) 2 7 4 0 50 = .handled 1 65 (some 3) true 2 := by decide
example : sendIssued demoAt (fun g => g / 2) (fun _ _ => true) 2 7 4 0 10 = .handled 2 10 (some 4) true 2 := by decide
example : (demoAt 0 4).len ≤ 1 ∧ kind (demoAt 50) 4 ≠ .transit := by decide

/-- a message that module 7 "received" before (stale receiver 7, stale sender 9, stale last gate 4) is
    sent on by module 0 over the demo chain: the delivered header names module 0, module 1 and gate 3 -/
example : sendH (fun _ => demo) (fun g => g / 2) (fun _ _ => true) 0 6 0 100 100 ⟨9, 7, some 4⟩ =
    .handled 1 112 ⟨0, 1, some 3⟩ true := by decide

/-- cluster "7" created in the order 2, 0, 1 with another gate in between: (7, 1) is gate 12 -/
example : lookupGate [⟨7, 2, 10⟩, ⟨3, 0, 5⟩, ⟨7, 0, 11⟩, ⟨7, 1, 12⟩] 7 1 = some 12 := by decide
/-- three messages at t = 100 over a channel-less hop and a hop with tx = 10, latency 3 -/
example : ChainSrv.serveChain [⟨0, 0, none⟩, ⟨3, 10, none⟩] [some 100, some 100, some 100] =
    [some 113, some 123, some 133] := by decide
/-- a queue that holds one waiting message: the third message of the burst is dropped -/
example : ChainSrv.serveChain [⟨3, 10, some 1⟩] [some 100, some 100, some 100] = [some 113, some 123, none] := by decide

end C08

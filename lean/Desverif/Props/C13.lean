/-
C13 — a panicking module is contained, attributed and does not disturb other modules.

Statements are about the kernel model `Net` (Model/Net.lean): a `panic` action aborts the rest of
its callback (`runActions`), `Harness::catch` (`catchPanic`) deactivates the module and records its
path unless the stereotype catches; a panic inside a spawned task ends that task only (tokio
catches it) and is reported by `at_sim_end` through the task's `try_join` handle.

Partial: that unwinding through tokio's `block_on` leaves the runtime, `MOD_CTX`, `BUF_CTX` and
the simulation lock usable is an assumption; it is validated by the correspondence check (whole
traces of panicking simulations, and of a second simulation run in the same process).
-/
import Desverif.Proofs.NetSilent
namespace C13
open Net

/-- **globals released**: between events — after initialisation, after the start-up stages, after
    every dispatched event, at the end of the event loop — the emission buffer is empty, no module
    context is set and no shutdown request is pending, whatever panicked; after `at_sim_end` the
    module context is released as well. -/
theorem globals_released (cfg : Config) (fuel : Nat) :
    Quiet (State.init cfg) ∧ Quiet (State.init cfg).simStart ∧
    (∀ s s' : State, Quiet s → s.step = some s' → Quiet s') ∧
    (∀ s : State, Quiet s → ∀ mi kind, Quiet (s.moduleEvent mi kind)) ∧
    Quiet (State.loop fuel (State.init cfg).simStart) ∧
    (State.loop fuel (State.init cfg).simStart).simEnd.cur = none :=
  ⟨init_quiet cfg, simStart_quiet (init_quiet cfg), fun _ _ h hs => step_quiet h hs,
   fun _ h mi kind => moduleEvent_quiet h mi kind,
   loop_quiet fuel (simStart_quiet (init_quiet cfg)),
   simEnd_cur (loop_quiet fuel (simStart_quiet (init_quiet cfg))).cur⟩

/-- **errors = panicked paths** (event loop): at every point of the run before `at_sim_end` the
    error list `Sim::error` is exactly the list of callback-panic lines of the trace whose module's
    stereotype does not catch, in trace order — nothing else, nothing missing, no duplicates. -/
theorem errors_eq_panicked_paths (cfg : Config) (fuel : Nat) :
    (State.loop fuel (State.init cfg).simStart).errors =
      panicErrs (cfg.mods.map (·.catches)) (State.loop fuel (State.init cfg).simStart).trace := by
  have h0 := init_errInv cfg
  have h1 := simStart_errInv (init_quiet cfg) h0
  exact (loop_errInv fuel h1.1 h1.2).errs

/-- if every callback panic of the run hit a module whose stereotype catches, `Sim::error` stays
    empty: the run is Ok as far as the callbacks of the event loop are concerned -/
theorem ok_if_all_caught (cfg : Config) (fuel : Nat)
    (h : ∀ o ∈ (State.loop fuel (State.init cfg).simStart).trace, isCbPan o = true →
      (cfg.mods.map (·.catches)).getD o.mod false = true) :
    (State.loop fuel (State.init cfg).simStart).errors = [] := by
  rw [errors_eq_panicked_paths]
  simp only [panicErrs, List.filterMap_eq_nil_iff]
  intro o ho
  cases hp : isCbPan o with
  | false => simp
  | true =>
    have := h o ho hp
    simp only [Bool.true_and, this, Bool.not_true, Bool.false_eq_true, if_false]

/-- the error of one event: a module event appends `(panic, mi)` iff one of its callbacks
    panicked and the stereotype does not catch; and the `try_join` handles of the module count
    exactly the panics of joined tasks among its observations -/
theorem event_error_iff_uncaught_panic {s : State} (hq : Quiet s) (mi : Nat) (kind : Kind) (m : ModRt)
    (hm : s.mods[mi]? = some m) :
    ∃ l fm, EvSummary s mi m kind l ∧
      (s.moduleEvent mi kind).errors =
        s.errors ++ (if l.any isCbPan && !m.catches then [(ErrKind.panic, mi)] else []) ∧
      (s.moduleEvent mi kind).mods[mi]? = some fm ∧ fm.joinPanics = m.joinPanics + l.countP isJoinPan := by
  obtain ⟨l, sm⟩ := moduleEvent_summary hq mi kind m hm
  obtain ⟨fm, h1, _, _, _, _, _, h7, _⟩ := sm.mods
  have hlt : mi < s.mods.length := (List.getElem?_eq_some_iff.mp hm).1
  exact ⟨l, fm, sm, sm.errors, by rw [h1]; simp [List.getElem?_set_self hlt], h7⟩

/-- what `at_sim_end` of one module reports: the panic of the callback itself if it is not caught,
    otherwise one `JoinError` per panicked task handed to `try_join`, then, in registration order,
    one per task handed to `join` that is not finished, has panicked or was cancelled by a shutdown
    (whatever the stereotype) -/
theorem sim_end_reports (s : State) (mi : Nat) (m : ModRt) (hm : s.mods[mi]? = some m) :
    let env := s.env mi
    let mb := m.bump env.now
    let r := exec env mb ⟨mi, .end_, none, none, env.now⟩ mb.prog.onEnd (ES.start mb s.chans)
    let c := catchPanic mi r
    let r2 := if r.panicked && c.2.isEmpty then execIdle env c.1 r.es else { r with mod := c.1 }
    (s.moduleEnd mi).errors =
      s.errors ++ (if !c.2.isEmpty then c.2
        else List.replicate r2.mod.joinPanics (ErrKind.join, mi) ++ mustErrs mi r2.mod.must) ∧
    c.2 = (if r.panicked && !m.catches then [(ErrKind.panic, mi)] else []) := by
  intro env mb r c r2
  constructor
  · unfold State.moduleEnd
    simp only [hm]
    split <;> simp [env, mb, r, c, r2]
  · simp only [c, catchPanic]
    have hc : r.mod.catches = m.catches := by
      obtain ⟨l, x⟩ := exec_spec env mb ⟨mi, .end_, none, none, env.now⟩ mb.prog.onEnd (ES.start mb s.chans)
      exact x.catches
    cases r.panicked <;> simp [hc]
    cases m.catches <;> simp

/-- **no further deliveries to a panicked module**: if a callback of module `mi` panicked in an
    event (and the event had not asked for shutdown either — then `C09` applies), the module is
    inactive afterwards, and until a restart event of it is dispatched — which only a
    shutdown-and-restart request made in the panicking event itself can have scheduled — no
    dispatched event produces any observation of it: no handler, no wake-up, no task, no send. -/
theorem no_further_deliveries_to_panicked {s : State} (hq : Quiet s) (mi : Nat) (kind : Kind) (m : ModRt)
    (hm : s.mods[mi]? = some m) :
    ∃ l, EvSummary s mi m kind l ∧
      (l.any isCbPan = true →
        ((s.moduleEvent mi kind).mods[mi]?).map (·.active) = some false ∧
        ∀ n, (s.moduleEvent mi kind).noRestart mi n →
          ∃ seg, ((s.moduleEvent mi kind).steps n).trace = (s.moduleEvent mi kind).trace ++ seg ∧
            (∀ o ∈ seg, o.mod ≠ mi) ∧
            (((s.moduleEvent mi kind).steps n).mods[mi]?).map (·.active) = some false) := by
  obtain ⟨l, sm⟩ := moduleEvent_summary hq mi kind m hm
  refine ⟨l, sm, ?_⟩
  intro hp
  obtain ⟨fm, h1, h2, _⟩ := sm.mods
  have hlt : mi < s.mods.length := (List.getElem?_eq_some_iff.mp hm).1
  have hdown : ((s.moduleEvent mi kind).mods[mi]?).map (·.active) = some false := by
    rw [h1]
    simp only [List.getElem?_set_self hlt, Option.map_some, Option.some.injEq]
    rw [h2, hp]
    cases l.any isDwn <;> simp
  exact ⟨hdown, fun n hn => steps_inert n (moduleEvent_quiet hq mi kind) mi hdown hn⟩

/-- **non-interference**: once module `m` is inactive after a panic, the run continues — for
    every other module, for the channels, the future event set, the error list, event by event —
    exactly as in the run in which `m` carries the silent program (all handlers and task bodies
    empty: the module "merely stops emitting"), as long as `m` is not restarted.  The two runs
    differ in the (unused) program text of `m` only, so every other module's trace is the same. -/
theorem healthy_trace_eq_silenced_trace {s : State} (hq : Quiet s) (m n : Nat)
    (hdead : (s.mods[m]?).map (·.active) = some false) (hno : s.noRestart m n) :
    (s.withProg m Prog.silent).steps n = (s.steps n).withProg m Prog.silent ∧
    ((s.withProg m Prog.silent).steps n).trace = (s.steps n).trace ∧
    ((s.withProg m Prog.silent).steps n).errors = (s.steps n).errors ∧
    (∀ i, i ≠ m → ((s.withProg m Prog.silent).steps n).mods[i]? = (s.steps n).mods[i]?) := by
  have h := withProg_steps n hq m Prog.silent hdead hno
  rw [h]
  exact ⟨rfl, rfl, rfl, fun i hi => withProg_getElem_ne _ m Prog.silent hi⟩

/-! ## non-vacuity and witnesses of the deviations recorded in DESIGN.md -/

/-- module 0 panics in the handler of message 1 after one send; module 1 logs -/
def q0 : Prog :=
  { onMsg := fun id => if id = 1 then [.send 1 0 5, .panic, .send 1 0 6] else [.send 1 0 id],
    onStart := fun _ => [], onEnd := [.log 9], onTask := fun _ => [.log 33] }
def q1 : Prog := { onMsg := fun id => [.log id], onStart := fun _ => [], onEnd := [], onTask := fun _ => [] }
def cfgP (c : Bool) : Config :=
  { mods := [⟨q0, 1, c⟩, ⟨q1, 1, false⟩],
    links := [{ src := 0, dst := 1, owners := [0, 1], chan := none }],
    inits := [(0, 1, 3), (0, 2, 6), (1, 4, 7)] }

/-- not caught: module 1 gets message 5 (sent before the panic), not 6 (after it), module 0 ignores
    message 2 at 6, module 1 keeps working (message 4 at 7), `run` reports module 0 -/
example : ((run 100 (cfgP false)).trace.filter (fun o => o.mod == 1 && o.kind == .msg)).map (fun o => (o.a, o.time)) =
      [(some 5, 3), (some 4, 7)] ∧
    ((run 100 (cfgP false)).trace.filter (fun o => o.mod == 0 && o.kind == .msg)).map (fun o => (o.a, o.time)) =
      [(some 1, 3)] ∧
    (run 100 (cfgP false)).errors = [(.panic, 0)] ∧ (run 100 (cfgP false)).fault = none ∧
    (run 100 (cfgP false)).cur = none := by decide

/-- caught: the same trace, but `run` is Ok -/
example : (run 100 (cfgP true)).errors = [] ∧ (run 100 (cfgP true)).trace = (run 100 (cfgP false)).trace := by decide

/-- the hypotheses of `healthy_trace_eq_silenced_trace` are met after the panicking event, for the
    rest of the run -/
example : ((((State.init (cfgP false)).simStart.steps 1).mods[0]?).map (·.active) = some false) ∧
    ((State.init (cfgP false)).simStart.steps 1).noRestart 0 5 := by decide

/-- module 0 spawns a joined task that panics; the stereotype catches -/
def q2 : Prog :=
  { onMsg := fun id => if id = 1 then [.spawn 3 2 true true false] else [.log id],
    onStart := fun _ => [], onEnd := [], onTask := fun _ => [.panic] }
def cfgJ : Config :=
  { mods := [⟨q2, 1, true⟩], links := [], inits := [(0, 1, 3), (0, 2, 9)] }

/-- deviation (known finding): a panic inside a joined task neither deactivates the module (it
    still handles message 2 at 9) nor honours `on_panic_catch` — `run` fails with a `JoinError` -/
theorem joined_task_panic_ignores_stereotype_witness :
    (run 100 cfgJ).errors = [(.join, 0)] ∧
    ((run 100 cfgJ).trace.filter (·.kind == .msg)).map (fun o => (o.a, o.time)) = [(some 1, 3), (some 2, 9)] := by
  decide

/-- module 0 spawns a task (sleep 4) and panics in a later handler before the task is due -/
def q3 : Prog :=
  { onMsg := fun id => if id = 1 then [.spawn 3 4 false false false] else [.panic],
    onStart := fun _ => [], onEnd := [], onTask := fun _ => [.log 33] }
def cfgE : Config :=
  { mods := [⟨q3, 1, false⟩, ⟨q1, 1, false⟩], links := [], inits := [(0, 1, 3), (0, 2, 5), (1, 4, 20)] }

/-- deviation (known finding): `at_sim_end` runs for the panicked module too, and its overdue task
    (due at 7, never woken while the module was inactive) resumes there, at time 20 -/
theorem overdue_task_runs_at_sim_end_witness :
    ((run 100 cfgE).trace.filter (fun o => o.mod == 0)).map (fun o => (o.kind, o.time)) =
      [(.start, 0), (.msg, 3), (.msg, 5), (.pan, 5), (.end_, 20), (.task, 20), (.log, 20)] := by
  decide

end C13

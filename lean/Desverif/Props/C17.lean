/-
C17 — Configuration entries reach exactly the modules they address.

Only property theorems live here.  `Cfg` is the model of des-net-utils/src/props/{yaml,store,mod}.rs
and of `SimBuilder::{include_cfg, raw}` (Model/Cfg.lean) — with the repairs F6, F13, F11a applied —
and `CfgSpec` the segment matcher (Spec/Cfg.lean).  Statements quantify over every flat
configuration `c` (a list of dotted keys, as segment lists, with scalar values), every module path
`p` (any depth, any segment names), every script of includes and node creations.

The unrepaired class F11b (`Clash c`: some entry's key followed by `<any>` is a prefix of another
entry's key, e.g. `lx: 5` with `lx.<any>.log: t`) is excluded by an explicit decidable hypothesis;
`capture_eq_spec_witness` shows the statement is false inside that class.
-/
import Desverif.Proofs.CfgHandles
namespace C17
open Cfg CfgSpec

/-- The recursive segment matcher is the specification of the property statement: key `k` gives
    module `p` the property `name` iff `k = q ++ name`, `|q| = |p|`, every `qᵢ` is `pᵢ` or `<any>`,
    and `name` is non-empty and contains no `<any>`. -/
theorem spec_is_segment_matcher (p : List Seg) (k name : Key) :
    Matches p k name ↔ ∃ q, k = q ++ name ∧ q.length = p.length ∧
      (∀ i, i < p.length → q[i]? = p[i]? ∨ q[i]? = some ANY) ∧ name ≠ [] ∧ ANY ∉ name :=
  matches_iff_exists_prefix

/-- **Headline.** For every flat configuration in the domain (keys pairwise different, non-empty,
    not ending in `<any>`) outside class F11b and every module path: `Cfg::new(c)` followed by
    `capture_for_into(p)` succeeds (no panic, recursion bounds suffice); the property names obtained
    are exactly the names the matcher assigns to `p`; and every value is the scalar of an entry
    that addresses `p` under that name.  In particular entries of prefix-sharing siblings or other
    modules never appear. -/
theorem capture_eq_spec_partial (c : Flat) (p : List Seg) (hwf : WF c) (hnc : ¬ Clash c) :
    ∃ ps, captureInto c p = .ok ps ∧
      (∀ n, n ∈ ps.map (·.1) ↔ ∃ e ∈ c, Matches p e.1 n) ∧
      (∀ x ∈ ps, ∃ e ∈ c, x.2 = .yaml (.scalar e.2) ∧ Matches p e.1 x.1) := by
  obtain ⟨T, h1, h2⟩ := capture_flat hwf hnc p
  obtain ⟨ps, h3, h4⟩ := h2 []
  refine ⟨ps, by simp only [captureInto, h1, h3], ?_, ?_⟩
  · intro n
    constructor
    · intro hn
      obtain ⟨x, hx, rfl⟩ := List.mem_map.mp hn
      rcases h4.sound x hx with h | ⟨e, he, _, hm⟩
      · simp at h
      · exact ⟨e, he, hm⟩
    · exact h4.cover n
  · intro x hx
    rcases h4.sound x hx with h | h
    · simp at h
    · exact h

/-- The exclusion is necessary (open finding F11b): `lx: 5` together with `lx.<any>.log: t` is in
    the domain, module `lx.z` is addressed by the second entry under the name `log`, yet it
    receives nothing. -/
theorem capture_eq_spec_witness :
    let c : Flat := [(["lx"], "5"), (["lx", ANY, "log"], "t")]
    WF c ∧ Clash c ∧ (∃ e ∈ c, Matches ["lx", "z"] e.1 ["log"]) ∧
      (match captureInto c ["lx", "z"] with
       | .ok ps => some (ps.map (·.1))
       | .error _ => none) = some [] := by
  refine ⟨by decide, by decide, ⟨(["lx", ANY, "log"], "t"), by decide, matchName_iff.mp (by decide)⟩,
    by decide⟩

/-- Capture on top of an existing store (`capture_for`): nothing already present is lost or
    changed (`Props::set` keeps the first value), every added entry is justified by a matching
    entry, every specified name is present afterwards. -/
theorem capture_extends_store (c : Flat) (p : List Seg) (hwf : WF c) (hnc : ¬ Clash c) :
    ∃ T, compartmentalize c.toVal = .ok (.map T) ∧ ∀ ps, ∃ ps', updateFrom ps (.map T) p = .ok ps' ∧
      (∀ x ∈ ps, x ∈ ps') ∧
      (∀ x ∈ ps', x ∈ ps ∨ ∃ e ∈ c, x.2 = .yaml (.scalar e.2) ∧ Matches p e.1 x.1) ∧
      (∀ n, (∃ e ∈ c, Matches p e.1 n) → n ∈ ps'.map (·.1)) := by
  obtain ⟨T, h1, h2⟩ := capture_flat hwf hnc p
  refine ⟨T, h1, fun ps => ?_⟩
  obtain ⟨ps', h3, h4⟩ := h2 ps
  exact ⟨ps', h3, h4.mono, h4.sound, h4.cover⟩

/-- **Include order.** In every successful script of `include_cfg` and node creations, every module
    ends up with exactly what applying all included configurations, in include order, to an empty
    store gives — whether a configuration was included before or after the node was created. -/
theorem include_order_invariant (ops : List SOp) (s : Sim) (h : Sim.run {} ops = .ok s) (p : List Seg)
    (ps : Props) (hm : (p, ps) ∈ s.mods) :
    foldE (fun ps v => updateFrom ps v p) [] s.cfgs = .ok ps :=
  Sim.inv_run (s := {}) (fun _ _ h => by simp at h) ops h p ps hm

/-- Two scripts that include the same configurations in the same order give a module the same
    property store, wherever the node creations are placed among the includes. -/
theorem include_order_irrelevant (ops1 ops2 : List SOp) (s1 s2 : Sim)
    (h1 : Sim.run {} ops1 = .ok s1) (h2 : Sim.run {} ops2 = .ok s2)
    (hi : incls ops1 = incls ops2) (p : List Seg) (ps1 ps2 : Props)
    (m1 : (p, ps1) ∈ s1.mods) (m2 : (p, ps2) ∈ s2.mods) : ps1 = ps2 := by
  obtain ⟨v1, c1, e1⟩ := Sim.run_cfgs ops1 {} s1 h1
  obtain ⟨v2, c2, e2⟩ := Sim.run_cfgs ops2 {} s2 h2
  have hv : v1 = v2 := map_ok_inj (by rw [← e1, ← e2, hi])
  have hc : s1.cfgs = s2.cfgs := by rw [c1, c2, hv]
  have a1 := include_order_invariant ops1 s1 h1 p ps1 m1
  have a2 := include_order_invariant ops2 s2 h2 p ps2 m2
  rw [hc, a2] at a1
  exact (Except.ok.inj a1).symm

/-- **Typed slot, several live handles.**  Scripts over ONE property: `hₙ = prop::<T>(key)` (any number of
    handles alive at once), `get` / `or_default` / `set` / `clear` / drop through any live handle —
    fresh or stale —, and `RawProp::clear`.  For every script, every start state (any slot, any set
    of live handles of any types), every deserialiser, at every executed step: if the property
    holds a value of type `t` before the step then
    * afterwards it still holds a value of type `t`, unless the step is a clear (then it is absent);
    * if the step carries another type (a new `prop::<T>` call, or `get`/`or_default`/`set` through a
      handle of another type, however long ago it was obtained) the answer is an error
      (`InvalidInput`, or a panic of the handle) and the slot is unchanged — never a
      reinterpretation, never a silent re-typing;
    * every value returned has type `t`. -/
theorem typed_slot_keeps_type (cv : Ty → Val → Option TV) (st : MState) (ops : List MOp) :
    ∀ e ∈ mtrace cv st ops, ∀ t, e.1.slot.held = some t →
      (e.2.2.2.slot.held = some t ∨ (clears e.1 e.2.1 ∧ e.2.2.2.slot.held = none)) ∧
      (∀ T, accessTy e.1 e.2.1 = some T → T ≠ t →
        (∃ x, e.2.2.1 = some x ∧ isErr x = true) ∧ e.2.2.2.slot = e.1.slot) ∧
      (∀ x, e.2.2.1 = some (.val x) → x.ty = t) :=
  mtrace_keeps_type cv ops st

/-- The abstract rule the driver checks implementation answers against (`CfgSpec.typedAccept`: "a
    property keeps the type it was first read or written with until cleared; access with another
    type is an error, also through a stale handle") accepts every answer of the model and tracks
    its slot exactly — for operations through handles and for `prop::<T>` calls. -/
theorem typed_rule_sound_for_model (cv : Ty → Val → Option TV)
    (hcv : ∀ t v tv, cv t v = some tv → tv.ty = t) (s : Slot) :
    (∀ h op, op.okFor h = true →
      typedAccept s.abs (op.acc h) (handleOp h op s).2.1 = (true, (handleOp h op s).1.abs)) ∧
    (∀ t, match typedSlot cv t s with
      | .ok s1 => typedAccept s.abs (.openT t) .ok = (true, s1.abs)
      | .error a => typedAccept s.abs (.openT t) a = (true, s.abs)) :=
  ⟨fun h op hw => typedAccept_handleOp h op s hw, fun t => typedAccept_open cv hcv t s⟩

/-- Single calls (`prop::<T>(key)` immediately followed by `get`, `or_default().get()` or `set`):
    once a value of type `tv.ty` is held, it is still held at the end of every well-typed sequence,
    accesses with another type answer `InvalidInput`, accesses with the right type never do and
    never return a value of another type. -/
theorem typed_slot_single_calls (cv : Ty → Val → Option TV) (tv : TV) (ops : List (Ty × TOp))
    (hw : ∀ o ∈ ops, o.2.wellTyped o.1) :
    (runSlot cv (.some tv) ops).1.held = some tv.ty ∧
    ∀ x ∈ ops.zip (runSlot cv (.some tv) ops).2,
      (x.1.1 ≠ tv.ty → x.2 = .invalid) ∧
      (x.1.1 = tv.ty → x.2 ≠ .invalid ∧ ∀ y, x.2 = .val y → y.ty = tv.ty) :=
  let h := runSlot_some cv ops tv hw
  ⟨h.1, h.2.2⟩

/-- The type is fixed by the first access that succeeds with a value (read of a configured value,
    `or_default`, or write): afterwards the slot holds a value of exactly that type. -/
theorem typed_slot_first_use_fixes_type (cv : Ty → Val → Option TV)
    (hcv : ∀ t v tv, cv t v = some tv → tv.ty = t) (t : Ty) (op : TOp) (s : Slot)
    (hw : op.wellTyped t)
    (hok : (slotOp cv t op s).2 = .ok ∨ ∃ x, (slotOp cv t op s).2 = .val x) :
    (slotOp cv t op s).1.held = some t :=
  slotOp_fixes cv hcv t op s hw hok

/-! ### non-vacuity -/

/-- a configuration with specific paths, wildcards at two depths and prefix-sharing siblings is in
    the domain and outside class F11b -/
example : WF [(["alice", "addr"], "1"), (["alicent", "addr"], "2"), ([ANY, "log"], "t"),
    (["alice", ANY, "x"], "3"), ([ANY, ANY, "a"], "4"), ([ANY, "a", "al"], "5")] ∧
    ¬ Clash [(["alice", "addr"], "1"), (["alicent", "addr"], "2"), ([ANY, "log"], "t"),
    (["alice", ANY, "x"], "3"), ([ANY, ANY, "a"], "4"), ([ANY, "a", "al"], "5")] := by decide

/-- on it, module `alice` gets `addr` (its own, not `alicent`'s), `log` and `a.al` -/
example : (match captureInto [(["alice", "addr"], "1"), (["alicent", "addr"], "2"), ([ANY, "log"], "t"),
      (["alice", ANY, "x"], "3"), ([ANY, ANY, "a"], "4"), ([ANY, "a", "al"], "5")] ["alice"] with
    | .ok ps => some (ps.map (·.1))
    | .error _ => none) = some [["log"], ["a", "al"], ["addr"]] := by decide

/-- scripts that differ only in where the node is created (hypotheses of `include_order_irrelevant`) -/
example : incls [.incl [(["a", "x"], "1")], .node ["a"], .incl [([ANY, "y"], "2")]] =
    incls [.node ["a"], .incl [(["a", "x"], "1")], .incl [([ANY, "y"], "2")]] := rfl

example : (match Sim.run {} [.incl [(["a", "x"], "1")], .node ["a"], .incl [([ANY, "y"], "2")]] with
    | .ok s => s.mods.map fun m => (m.1, m.2.map (·.1))
    | .error _ => []) = [(["a"], [["x"], ["y"]])] := by decide

/-- a well-typed access sequence with mismatching reads (hypothesis of `typed_slot_single_calls`) -/
example : (runSlot conv (.some (.str "v")) [(.u64, .read), (.str, .readd), (.u64, .write (.u64 3))]).2 =
    [.invalid, .val (.str "v"), .invalid] := by decide

/-- the stale-handle script: `h1 = prop::<u64>`, `h2 = prop::<String>` on an absent property,
    `h2.set("w")`, then `h1.set(7)` panics, `h1.get()` panics, `h2.get()` still returns "w";
    after a clear `h1.set(7)` succeeds and `h2.set("x")` panics -/
example : (mtrace conv ⟨.none, []⟩
    [.openH 1 .u64, .openH 2 .str, .via 2 (.set (.str "w")), .via 1 (.set (.u64 7)), .via 1 .get,
     .via 2 .get, .rawClear, .via 1 (.set (.u64 7)), .via 2 (.set (.str "x"))]).map (·.2.2.1) =
    [some .ok, some .ok, some .ok, some .panic, some .panic, some (.val (.str "w")), some .ok,
     some .ok, some .panic] := by decide

/-- the model's deserialiser satisfies the hypothesis of `typed_slot_first_use_fixes_type` -/
example : ∀ t v tv, conv t v = some tv → tv.ty = t := by
  intro t v tv h
  cases t <;> cases v <;> simp [conv] at h
  subst h; rfl

end C17

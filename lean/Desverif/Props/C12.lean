/-
C12 — Start-up and tear-down callbacks run once, stage by stage, in module-tree order.

Only property theorems live here.
* `ObjPath`  — model of `ObjectPath` (Model/ObjPath.lean); `reprOf segs` is the path value obtained by
  appending the name segments one by one, `render segs` the dotted string (Spec/PathRepr.lean).
* `ModTree`  — model of `ModuleTree::add`, `SimBuilder::raw`, the `at_sim_start` / `at_sim_end` loops
  (Model/ModTree.lean).
* `PreSpec`  — the declared tree: `preorder D` is the depth-first pre-order with siblings in creation
  order, `startSpec D` the stage-major call sequence (Spec/Preorder.lean).
All statements quantify over every declaration sequence `D` (any depth, fan-out, number of modules,
any names that are non-empty, free of `'.'` and valid UTF-8 — including names that are textual
prefixes of each other and multi-byte names) in any valid insertion order (`PreSpec.Valid`: no
duplicate, every parent declared before its children), and over all per-module stage counts.
-/
import Desverif.Proofs.ModTreeLookups
import Desverif.Proofs.ModTreeScript
import Desverif.Proofs.ModTreeTeardownBuilt
import Desverif.Proofs.ObjPathGate
import Desverif.Proofs.ModRunOrder
namespace C12
open ObjPath PreSpec ModTree

/-! ## the module vector -/

/-- **`ModuleTree::add` preserves the pre-order.**  If the vector shows the pre-order of the declared
    tree `D` and `p` is an acceptable next declaration, `add` succeeds, the vector then shows the
    pre-order of `D ++ [p]`, and no other entry moves (subtree contiguity is what makes the
    `rposition` + "skip deeper entries" scan land at the end of the parent's subtree). -/
theorem add_preserves_preorder (D : List SDecl) (p : SDecl) (ms : List Mod) (m : Mod)
    (hnames : NamesValid (D ++ [p])) (hv : Valid (D ++ [p]))
    (hsim : ms.map view = (preorder D).map dview) (hm : view m = dview p) :
    ∃ ms', add ms m = .ok ms' ∧ ms'.map view = (preorder (D ++ [p])).map dview ∧
      ∃ X Y, ms = X ++ Y ∧ ms' = X ++ m :: Y :=
  add_preorder_step D p ms m hnames hv hsim hm

/-- **The built vector is the pre-order of the declared tree**, for every valid insertion order:
    every `sim.node(..)` call is accepted and the final module vector lists the declared modules
    (path, stage count) in depth-first pre-order with siblings in creation order. -/
theorem built_vector_is_preorder (D : List SDecl) (hv : Valid D) (hn : NamesValid D) :
    (buildAll D).2 = true ∧ (buildAll D).1.mods.map view = (preorder D).map dview :=
  buildAll_ok D hv hn

/-- The pre-order lists every declared module exactly once. -/
theorem preorder_is_permutation (D : List SDecl) (hv : Valid D) : (preorder D).Perm D :=
  preorder_perm D hv

/-- **The order depends only on the per-parent creation order.**  Two insertion orders of the same
    modules with the same creation order among the children of every parent (and among the
    parent-less modules) produce the same vector. -/
theorem order_depends_only_on_sibling_order (D D' : List SDecl)
    (hv : Valid D) (hn : NamesValid D) (hv' : Valid D') (hn' : NamesValid D')
    (hperm : D.Perm D') (hroots : roots D = roots D') (hkids : ∀ q, kids D q = kids D' q) :
    (buildAll D).1.mods.map view = (buildAll D').1.mods.map view := by
  rw [(buildAll_ok D hv hn).2, (buildAll_ok D' hv' hn').2]
  congr 1
  have hdfs : ∀ f d, dfs D f d = dfs D' f d := by
    intro f
    induction f with
    | zero => intro d; rfl
    | succ f ih =>
      intro d
      simp only [dfs, hkids]
      congr 1
      exact PreSpec.flatMap_congr' _ _ _ (fun c _ => ih c)
  have hmax : maxLen D = maxLen D' := foldl_max_perm (fun d : SDecl => d.segs.length) hperm 0
  unfold preorder
  rw [hroots, hmax]
  exact PreSpec.flatMap_congr' _ _ _ (fun c _ => hdfs _ c)

/-! ## start-up and tear-down calls -/

/-- **Start-up calls = stage-major filter of the pre-order.**  On the built simulation the
    `at_sim_start` loop calls exactly `startSpec D`: for stage 0, 1, … every module that declares
    that stage, in pre-order. -/
theorem start_calls_stage_major (D : List SDecl) (hv : Valid D) (hn : NamesValid D) :
    (startCalls (buildAll D).1.mods).map (fun c => (view c.1, c.2))
      = (startSpec D).map (fun c => (dview c.1, c.2)) :=
  startCalls_spec D _ hv (buildAll_ok D hv hn).2

/-- the modules of a built vector are pairwise distinct -/
theorem built_vector_nodup (D : List SDecl) (hv : Valid D) (hn : NamesValid D) :
    (buildAll D).1.mods.Nodup := by
  have h := (buildAll_ok D hv hn).2
  have hnd : ((preorder D).map dview).Nodup := by
    have h1 : ((preorder D).map (·.segs)).Nodup :=
      (List.Perm.nodup_iff ((preorder_perm D hv).map _)).mpr (valid_good D hv).nodup
    have hval : ∀ d ∈ preorder D, AllValid d.segs :=
      fun d hd => hn d ((preorder_perm D hv).mem_iff.mp hd)
    generalize preorder D = L at h1 hval
    induction L with
    | nil => simp
    | cons d L ih =>
      simp only [List.map_cons, List.nodup_cons] at h1 ⊢
      refine ⟨?_, ih h1.2 (fun x hx => hval x (by simp [hx]))⟩
      intro hmem
      obtain ⟨d', hd', e⟩ := List.mem_map.mp hmem
      have : reprOf d'.segs = reprOf d.segs := congrArg Prod.fst e
      have := reprOf_injective _ _ (hval d' (by simp [hd'])) (hval d (by simp)) this
      exact h1.1 (List.mem_map.mpr ⟨d', hd', this⟩)
  rw [← h] at hnd
  exact List.Pairwise.of_map view (fun a b hab e => hab (by rw [e])) hnd

/-- **Each declared stage exactly once.**  On the built simulation `at_sim_start(s)` is called on a
    module exactly once if `s` is one of its declared stages and never otherwise. -/
theorem each_declared_stage_once (D : List SDecl) (hv : Valid D) (hn : NamesValid D)
    (m : Mod) (hm : m ∈ (buildAll D).1.mods) (s : Nat) :
    (startCalls (buildAll D).1.mods).count (m, s) = if s < m.stages then 1 else 0 := by
  rw [count_startCalls, (built_vector_nodup D hv hn).count, if_pos hm]

/-- … and nothing that is not a module of the simulation is ever called. -/
theorem only_modules_started (ms : List Mod) (c : Mod × Nat) (h : c ∈ startCalls ms) :
    c.1 ∈ ms ∧ c.2 < c.1.stages := by
  simp only [startCalls, stageCalls, List.mem_flatMap, List.mem_range, List.mem_map,
    List.mem_filter, decide_eq_true_eq] at h
  obtain ⟨s, _, m, ⟨hm, hs⟩, rfl⟩ := h
  exact ⟨hm, hs⟩

/-- **Stage barrier.**  For every module vector, all stage-`i` calls precede every stage-`(i+1)`
    call: the sequence of stage numbers of the start-up calls is non-decreasing. -/
theorem stage_barrier (ms : List Mod) : ((startCalls ms).map (·.2)).Pairwise (· ≤ ·) :=
  startCalls_sorted ms

/-- **Pre-order inside a stage.**  The calls of stage `s` are the modules declaring stage `s`, in
    vector (= pre-order) order. -/
theorem within_stage_vector_order (ms : List Mod) (s : Nat) :
    ((startCalls ms).filter (fun c => c.2 == s)).map (·.1) = ms.filter (fun m => s < m.stages) := by
  rw [startCalls_filter]
  simp [stageCalls, Function.comp_def]

/-- **Tear-down once each, in pre-order.**  `at_sim_end` is called on every module of the built
    simulation exactly once, in pre-order. -/
theorem sim_end_once_each (D : List SDecl) (hv : Valid D) (hn : NamesValid D) :
    (endCalls (buildAll D).1.mods).map view = (endSpec D).map dview ∧
    ∀ m ∈ (buildAll D).1.mods, (endCalls (buildAll D).1.mods).count m = 1 :=
  ⟨(buildAll_ok D hv hn).2, fun _ hm => by rw [endCalls, (built_vector_nodup D hv hn).count, if_pos hm]⟩

/-- **Tear-down does not stop at an error.**  Whatever the `at_sim_end` callbacks return (`fails m` =
    number of errors module `m` reports), every module of the built simulation is ended (the call
    sequence `endCalls` does not depend on the results), every error of every module is reported
    exactly once, module by module in pre-order, and the run fails iff some module reported one. -/
theorem sim_end_errors_all_reported (D : List SDecl) (hv : Valid D) (hn : NamesValid D)
    (fails : Mod → Nat) :
    (∀ m ∈ (buildAll D).1.mods, ∀ i,
        (endErrors fails (endCalls (buildAll D).1.mods)).count (m, i) = if i < fails m then 1 else 0) ∧
    (endErrors fails (endCalls (buildAll D).1.mods)).map (·.1)
        = (buildAll D).1.mods.flatMap (fun m => List.replicate (fails m) m) ∧
    (endOk fails (endCalls (buildAll D).1.mods) = true ↔ ∀ m ∈ (buildAll D).1.mods, fails m = 0) := by
  refine ⟨?_, endErrors_modules fails _, endOk_iff fails _⟩
  intro m hm i
  rw [endCalls, count_endErrors, (built_vector_nodup D hv hn).count, if_pos hm]

/-! ## builder checks -/

/-- **A duplicate path is rejected** (and the builder is left unchanged). -/
theorem duplicate_rejected (D : List SDecl) (hv : Valid D) (hn : NamesValid D)
    (d : SDecl) (hd : d ∈ D) (stages : Nat) :
    node (buildAll D).1 (render d.segs) stages = ((buildAll D).1, some .dup) :=
  node_dup D _ hv hn (buildAll_ok D hv hn).2 d hd stages

/-- **A node whose parent does not exist is rejected** (and the builder is left unchanged). -/
theorem missing_parent_rejected (D : List SDecl) (hv : Valid D) (hn : NamesValid D)
    (s q : List (List Nat)) (hs : AllValid s) (stages : Nat)
    (hnew : s ∉ D.map (·.segs)) (hq : par s = some q) (hmiss : q ∉ D.map (·.segs)) :
    node (buildAll D).1 (render s) stages = ((buildAll D).1, some .noParent) :=
  node_noParent D _ hv hn (buildAll_ok D hv hn).2 s q hs stages hnew hq hmiss

/-- The builder's answers are the abstract contract `PreSpec.declare`: acceptable declarations are
    accepted. -/
theorem valid_node_accepted (D : List SDecl) (p : SDecl)
    (hn : NamesValid (D ++ [p])) (hv : Valid (D ++ [p])) :
    ∃ b', node (buildAll D).1 (render p.segs) p.stages = (b', none) ∧
      b'.mods.map view = (preorder (D ++ [p])).map dview :=
  node_accept D p _ hn hv
    (buildAll_ok D ((valid_snoc D p).mp hv).1 (fun d hd => hn d (by simp [hd]))).2

/-! ## arbitrary builder scripts (accepted and rejected calls interleaved) -/

/-- **Every builder script refines the contract.**  For any sequence of `sim.node(path, module)`
    calls with well-formed names — duplicates, orphans and children declared before their parent
    included, in any interleaving — every answer of the builder (accepted / "node allready exists" /
    "parent … does not exist") is the answer of `PreSpec.declare`, the accepted declarations form a
    valid declaration sequence, and the builder ends in exactly the state built from the accepted
    declarations alone.  Hence every theorem about `buildAll D` holds for the final state of every
    script, with `D` the accepted declarations. -/
theorem script_refines_contract (script : List SDecl) (hn : NamesValid script) :
    (runScript {} script).2.map ansOf = (declareAll [] script).2.map some ∧
    (runScript {} script).1 = (buildAll (declareAll [] script).1).1 ∧
    Valid (declareAll [] script).1 ∧ NamesValid (declareAll [] script).1 :=
  script_refines script [] (by decide) (fun _ h => by simp at h) hn

/-- **Rejected declarations leave the tree unchanged**: after any accepted prefix `D`, a call that
    the contract rejects (duplicate path or missing parent) is rejected by the builder with the
    corresponding panic and the builder state (vector, parent pointers, children maps, id counter)
    is exactly what it was. -/
theorem rejected_declaration_changes_nothing (D : List SDecl) (d : SDecl) (hv : Valid D)
    (hn : NamesValid D) (hd : AllValid d.segs) (hrej : (declare D d).1 ≠ .ok) :
    ansOf (node (buildAll D).1 (render d.segs) d.stages).2 = some (declare D d).1 ∧
    (node (buildAll D).1 (render d.segs) d.stages).1 = (buildAll D).1 ∧ (declare D d).2 = D := by
  obtain ⟨h1, _, _, _, h5⟩ := script_step D d hv hn hd
  exact ⟨h1, (h5 hrej).2, (h5 hrej).1⟩

/-- **Path ↔ module is a bijection**: no two modules share a path, no two declarations share a
    path value, every module sits at a declared path, every declared path has its module, and there
    are exactly as many modules as declarations. -/
theorem path_node_bijection (D : List SDecl) (hv : Valid D) (hn : NamesValid D) :
    ((buildAll D).1.mods.map (·.path)).Nodup ∧ (buildAll D).1.mods.length = D.length ∧
    (∀ m ∈ (buildAll D).1.mods, ∃ d ∈ D, m.path = reprOf d.segs) ∧
    (∀ d ∈ D, ∃ m ∈ (buildAll D).1.mods, m.path = reprOf d.segs) ∧
    (∀ d ∈ D, ∀ d' ∈ D, reprOf d.segs = reprOf d'.segs → d = d') := by
  have hb := (buildAll_ok D hv hn).2
  refine ⟨binv_paths_nodup hv hn hb, ?_, ?_, ?_, ?_⟩
  · have := congrArg List.length hb
    simp only [List.length_map] at this
    rw [this]
    exact (preorder_perm D hv).length_eq
  · intro m hm
    obtain ⟨d, hd, h, _⟩ := binv_mem_decl hv hb hm
    exact ⟨d, hd, h⟩
  · intro d hd
    obtain ⟨m, hm, h, _⟩ := binv_decl_mem hv hb hd
    exact ⟨m, hm, h⟩
  · intro d hd d' hd' e
    exact eq_of_map_eq (·.segs) D (valid_good D hv).nodup d hd d' hd'
      (reprOf_injective _ _ (hn d hd) (hn d' hd') e)

/-! ## tear-down order -/

/-- **No module precedes its parent in the vector**, hence in every start stage, in the
    `at_sim_end` sequence and in the drop sequence a parent comes before its children. -/
theorem parent_before_children (D : List SDecl) (hv : Valid D) (hn : NamesValid D) :
    (buildAll D).1.mods.Pairwise (fun x y => x.parent ≠ some y.id) :=
  (tinv_of_linv hv hn (buildAll_linv D hv hn)).pw

/-- **Drop order.**  When the simulation is dropped, the `Vec<ModuleRef>` is dropped front to back;
    a module's state goes when its last `ModuleRef` clone goes (vector entry + entry in the parent's
    children map), and dropping a module's context releases its children map.  For every built
    simulation no drop cascades: the module states are dropped in vector order (depth-first
    pre-order), each parent before its children. -/
theorem teardown_in_vector_order (D : List SDecl) (hv : Valid D) (hn : NamesValid D) :
    teardown (buildAll D).1 = (buildAll D).1.mods.map (·.id) :=
  teardown_built D hv hn

/-! ## lookups: parent pointers and children maps (`ModuleContext::standalone` / `child_of`) -/

/-- Every module of the built simulation sits at a declared path, and `path()`, `path().len()`,
    `name()` and the stage count are those of the declaration; every declaration has its module. -/
theorem modules_are_the_declared_ones (D : List SDecl) (hv : Valid D) (hn : NamesValid D) :
    (∀ m ∈ (buildAll D).1.mods, ∃ d ∈ D, m.path = reprOf d.segs ∧ m.stages = d.stages ∧
        m.path.data = render d.segs ∧ m.path.len = d.segs.length ∧
        name m.path = .ok (d.segs.getLast?.getD [])) ∧
    (∀ d ∈ D, ∃ m ∈ (buildAll D).1.mods, m.path = reprOf d.segs ∧ m.stages = d.stages) := by
  have hb := (buildAll_ok D hv hn).2
  constructor
  · intro m hm
    obtain ⟨d, hd, hp, hs⟩ := binv_mem_decl hv hb hm
    obtain ⟨h1, h2, _, h4⟩ := path_name_len_of_decl d.segs (hn d hd)
    exact ⟨d, hd, hp, hs, by rw [hp, h1], by rw [hp, h2], by rw [hp, h4]⟩
  · intro d hd
    exact binv_decl_mem hv hb hd

/-- **`parent()` agrees with the declared tree.**  For a module at the declared path `d`, `parent()`
    fails (`NoEntry`) iff the path has no parent module (length ≤ 1), and otherwise returns the
    module sitting at the declared parent path. -/
theorem parents_agree_with_declared_tree (D : List SDecl) (hv : Valid D) (hn : NamesValid D)
    (m : Mod) (hm : m ∈ (buildAll D).1.mods) (d : SDecl) (hd : d ∈ D) (hmd : m.path = reprOf d.segs) :
    (par d.segs = none ∧ lookupParent (buildAll D).1 m = none) ∨
    (∃ q pm, par d.segs = some q ∧ lookupParent (buildAll D).1 m = some pm ∧
        pm ∈ (buildAll D).1.mods ∧ pm.path = reprOf q) :=
  lookupParent_spec D _ hv (buildAll_linv D hv hn) m hm d hd hmd

/-- **`child(name)` agrees with the declared tree.**  For a module at the declared path `d` and ANY
    byte string `nm`: if `d.nm` is a declared child, `child(nm)` returns the module at that path
    (with that declaration's stage count); otherwise — in particular when `nm` is only a prefix or
    an extension of a child's name — it fails. -/
theorem children_agree_with_declared_tree (D : List SDecl) (hv : Valid D) (hn : NamesValid D)
    (m : Mod) (hm : m ∈ (buildAll D).1.mods) (d : SDecl) (hd : d ∈ D) (hmd : m.path = reprOf d.segs)
    (nm : List Nat) :
    (∃ dc ∈ kids D d.segs, dc.segs = d.segs ++ [nm] ∧
        ∃ cm ∈ (buildAll D).1.mods, lookupChild (buildAll D).1 m nm = some cm ∧
          cm.path = reprOf dc.segs ∧ cm.stages = dc.stages) ∨
    ((∀ dc ∈ D, dc.segs ≠ d.segs ++ [nm] ∨ par dc.segs ≠ some d.segs) ∧
        lookupChild (buildAll D).1 m nm = none) :=
  lookupChild_spec D _ hv hn (buildAll_linv D hv hn) m hm d hd hmd nm

/-- **The children map is exactly the declared children**: module `m` has an entry under key `nm`
    iff `d.nm` is one of the declared children of `d` (keys are whole last segments). -/
theorem children_map_is_declared_children (D : List SDecl) (hv : Valid D) (hn : NamesValid D)
    (m : Mod) (hm : m ∈ (buildAll D).1.mods) (d : SDecl) (hd : d ∈ D) (hmd : m.path = reprOf d.segs)
    (nm : List Nat) :
    (∃ cid, (m.id, nm, cid) ∈ (buildAll D).1.kids) ↔ ∃ dc ∈ kids D d.segs, dc.segs = d.segs ++ [nm] :=
  kids_keys_spec D _ hv hn (buildAll_linv D hv hn) m hm d hd hmd nm

/-- Module ids are unique, so a `ModuleRef` obtained by a lookup denotes one module. -/
theorem module_ids_unique (D : List SDecl) (hv : Valid D) (hn : NamesValid D) :
    ((buildAll D).1.mods.map (·.id)).Nodup :=
  (buildAll_linv D hv hn).idnd

/-! ## the run: start stages, then events, then tear-down

`ModTree.run` is `Runtime::run` (`start(); dispatch_all(); finish()`) over the kernel model `Rt`,
for an arbitrary event set `E`, arbitrary message handlers `prog`, arbitrary `add_event` calls made
by the start stages (`acts`), any limit / start time in `s0`, any fuel. -/

section run
variable {σ : Type} (E : Rt.ES σ) (prog : Rt.Prog) (fuel : Nat) (acts : Mod → Nat → List Rt.Act)
  (s0 : Rt.State σ) (ms : List Mod)

/-- **`at_sim_end` after the last event.**  In the callback log of a run every `at_sim_end` call
    comes after every callback that is not an `at_sim_end` call: after all start stages, all
    message handlers and all `add_event`s, whatever the message schedule. -/
theorem sim_end_after_last_event (i j : Nat) (m : Mod) (c : Cb)
    (hi : (run E prog fuel acts s0 ms).2[i]? = some (.stop m))
    (hj : (run E prog fuel acts s0 ms).2[j]? = some c) (hc : c.isStop = false) : j < i := by
  obtain ⟨pre, e, hpre, _⟩ := runWith_split E prog fuel acts s0 (startCalls ms) (endCalls ms)
  unfold run at hi hj
  rw [e] at hi hj
  exact getElem?_split pre _ (fun c => c.isStop = true) (fun c hc => by simp [hpre c hc])
    (fun c hc => by obtain ⟨x, _, rfl⟩ := List.mem_map.mp hc; rfl) i j _ c hi rfl hj (by simp [hc])

/-- The `at_sim_end` calls of the run are the module vector, each module once, in order. -/
theorem sim_end_calls_of_run :
    (run E prog fuel acts s0 ms).2.filterMap Cb.stopOf = endCalls ms :=
  runWith_stops E prog fuel acts s0 _ _

/-- The `at_sim_start` calls of the run are `startCalls ms` (so the stage-major / exactly-once
    theorems above speak about the run's log). -/
theorem sim_start_calls_of_run :
    (run E prog fuel acts s0 ms).2.filterMap Cb.startOf = startCalls ms :=
  runWith_starts E prog fuel acts s0 _ _

/-- **All start stages precede the first event**: no message handler runs before the last
    `at_sim_start` call, even if a stage schedules a message for the current instant. -/
theorem start_stages_before_events (i j : Nat) (m : Mod) (stage node time : Nat)
    (hi : (run E prog fuel acts s0 ms).2[i]? = some (.start m stage))
    (hj : (run E prog fuel acts s0 ms).2[j]? = some (.kernel (.handled node time))) : i < j := by
  obtain ⟨l1, rest, e, h1, h2⟩ := runWith_split_start E prog fuel acts s0 (startCalls ms) (endCalls ms)
  unfold run at hi hj
  rw [e] at hi hj
  exact getElem?_split2 l1 rest (fun c => c.startOf ≠ none) (fun c => c.isHandled = true)
    (fun c hc => by simp [h1 c hc]) (fun c hc => by simp [h2 c hc]) i j _ _ hi (by simp [Cb.startOf])
    hj rfl

end run

/-! ## object paths -/

/-- **`appended` then `parent` / `name` / `len`.**  Appending a name to the path of a declared module
    never fails, and the result reports that module as its parent, the name as its name and one
    more level. -/
theorem parent_name_len_appended (s : List (List Nat)) (n : List Nat) (hs : AllValid s)
    (hn : ValidName n) :
    ∃ p', appended (reprOf s) n = .ok p' ∧ ObjPath.parent p' = .ok (some (reprOf s)) ∧
      name p' = .ok n ∧ p'.len = (reprOf s).len + 1 ∧ p'.data = render (s ++ [n]) :=
  ⟨reprOf (s ++ [n]), appended_reprOf s n hn.1, parent_reprOf_snoc s n hs, name_reprOf_snoc s n hn,
    by simp [reprOf_len], reprOf_data _⟩

/-- **`From<&str>` agrees with repeated `appended`** for names without `'.'`. -/
theorem from_str_agrees_with_appended (s : List (List Nat)) (hs : AllValid s) :
    fromStr (render s) = reprOf s :=
  fromStr_render s hs

/-- The depth of a path is its number of segments. -/
theorem len_is_depth (s : List (List Nat)) : (reprOf s).len = s.length := reprOf_len s

/-- **Distinct declared paths are distinct `ObjectPath`s** (so `alice` never matches `alicent`,
    whatever bytes the names share). -/
theorem distinct_paths_distinct (a b : List (List Nat)) (ha : AllValid a) (hb : AllValid b)
    (h : reprOf a = reprOf b) : a = b :=
  reprOf_injective a b ha hb h

/-- `nonzero_parent` is the declared parent module's path (none for top-level modules). -/
theorem nonzero_parent_is_declared_parent (s : List (List Nat)) (hs : AllValid s) :
    nonzeroParent (reprOf s) = .ok ((par s).map reprOf) := by
  rw [nonzeroParent_reprOf s hs]
  unfold par
  split <;> rfl

/-- **`as_parent_str`** of an appended path is the dotted string of the path appended to. -/
theorem as_parent_str_appended (s : List (List Nat)) (n : List Nat) :
    asParentStr (reprOf (s ++ [n])) = .ok (render s) :=
  asParentStr_reprOf_snoc s n

/-- **Gate paths.**  `appended_gate` on a declared module path never fails; the gate path has the
    module as `parent()`, the gate name as `name()`, the module's dotted string as
    `as_parent_str()`, one more level, is not a module path, and nothing can be appended to it. -/
theorem gate_path (s : List (List Nat)) (g x : List Nat) (hs : AllValid s) (hg : ValidName g) :
    ∃ p', appendedGate (reprOf s) g = .ok p' ∧ p'.isGate = true ∧
      ObjPath.parent p' = .ok (some (reprOf s)) ∧ name p' = .ok g ∧
      asParentStr p' = .ok (render s) ∧ p'.len = s.length + 1 ∧ p'.data = render (s ++ [g]) ∧
      appended p' x = .error .gateAppend ∧ appendedGate p' x = .error .gateAppend :=
  ⟨gateOf s g, appendedGate_reprOf s g hg.1, rfl,
    by rw [gateOf, parent_setGate]; exact parent_reprOf_snoc s g hs,
    by rw [gateOf, name_setGate]; exact name_reprOf_snoc s g hg,
    by rw [gateOf, asParentStr_setGate]; exact asParentStr_reprOf_snoc s g,
    by simp [gateOf, reprOf_len], by simp [gateOf, reprOf_data],
    appended_gateOf s g x, appendedGate_gateOf s g x⟩

/-! ## non-vacuity: a concrete declared tree meets all hypotheses

`a`, `a.al` (shares a prefix with its parent's name and with `a.a`), `b`, `b.ä` (two-byte name),
`a.a`, inserted with the children of `a` and `b` interleaved; stage counts 1, 2, 0, 3, 1. -/

def exD : List SDecl :=
  [⟨[[97]], 1⟩, ⟨[[98]], 2⟩, ⟨[[97], [97, 108]], 0⟩, ⟨[[98], [195, 164]], 3⟩, ⟨[[97], [97]], 1⟩]

example : Valid exD ∧ NamesValid exD := by decide
example : (preorder exD).map (·.segs) = [[[97]], [[97], [97, 108]], [[97], [97]], [[98]], [[98], [195, 164]]] := by
  decide
example : (buildAll exD).1.mods.map (·.path.data)
    = [[97], [97, 46, 97, 108], [97, 46, 97], [98], [98, 46, 195, 164]] := by decide
example : (startSpec exD).map (fun c => (c.1.segs, c.2))
    = [([[97]], 0), ([[97], [97]], 0), ([[98]], 0), ([[98], [195, 164]], 0),
       ([[98]], 1), ([[98], [195, 164]], 1), ([[98], [195, 164]], 2)] := by decide
/-- hypotheses of `add_preserves_preorder` / `valid_node_accepted`: one more child of `a` -/
example : Valid (exD ++ [⟨[[97], [195, 164]], 2⟩]) ∧ NamesValid (exD ++ [⟨[[97], [195, 164]], 2⟩]) := by
  decide
/-- hypotheses of `missing_parent_rejected`: `c.x` with no `c` -/
example : AllValid [[99], [120]] ∧ [[99], [120]] ∉ exD.map (·.segs) ∧ par [[99], [120]] = some [[99]]
    ∧ [[99]] ∉ exD.map (·.segs) := by decide
example : node (buildAll exD).1 (render [[99], [120]]) 1 = ((buildAll exD).1, some .noParent) :=
  missing_parent_rejected exD (by decide) (by decide) _ [[99]] (by decide) 1 (by decide) (by decide)
    (by decide)
/-- hypotheses of `order_depends_only_on_sibling_order`: the same tree, parents' children grouped -/
def exD' : List SDecl :=
  [⟨[[97]], 1⟩, ⟨[[97], [97, 108]], 0⟩, ⟨[[97], [97]], 1⟩, ⟨[[98]], 2⟩, ⟨[[98], [195, 164]], 3⟩]
example : Valid exD' ∧ NamesValid exD' ∧ exD ≠ exD' ∧ roots exD = roots exD' := by decide
/-- hypotheses of `parent_name_len_appended`: `alice` + `alicent`-style shared prefix, multi-byte name -/
example : AllValid [[97, 108], [97, 108, 105]] ∧ ValidName [230, 151, 165] := by decide

/-- hypotheses of the lookup theorems: the module of `a` in the built `exD`; its children map has
    the keys `al` and `a`, and `child("a")` is `a.a`, not `a.al` -/
example : ∃ m ∈ (buildAll exD).1.mods, m.path = reprOf [[97]] ∧
    ((lookupChild (buildAll exD).1 m [97]).map (·.path.data)) = some [97, 46, 97] ∧
    ((lookupChild (buildAll exD).1 m [97, 108]).map (·.path.data)) = some [97, 46, 97, 108] ∧
    lookupChild (buildAll exD).1 m [97, 108, 105] = none ∧ lookupParent (buildAll exD).1 m = none := by
  decide
example : ∃ m ∈ (buildAll exD).1.mods, m.path = reprOf [[98], [195, 164]] ∧
    ((lookupParent (buildAll exD).1 m).map (·.path.data)) = some [98] := by decide
/-- a run with messages: `b` schedules a self-message in each of its two stages; the log has starts,
    then two handled events, then five `stop`s -/
example : ((run Rt.fesES [] 10 (fun m st => if m.path.data = [98] then [⟨false, st + 1, m.id⟩] else [])
    (Rt.build FES.init 0 .none) (buildAll exD).1.mods).2.map
      (fun c => match c with | .start _ _ => 0 | .kernel (.handled _ _) => 1 | .kernel _ => 2 | .stop _ => 3))
    = [0, 0, 0, 2, 0, 0, 2, 0, 0, 1, 1, 3, 3, 3, 3, 3] := by decide

/-- a script with rejected calls interleaved: `a`, `a` again (dup), `c.x` (no `c`), `a.al`, `a.al.b`,
    `b.q` (no `b`), `a.al` again (dup) -/
def exScript : List SDecl :=
  [⟨[[97]], 1⟩, ⟨[[97]], 2⟩, ⟨[[99], [120]], 1⟩, ⟨[[97], [97, 108]], 0⟩, ⟨[[97], [97, 108], [98]], 3⟩,
   ⟨[[98], [113]], 1⟩, ⟨[[97], [97, 108]], 1⟩]
example : NamesValid exScript ∧ (declareAll [] exScript).2 = [.ok, .dup, .noParent, .ok, .ok, .noParent, .dup]
    ∧ (runScript {} exScript).2 = [none, some .dup, some .noParent, none, none, some .noParent, some .dup]
    ∧ (runScript {} exScript).1.mods.map (·.path.data) = [[97], [97, 46, 97, 108], [97, 46, 97, 108, 46, 98]] := by
  decide
example : teardown (buildAll exD).1 = [0, 2, 4, 1, 3] := by decide
/-- failing tear-down callbacks in the middle of the tree: `a.al` reports 2 errors, `b` 1 -/
example : ((endErrors (fun m => if m.path.data = [97, 46, 97, 108] then 2 else if m.path.data = [98] then 1 else 0)
    (endCalls (buildAll exD).1.mods)).map (fun e => (e.1.path.data, e.2)))
    = [([97, 46, 97, 108], 0), ([97, 46, 97, 108], 1), ([98], 0)] := by decide

end C12

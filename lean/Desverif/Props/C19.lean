/-
C19 — topology views mirror the gate graph.

Only property theorems live here.  `Topo` is the model of `des/src/net/topology.rs`
(Model/Topo.lean) over the gate model of C08; work-lists are popped from the front, i.e. the code
with the repair of finding F8 (`patches/C19-topology-fifo-worklists.diff`); `Pop.back` is the code
before the repair and is shown wrong on a triangle (`*_lifo_witness`).
Statements quantify over every world: any gate wiring, any number of modules and gates, any order.
-/
import Desverif.Proofs.TopoSpan
import Desverif.Proofs.GateWalk
import Desverif.Proofs.TopoConnected
import Desverif.Proofs.TopoFilter
import Desverif.Proofs.TopoDijkstra
import Desverif.Proofs.TopoOrder
namespace C19
open Topo Gate

/-- the far end of the chain starting on gate `g` -/
def far (w : World) (g : Nat) : Nat := chainEnd w none g

/-- `from_modules` follows at most 16 hops; on chains of at most 16 hops that is the far end -/
theorem capped_end_eq_far (w : World) (g : Nat) (hcap : (walk w.net w.ngates g true).length ≤ 16) :
    chainEnd w (some 16) g = far w g := by
  simp only [chainEnd, far, List.take_of_length_le hcap]

/-- **global view, edges.** Node `i` of `Topology::current()` / `from_modules(mods)` carries exactly
    one edge per endpoint gate of module `mods[i]` whose chain ends inside `mods`, in gate order,
    labelled with that gate and the far end of its chain, leading to the node of the far end's owner
    (chains of at most 16 hops). -/
theorem from_modules_one_edge_per_endpoint (w : World) (mods : List Nat)
    (hcap : ∀ g, (walk w.net w.ngates g true).length ≤ 16) (i m : Nat) (hi : mods[i]? = some m) :
    (fromModules w mods).nodes = mods ∧
    (fromModules w mods).edgesAt i = (w.gates m).filterMap fun g =>
      if kind w.net g = .endpoint then
        (indexOf mods (w.owner (far w g))).map fun dst => ⟨dst, g, far w g⟩
      else none := by
  refine ⟨rfl, ?_⟩
  simp only [T.edgesAt, fromModules, List.getD_eq_getElem?_getD, List.getElem?_map, hi, Option.map_some,
    Option.getD_some]
  congr 1
  funext g
  by_cases hk : kind w.net g = .endpoint
  · simp only [hk, if_true, capped_end_eq_far w g (hcap g)]
    cases indexOf mods (w.owner (far w g)) <;> rfl
  · simp only [hk, if_false]

/-- **global view, destinations.** Every edge leads to the node of the module that owns its end gate,
    and all stored indices are in range. -/
theorem from_modules_dst_is_owner (w : World) (mods : List Nat) :
    (fromModules w mods).WF ∧
    ∀ i, ∀ e ∈ (fromModules w mods).edgesAt i, mods[e.dst]? = some (w.owner e.stop) := by
  have key : ∀ m, ∀ e ∈ ((w.gates m).filterMap fun g =>
      if kind w.net g = .endpoint then
        match indexOf mods (w.owner (chainEnd w (some 16) g)) with
        | some dst => some (Edge.mk dst g (chainEnd w (some 16) g))
        | none => none
      else none), mods[e.dst]? = some (w.owner e.stop) := by
    intro m e he
    obtain ⟨g, _, hg⟩ := List.mem_filterMap.mp he
    by_cases hk : kind w.net g = .endpoint
    · simp only [hk, if_true] at hg
      cases hx : indexOf mods (w.owner (chainEnd w (some 16) g)) with
      | none => rw [hx] at hg; cases hg
      | some dst => rw [hx] at hg; cases hg; exact indexOf_some hx
    · simp only [hk, if_false] at hg; cases hg
  constructor
  · refine ⟨by simp [fromModules], ?_⟩
    intro es hes e he
    simp only [fromModules, List.mem_map] at hes
    obtain ⟨m, _, rfl⟩ := hes
    have := key m e he
    show e.dst < mods.length
    by_cases hh : e.dst < mods.length
    · exact hh
    · rw [List.getElem?_eq_none (by omega)] at this; cases this
  · intro i e he
    simp only [T.edgesAt, fromModules, List.getD_eq_getElem?_getD, List.getElem?_map] at he
    cases hm : mods[i]? with
    | none => rw [hm] at he; simp at he
    | some m => rw [hm] at he; exact key m e he

/-- **the edge set does not depend on the order of the module list.** Read with module names
    instead of node indices — (from module, start gate, end gate, to module), as the views are
    printed — `from_modules` over any two orders of the same modules (creation order, `ModuleTree`
    order, …) yields the same edges up to order; and the named edges are exactly, module by module
    and gate by gate, the endpoint gates whose chain ends on one of the modules. -/
theorem from_modules_edge_set_independent_of_module_order (w : World) (mods mods' : List Nat)
    (hp : mods.Perm mods') :
    (fromModules w mods).named = (mods.map (namedOf w mods)).flatten ∧
    ((fromModules w mods).named).Perm ((fromModules w mods').named) := by
  refine ⟨fromModules_named w mods, ?_⟩
  rw [fromModules_named, fromModules_named]
  have hsame : namedOf w mods = namedOf w mods' := by
    funext m
    unfold namedOf
    apply filterMap_congr''
    intro g _
    by_cases hk : kind w.net g = .endpoint
    · simp only [hk, if_true, hp.mem_iff]
    · simp only [hk, if_false]
  rw [hsame]
  exact (hp.map _).flatten

/-- **every extraction shows the wiring of its moment.** `Topology::current()` / `Globals::topology()`
    computes `from_modules` afresh from the gate slots: a view extracted when the wiring is `netAt τ`
    is the view of a simulation that was wired like that from the start — whatever was extracted or
    connected before (all statements about `from_modules` apply with `net := netAt τ`). -/
theorem current_at_time_is_from_modules_of_that_wiring (w : World) (netAt : Nat → Net) (τ : Nat)
    (hcap : ∀ g, (walk (netAt τ) w.ngates g true).length ≤ 16) (i m : Nat) (hi : w.mods[i]? = some m) :
    (current { w with net := netAt τ }).nodes = w.mods ∧
    (current { w with net := netAt τ }).edgesAt i = (w.gates m).filterMap fun g =>
      if kind (netAt τ) g = .endpoint then
        (indexOf w.mods (w.owner (far { w with net := netAt τ } g))).map fun dst =>
          ⟨dst, g, far { w with net := netAt τ } g⟩
      else none :=
  from_modules_one_edge_per_endpoint { w with net := netAt τ } w.mods hcap i m hi

/-- `spanned` terminates within its fuel (every module enters the work-list at most once) -/
theorem spanned_terminates (w : World) (root : Nat) (hroot : root ∈ w.mods)
    (hown : ∀ g, w.owner g ∈ w.mods) : ∃ t, spanned w .front root = some t := by
  apply spanLoop_total w root hown
  · exact ⟨rfl, by intro x hx; simp at hx; subst hx; exact Reach.refl, rfl, by simp, by simp,
      by intro i m h; simp at h⟩
  · intro x hx; simp at hx; subst hx; exact hroot
  · simp

/-- **spanned view, edges.** In `Topology::spanned(root)` the root is node 0, no module occurs twice,
    node `i` carries exactly one edge per endpoint gate of its module, in gate order, labelled with
    that gate and the far end of its chain, and every edge's `dst` is the index of the node of the
    module that owns the far end (the predicted indices are exact); all indices are in range. -/
theorem spanned_edges_correct (w : World) (root : Nat) (t : T) (h : spanned w .front root = some t) :
    t.WF ∧ t.nodes.Nodup ∧ t.nodes.head? = some root ∧
    (∀ i m, t.nodes[i]? = some m →
      (t.edgesAt i).map (fun e => (e.start, e.stop)) =
        ((w.gates m).filter fun g => kind w.net g = .endpoint).map fun g => (g, far w g)) ∧
    (∀ i, ∀ e ∈ t.edgesAt i, t.nodes[e.dst]? = some (w.owner e.stop)) := by
  have inv := spanned_inv w root t h
  have hpred : ∀ es ∈ t.edges, ∀ e ∈ es, t.nodes[e.dst]? = some (w.owner e.stop) := by
    intro es hes e he
    have := inv.pred es hes e he
    simpa [Pred] using this
  refine ⟨⟨inv.len, ?_⟩, by simpa using inv.nodup, by simpa using inv.first, ?_, ?_⟩
  · intro es hes e he
    have := hpred es hes e he
    by_cases hh : e.dst < t.nodes.length
    · exact hh
    · rw [List.getElem?_eq_none (by omega)] at this; cases this
  · intro i m hi
    exact inv.labels i m hi
  · intro i e he
    simp only [T.edgesAt, List.getD_eq_getElem?_getD] at he
    cases hb : t.edges[i]? with
    | none => rw [hb] at he; simp at he
    | some es =>
      rw [hb] at he
      exact hpred es (List.mem_of_getElem? hb) e he

/-- **spanned view, nodes.** The nodes of `Topology::spanned(root)` are exactly the modules
    reachable from `root` along gate chains. -/
theorem spanned_nodes_eq_reachable (w : World) (root : Nat) (t : T)
    (h : spanned w .front root = some t) (x : Nat) : x ∈ t.nodes ↔ Reach w root x := by
  have inv := spanned_inv w root t h
  obtain ⟨_, _, hhead, hlab, hdst⟩ := spanned_edges_correct w root t h
  constructor
  · intro hx; exact inv.reach x (by simpa using hx)
  · intro hr
    induction hr with
    | refl => exact List.mem_of_mem_head? hhead
    | @step a b _ hstep ih =>
      obtain ⟨g, hg, hk, hb⟩ := hstep
      obtain ⟨i, hi⟩ := List.getElem?_of_mem ih
      have hl := hlab i a hi
      have hmem : (g, far w g) ∈ ((w.gates a).filter fun g => kind w.net g = .endpoint).map fun g => (g, far w g) :=
        List.mem_map.mpr ⟨g, List.mem_filter.mpr ⟨hg, by simpa using hk⟩, rfl⟩
      rw [← hl] at hmem
      obtain ⟨e, he, hee⟩ := List.mem_map.mp hmem
      have hd := hdst i e he
      have hs : e.stop = far w g := by simpa using congrArg Prod.snd hee
      rw [hs] at hd
      rw [hb]
      exact List.mem_of_getElem? hd

/-- `bidirectional` holds exactly if every edge has an edge back from its destination node -/
theorem bidirectional_iff (t : T) :
    bidirectional t = true ↔
      ∀ src, src < t.edges.length → ∀ e ∈ t.edgesAt src, ∃ e' ∈ t.edgesAt e.dst, e'.dst = src := by
  simp only [bidirectional, List.all_eq_true, List.any_eq_true, List.mem_range, beq_iff_eq]

/-- **connected.** `connected()` — one depth-first search per start node, comparing the number of
    visited nodes with the number of nodes — returns true exactly if every node reaches every node
    (strong connectivity), for every well-formed topology. -/
theorem connected_iff_strongly_connected (t : T) (hwf : t.WF) :
    connected t = true ↔ ∀ a b, a < t.nodes.length → b < t.nodes.length → t.Reach a b := by
  simp only [connected, List.all_eq_true, List.mem_range, beq_iff_eq]
  constructor
  · intro h a b ha hb
    obtain ⟨hnd, hlt, hiff⟩ := visit_reachable t hwf a ha
    exact (hiff b).mp ((full_of_length hnd hlt).mp (h a ha) b hb)
  · intro h a ha
    obtain ⟨hnd, hlt, hiff⟩ := visit_reachable t hwf a ha
    exact (full_of_length hnd hlt).mpr (fun j hj => (hiff j).mpr (h a j ha hj))

/-- each depth-first search of `connected()` visits exactly the nodes reachable from its start
    node, each once (and never runs out of its depth budget) -/
theorem connected_visit_eq_reachable (t : T) (hwf : t.WF) (start : Nat) (hs : start < t.nodes.length) :
    (visit t (t.nodes.length + 1) start []).Nodup ∧
    ∀ x, x ∈ visit t (t.nodes.length + 1) start [] ↔ t.Reach start x :=
  ⟨(visit_reachable t hwf start hs).1, (visit_reachable t hwf start hs).2.2⟩

/-- **filter_nodes.** For every well-formed topology and every predicate: the kept nodes are the
    selected nodes in their old order; the result is well-formed; the node that had index `i` gets
    index `rank i` (= number of selected nodes before it), every new index arises this way, and its
    edges are exactly its old edges whose destination is selected, in order, with the destination
    re-indexed by `rank` (so they still lead to the same module). -/
theorem filter_keeps_selected_and_induced_edges (t : T) (hwf : t.WF) (f : Nat → Bool) :
    (filterNodes t f).nodes = t.nodes.filter f ∧ (filterNodes t f).WF ∧
    (∀ i m, t.nodes[i]? = some m → f m = true →
      (filterNodes t f).nodes[rank t f i]? = some m ∧
      (filterNodes t f).edgesAt (rank t f i) =
        (t.edgesAt i).filterMap fun e =>
          if f (t.nodes.getD e.dst 0) then some { e with dst := rank t f e.dst } else none) ∧
    (∀ i', i' < (filterNodes t f).nodes.length →
      ∃ i m, t.nodes[i]? = some m ∧ f m = true ∧ rank t f i = i') := by
  have hn : (filterNodes t f).nodes = t.nodes.filter f := by rw [filterNodes_eq t hwf f]
  refine ⟨hn, filterNodes_wf t hwf f, ?_, ?_⟩
  · intro i m hi hm
    refine ⟨by rw [hn]; exact filterNodes_node t f i m hi hm, ?_⟩
    rw [filterNodes_bundle t hwf f i m hi hm]
    rfl
  · intro i' hi'
    rw [hn] at hi'
    obtain ⟨i, x, h1, h2, h3⟩ := rank_surj f t.nodes i' hi'
    exact ⟨i, x, h1, h2, h3⟩

/-- **filter_edges.** Nodes (and their order and indices) are unchanged, every node keeps exactly
    the edges the predicate selects, in their old order, and well-formedness is preserved; an edge
    relation of the filtered view is an edge of the original that the predicate selected. -/
theorem filter_edges_keeps_exactly_selected (t : T) (f : FullEdge → Bool) :
    (filterEdges t f).nodes = t.nodes ∧
    (∀ i, (filterEdges t f).edgesAt i = (t.edgesAt i).filter fun e => f ⟨i, e⟩) ∧
    (t.WF → (filterEdges t f).WF) ∧
    (∀ a b, (filterEdges t f).Adj a b ↔ ∃ e ∈ t.edgesAt a, e.dst = b ∧ f ⟨a, e⟩ = true) := by
  have hat : ∀ i, (filterEdges t f).edgesAt i = (t.edgesAt i).filter fun e => f ⟨i, e⟩ := by
    intro i
    simp only [T.edgesAt, filterEdges, List.getD_eq_getElem?_getD, List.getElem?_mapIdx]
    cases t.edges[i]? <;> simp
  refine ⟨rfl, hat, ?_, ?_⟩
  · intro hwf
    refine ⟨by simp [filterEdges, hwf.1], ?_⟩
    intro es hes e he
    simp only [filterEdges, List.mem_mapIdx] at hes
    obtain ⟨i, hi, rfl⟩ := hes
    exact hwf.2 _ (List.getElem_mem hi) e (List.mem_filter.mp he).1
  · intro a b
    simp only [T.Adj, hat, List.mem_filter]
    constructor
    · rintro ⟨e, ⟨he, hf⟩, hb⟩; exact ⟨e, he, hb, hf⟩
    · rintro ⟨e, he, hb, hf⟩; exact ⟨e, ⟨he, hf⟩, hb⟩

/-- **dijkstra.** With the first-in first-out work-list, for every well-formed topology:
    an unknown source is refused; otherwise the loop terminates within its fuel and the result has
    one entry per node `j ≠ source` reachable from the source and no other entry; the entry of `j` is
    an edge that leaves the source node and is the first edge of a walk from the source to `j` of
    minimum hop count (`d + 1` hops, and no walk to `j` is shorter). -/
theorem dijkstra_first_edge_of_min_hop_path (t : T) (hwf : t.WF) (src : Nat) :
    (indexOf t.nodes src = none → dijkstra t .front src = none) ∧
    ∀ s, indexOf t.nodes src = some s →
      ∃ L : List (Nat × FullEdge),
        dijkstra t .front src = some (L.map fun entry => (t.nodes.getD entry.1 0, entry.2)) ∧
        (L.map (·.1)).Nodup ∧
        (∀ j fe, (j, fe) ∈ L → j ≠ s ∧ fe.src = s ∧ fe.e ∈ t.edgesAt s ∧
          ∃ d, t.Walk fe.e.dst j d ∧ t.Walk s j (d + 1) ∧ ∀ m, t.Walk s j m → d + 1 ≤ m) ∧
        (∀ j, j ≠ s → t.Reach s j → ∃ fe, (j, fe) ∈ L) := by
  constructor
  · intro h; simp [dijkstra, h]
  · intro s hs
    have hslt : s < t.nodes.length := by
      have := indexOf_some hs
      by_cases h : s < t.nodes.length
      · exact h
      · rw [List.getElem?_eq_none (by omega)] at this; cases this
    have hfuel : [QE.mk s 0 none].length + usum t (List.range t.nodes.length) [] + 1 ≤ t.size + 2 := by
      rw [← hwf.1, usum_nil]; simp; omega
    obtain ⟨V', M', hrun, hinv⟩ := dijkstraLoop_spec t hwf s (t.size + 2) [] [⟨s, 0, none⟩] []
      (dinv_init t s hslt) hfuel
    refine ⟨M', by simp [dijkstra, hs, hrun], hinv.mkeys, ?_, ?_⟩
    · intro j fe hmem
      obtain ⟨_, hne, h1, h2, d, h3, h4, h5⟩ := hinv.mgood (j, fe) hmem
      exact ⟨hne, h1, h2, d, h3, h4, h5⟩
    · intro j hjs ⟨m, hm⟩
      rcases hinv.cover hm with hv | ⟨q, hq, _⟩
      · exact hinv.mall j hv hjs
      · simp at hq

/-- the breadth-first level structure behind `dijkstra_first_edge_of_min_hop_path`: the loop
    invariant (queue sorted by distance, at most two consecutive levels, …) is preserved when the
    front element is skipped or visited -/
theorem dijkstra_level_invariant (t : T) (hwf : t.WF) (s : Nat) (V : List Nat) (cur : QE) (rest : List QE)
    (M : List (Nat × FullEdge)) (h : DInv t s V (cur :: rest) M) :
    (cur.idx ∈ V → DInv t s V rest M) ∧
    (cur.idx ∉ V → DInv t s (V ++ [cur.idx]) (rest ++ pushes t (V ++ [cur.idx]) cur) (newMapping M cur)) :=
  ⟨fun hv => h.skip hv, fun hv => h.visit hwf hv⟩

/-! ### the code before the repair (work-lists popped from the back) is wrong -/

/-- triangle m0–m1 (gates 0,1), m0–m2 (gates 2,3), m2–m1 (gates 4,5) -/
def tri : World :=
  { net := connectAll Net.empty [(0, 1, none), (2, 3, none), (4, 5, none)]
    ngates := 6
    mods := [0, 1, 2]
    gates := fun m => match m with | 0 => [0, 2] | 1 => [1, 5] | 2 => [3, 4] | _ => []
    owner := fun g => match g with | 0 => 0 | 2 => 0 | 1 => 1 | 5 => 1 | _ => 2 }

/-- with a stack as work-list, `spanned(m0)` returns edges of the root that point at the wrong node:
    the edge that ends on gate 1 (module m1) leads to the node of module m2 -/
theorem spanned_lifo_witness :
    ∃ t, spanned tri .back 0 = some t ∧
      ∃ e ∈ t.edgesAt 0, t.nodes[e.dst]? ≠ some (tri.owner e.stop) := by
  refine ⟨_, rfl, ⟨1, 0, 1⟩, by decide, by decide⟩

/-- with a stack as work-list, `dijkstra(m0)` reports m1 via the link to m2 although m0–m1 is a
    direct link (a 2-hop route where a 1-hop route exists) -/
theorem dijkstra_lifo_witness :
    dijkstra (current tri) .back 0 = some [(2, ⟨0, ⟨2, 2, 3⟩⟩), (1, ⟨0, ⟨2, 2, 3⟩⟩)] ∧
    (⟨1, 0, 1⟩ : Edge) ∈ (current tri).edgesAt 0 := by
  constructor <;> decide

/-! ### non-vacuity -/

example : spanned tri .front 0 = some ⟨[0, 1, 2], [[⟨1, 0, 1⟩, ⟨2, 2, 3⟩], [⟨0, 1, 0⟩, ⟨2, 5, 4⟩], [⟨0, 3, 2⟩, ⟨1, 4, 5⟩]]⟩ := by
  decide
example : dijkstra (current tri) .front 0 = some [(1, ⟨0, ⟨1, 0, 1⟩⟩), (2, ⟨0, ⟨2, 2, 3⟩⟩)] := by decide
example : ∀ g, g < 6 → (walk tri.net tri.ngates g true).length ≤ 16 := by decide
example : bidirectional (current tri) = true ∧ connected (current tri) = true := by decide
example : Reach tri 0 2 := Reach.step Reach.refl ⟨2, by decide, by decide, by decide⟩

example : (current tri).WF := by decide
example : (filterNodes (current tri) (fun m => m != 1)).nodes = [0, 2] ∧
    (filterNodes (current tri) (fun m => m != 1)).edges = [[⟨1, 2, 3⟩], [⟨0, 3, 2⟩]] := by decide
example : rank (current tri) (fun m => m != 1) 2 = 1 := by decide
example : (current tri).Reach 0 2 := ⟨1, T.Walk.step T.Walk.refl ⟨⟨2, 2, 3⟩, by decide, rfl⟩⟩
example : indexOf (current tri).nodes 0 = some 0 := by decide

/-- keeping only edges towards a higher node index makes the triangle asymmetric: node 0 still
    reaches everything, but the view is neither bidirectional nor (strongly) connected -/
example : bidirectional (filterEdges (current tri) fun fe => fe.src < fe.e.dst) = false ∧
    connected (filterEdges (current tri) fun fe => fe.src < fe.e.dst) = false ∧
    (visit (filterEdges (current tri) fun fe => fe.src < fe.e.dst) 4 0 []).length = 3 := by decide
/-- one direction of the ring 0 → 1 → 2 → 0 is connected although not bidirectional -/
example : connected (filterEdges (current tri) fun fe => fe.e.dst = (fe.src + 1) % 3) = true ∧
    bidirectional (filterEdges (current tri) fun fe => fe.e.dst = (fe.src + 1) % 3) = false := by decide

/-- `ModuleTree` order: m0, m1, then m2 as a child of m0 gives [m0, m2, m1] -/
example : ((treeAdd [] 0 none).bind (treeAdd · 1 none)).bind (treeAdd · 2 (some 0)) =
    some [⟨0, 1, none⟩, ⟨2, 2, some 0⟩, ⟨1, 1, none⟩] := by decide
example : ((fromModules tri [0, 1, 2]).named).Perm ((fromModules tri [2, 0, 1]).named) :=
  (from_modules_edge_set_independent_of_module_order tri [0, 1, 2] [2, 0, 1] (by decide)).2

end C19

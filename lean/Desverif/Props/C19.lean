/-
C19 — topology views mirror the gate graph.

Only property theorems live here.  `Topo` is the model of `des/src/net/topology.rs`
(Model/Topo.lean) over the gate model of C08; work-lists are popped from the front, i.e. the code
with the repair of finding F8 (`patches/C19-topology-fifo-worklists.diff`); `Pop.back` is the code
before the repair and is shown wrong on a triangle (`*_lifo_witness`).
Statements quantify over every world: any gate wiring, any number of modules and gates, any order.
-/
import Desverif.Proofs.TopoSpan
import Desverif.Proofs.GateWalk
namespace C19
open Topo Gate

/-- the far end of the chain starting on gate `g` -/
def far (w : World) (g : Nat) : Nat := chainEnd w none g

/-- `from_modules` follows at most 16 hops; on chains of at most 16 hops that is the far end -/
theorem capped_end_eq_far (w : World) (g : Nat) (hcap : (walk w.net w.ngates g true).length ≤ 16) :
    chainEnd w (some 16) g = far w g := by
  simp only [chainEnd, far, List.take_of_length_le hcap]

/-- **global view, edges.** Node `i` of `Topology::current()` / `from_modules(mods)` carries exactly
    one edge per endpoint gate of module `mods[i]` whose chain ends inside `mods`, in gate order,
    labelled with that gate and the far end of its chain, leading to the node of the far end's owner
    (chains of at most 16 hops). -/
theorem from_modules_one_edge_per_endpoint (w : World) (mods : List Nat)
    (hcap : ∀ g, (walk w.net w.ngates g true).length ≤ 16) (i m : Nat) (hi : mods[i]? = some m) :
    (fromModules w mods).nodes = mods ∧
    (fromModules w mods).edgesAt i = (w.gates m).filterMap fun g =>
      if kind w.net g = .endpoint then
        (indexOf mods (w.owner (far w g))).map fun dst => ⟨dst, g, far w g⟩
      else none := by
  refine ⟨rfl, ?_⟩
  simp only [T.edgesAt, fromModules, List.getD_eq_getElem?_getD, List.getElem?_map, hi, Option.map_some,
    Option.getD_some]
  congr 1
  funext g
  by_cases hk : kind w.net g = .endpoint
  · simp only [hk, if_true, capped_end_eq_far w g (hcap g)]
    cases indexOf mods (w.owner (far w g)) <;> rfl
  · simp only [hk, if_false]

/-- **global view, destinations.** Every edge leads to the node of the module that owns its end gate,
    and all stored indices are in range. -/
theorem from_modules_dst_is_owner (w : World) (mods : List Nat) :
    (fromModules w mods).WF ∧
    ∀ i, ∀ e ∈ (fromModules w mods).edgesAt i, mods[e.dst]? = some (w.owner e.stop) := by
  have key : ∀ m, ∀ e ∈ ((w.gates m).filterMap fun g =>
      if kind w.net g = .endpoint then
        match indexOf mods (w.owner (chainEnd w (some 16) g)) with
        | some dst => some (Edge.mk dst g (chainEnd w (some 16) g))
        | none => none
      else none), mods[e.dst]? = some (w.owner e.stop) := by
    intro m e he
    obtain ⟨g, _, hg⟩ := List.mem_filterMap.mp he
    by_cases hk : kind w.net g = .endpoint
    · simp only [hk, if_true] at hg
      cases hx : indexOf mods (w.owner (chainEnd w (some 16) g)) with
      | none => rw [hx] at hg; cases hg
      | some dst => rw [hx] at hg; cases hg; exact indexOf_some hx
    · simp only [hk, if_false] at hg; cases hg
  constructor
  · refine ⟨by simp [fromModules], ?_⟩
    intro es hes e he
    simp only [fromModules, List.mem_map] at hes
    obtain ⟨m, _, rfl⟩ := hes
    have := key m e he
    show e.dst < mods.length
    by_cases hh : e.dst < mods.length
    · exact hh
    · rw [List.getElem?_eq_none (by omega)] at this; cases this
  · intro i e he
    simp only [T.edgesAt, fromModules, List.getD_eq_getElem?_getD, List.getElem?_map] at he
    cases hm : mods[i]? with
    | none => rw [hm] at he; simp at he
    | some m => rw [hm] at he; exact key m e he

/-- `spanned` terminates within its fuel (every module enters the work-list at most once) -/
theorem spanned_terminates (w : World) (root : Nat) (hroot : root ∈ w.mods)
    (hown : ∀ g, w.owner g ∈ w.mods) : ∃ t, spanned w .front root = some t := by
  apply spanLoop_total w root hown
  · exact ⟨rfl, by intro x hx; simp at hx; subst hx; exact Reach.refl, rfl, by simp, by simp,
      by intro i m h; simp at h⟩
  · intro x hx; simp at hx; subst hx; exact hroot
  · simp

/-- **spanned view, edges.** In `Topology::spanned(root)` the root is node 0, no module occurs twice,
    node `i` carries exactly one edge per endpoint gate of its module, in gate order, labelled with
    that gate and the far end of its chain, and every edge's `dst` is the index of the node of the
    module that owns the far end (the predicted indices are exact); all indices are in range. -/
theorem spanned_edges_correct (w : World) (root : Nat) (t : T) (h : spanned w .front root = some t) :
    t.WF ∧ t.nodes.Nodup ∧ t.nodes.head? = some root ∧
    (∀ i m, t.nodes[i]? = some m →
      (t.edgesAt i).map (fun e => (e.start, e.stop)) =
        ((w.gates m).filter fun g => kind w.net g = .endpoint).map fun g => (g, far w g)) ∧
    (∀ i, ∀ e ∈ t.edgesAt i, t.nodes[e.dst]? = some (w.owner e.stop)) := by
  have inv := spanned_inv w root t h
  have hpred : ∀ es ∈ t.edges, ∀ e ∈ es, t.nodes[e.dst]? = some (w.owner e.stop) := by
    intro es hes e he
    have := inv.pred es hes e he
    simpa [Pred] using this
  refine ⟨⟨inv.len, ?_⟩, by simpa using inv.nodup, by simpa using inv.first, ?_, ?_⟩
  · intro es hes e he
    have := hpred es hes e he
    by_cases hh : e.dst < t.nodes.length
    · exact hh
    · rw [List.getElem?_eq_none (by omega)] at this; cases this
  · intro i m hi
    exact inv.labels i m hi
  · intro i e he
    simp only [T.edgesAt, List.getD_eq_getElem?_getD] at he
    cases hb : t.edges[i]? with
    | none => rw [hb] at he; simp at he
    | some es =>
      rw [hb] at he
      exact hpred es (List.mem_of_getElem? hb) e he

/-- **spanned view, nodes.** The nodes of `Topology::spanned(root)` are exactly the modules
    reachable from `root` along gate chains. -/
theorem spanned_nodes_eq_reachable (w : World) (root : Nat) (t : T)
    (h : spanned w .front root = some t) (x : Nat) : x ∈ t.nodes ↔ Reach w root x := by
  have inv := spanned_inv w root t h
  obtain ⟨_, _, hhead, hlab, hdst⟩ := spanned_edges_correct w root t h
  constructor
  · intro hx; exact inv.reach x (by simpa using hx)
  · intro hr
    induction hr with
    | refl => exact List.mem_of_mem_head? hhead
    | @step a b _ hstep ih =>
      obtain ⟨g, hg, hk, hb⟩ := hstep
      obtain ⟨i, hi⟩ := List.getElem?_of_mem ih
      have hl := hlab i a hi
      have hmem : (g, far w g) ∈ ((w.gates a).filter fun g => kind w.net g = .endpoint).map fun g => (g, far w g) :=
        List.mem_map.mpr ⟨g, List.mem_filter.mpr ⟨hg, by simpa using hk⟩, rfl⟩
      rw [← hl] at hmem
      obtain ⟨e, he, hee⟩ := List.mem_map.mp hmem
      have hd := hdst i e he
      have hs : e.stop = far w g := by simpa using congrArg Prod.snd hee
      rw [hs] at hd
      rw [hb]
      exact List.mem_of_getElem? hd

/-- `bidirectional` holds exactly if every edge has an edge back from its destination node -/
theorem bidirectional_iff (t : T) :
    bidirectional t = true ↔
      ∀ src, src < t.edges.length → ∀ e ∈ t.edgesAt src, ∃ e' ∈ t.edgesAt e.dst, e'.dst = src := by
  simp only [bidirectional, List.all_eq_true, List.any_eq_true, List.mem_range, beq_iff_eq]

/-! ### the code before the repair (work-lists popped from the back) is wrong -/

/-- triangle m0–m1 (gates 0,1), m0–m2 (gates 2,3), m2–m1 (gates 4,5) -/
def tri : World :=
  { net := connectAll Net.empty [(0, 1, none), (2, 3, none), (4, 5, none)]
    ngates := 6
    mods := [0, 1, 2]
    gates := fun m => match m with | 0 => [0, 2] | 1 => [1, 5] | 2 => [3, 4] | _ => []
    owner := fun g => match g with | 0 => 0 | 2 => 0 | 1 => 1 | 5 => 1 | _ => 2 }

/-- with a stack as work-list, `spanned(m0)` returns edges of the root that point at the wrong node:
    the edge that ends on gate 1 (module m1) leads to the node of module m2 -/
theorem spanned_lifo_witness :
    ∃ t, spanned tri .back 0 = some t ∧
      ∃ e ∈ t.edgesAt 0, t.nodes[e.dst]? ≠ some (tri.owner e.stop) := by
  refine ⟨_, rfl, ⟨1, 0, 1⟩, by decide, by decide⟩

/-- with a stack as work-list, `dijkstra(m0)` reports m1 via the link to m2 although m0–m1 is a
    direct link (a 2-hop route where a 1-hop route exists) -/
theorem dijkstra_lifo_witness :
    dijkstra (current tri) .back 0 = some [(2, ⟨0, ⟨2, 2, 3⟩⟩), (1, ⟨0, ⟨2, 2, 3⟩⟩)] ∧
    (⟨1, 0, 1⟩ : Edge) ∈ (current tri).edgesAt 0 := by
  constructor <;> decide

/-! ### non-vacuity -/

example : spanned tri .front 0 = some ⟨[0, 1, 2], [[⟨1, 0, 1⟩, ⟨2, 2, 3⟩], [⟨0, 1, 0⟩, ⟨2, 5, 4⟩], [⟨0, 3, 2⟩, ⟨1, 4, 5⟩]]⟩ := by
  decide
example : dijkstra (current tri) .front 0 = some [(1, ⟨0, ⟨1, 0, 1⟩⟩), (2, ⟨0, ⟨2, 2, 3⟩⟩)] := by decide
example : ∀ g, g < 6 → (walk tri.net tri.ngates g true).length ≤ 16 := by decide
example : bidirectional (current tri) = true ∧ connected (current tri) = true := by decide
example : Reach tri 0 2 := Reach.step Reach.refl ⟨2, by decide, by decide, by decide⟩

end C19

/-
C03 — Equal-timestamp events are dispatched in a deterministic scheduling order.

The tie rule is the one of the abstract event set `FES.fetch` (Spec/FES.lean): events scheduled for
the current instant (FIFO `zero`) first, then the `(time, scheduling-id)` minimum of all other
pending events.  `C01.model_refines_spec` transports it to the calendar queue for every `(n,t)`.
-/
import Desverif.Proofs.FESOrder
import Desverif.Props.C01
import Desverif.Props.C14
namespace C03
open CQRun
open CQ (Ev)
open FES (evLt minEv)

/-- The dispatch order is a function of the scheduling history only: it does not depend on the
    bucket count or the bucket width. -/
theorem order_config_independent (n t n' t' : Nat) (hn : 1 ≤ n) (ht : 1 ≤ t) (hn' : 1 ≤ n')
    (ht' : 1 ≤ t') (ops : List Op) : (mrun n t ops).2 = (mrun n' t' ops).2 :=
  C01.config_independent n t n' t' hn ht hn' ht' ops

/-- **The tie rule, as executed by the calendar queue** after any history: the next fetch returns
    the oldest event scheduled for the current instant if there is one, otherwise the
    `(time, scheduling order)`-least pending event. -/
theorem fetch_rule (n t : Nat) (hn : 1 ≤ n) (ht : 1 ≤ t) (ops : List Op) :
    (mstep (mrun n t ops).1 .fetch).2 =
      (match (srun ops).1.1.zero with
       | e :: _ => Out.fetched e.val e.time
       | [] => match minEv (srun ops).1.1.pend with
         | some e => Out.fetched e.val e.time
         | none => Out.empty) := by
  have h := (C01.model_refines_spec n t hn ht ops).2
  rw [(step_refines h .fetch).1]
  simp only [sstep, FES.fetch]
  cases (srun ops).1.1.zero with
  | cons e z => rfl
  | nil =>
    simp only
    cases minEv (srun ops).1.1.pend <;> rfl

/-- the order view runs through the same states as the plain abstract run -/
theorem ord_state (ops : List Op) : (ord ops).1 = (srun ops).1 := ordFrom_state ops _ _

/-- **Events scheduled for the current instant run in the order they were scheduled.** -/
theorem current_instant_fifo (ops : List Op) :
    (ord ops).2.1.Pairwise (fun a b => a.id < b.id) := (oinv_ord ops).fzs

/-- **All other events run in timestamp order and, among equal timestamps, in the order they were
    scheduled** — over the whole history, whatever else is in the queue. -/
theorem others_in_schedule_order (ops : List Op) : (ord ops).2.2.Pairwise evLt :=
  (oinv_ord ops).fbs

/-- **Two events scheduled for the same future instant are never reordered:** an event that is
    still pending was never overtaken — every already dispatched (non-current-instant) event is
    strictly before it in `(time, scheduling order)`. -/
theorem no_overtaking (ops : List Op) :
    ∀ f ∈ (ord ops).2.2, ∀ p ∈ (srun ops).1.1.pend, evLt f p := by
  have := (oinv_ord ops).fbp
  rw [ord_state] at this
  exact this

/-- an event waiting in the current-instant FIFO was scheduled after every event already
    dispatched from it -/
theorem fifo_no_overtaking (ops : List Op) :
    ∀ f ∈ (ord ops).2.1, ∀ z ∈ (srun ops).1.1.zero, f.id < z.id := by
  have := (oinv_ord ops).zlt
  rw [ord_state] at this
  exact this

/-- **Net layer: the messages and events one callback emits are handed to the future event set in
    program order** (so, by the rules above, same-instant emissions of one callback are delivered
    in program order): the kernel model's buffer flush (`buf_process`) extends the table of
    scheduled events — whose index is the scheduling order, the tie-breaker above — by the wake-up
    (if any), then exactly the pushes in the order they were made, then the restart event of a
    shutdown request (for an active module; a module that is shut down emits nothing). Re-export of
    `C14.flush_in_push_order`; the pushes themselves are in program order by
    `C14.emissions_in_program_order`. -/
theorem handler_emissions_flushed_in_program_order (s : Proc.Sim) (mi : Nat) (kind : Proc.Kind)
    (m : Proc.ModRt) (hm : s.mods[mi]? = some m) (hact : m.active = true)
    (hok : (s.moduleEvent mi kind true).fault = none) :
    (s.moduleEvent mi kind true).evs.toList =
      s.evs.toList
        ++ ((Proc.runEvent ⟨mi, s.fes.cur⟩ m kind).wake.map fun _ => Proc.KEvent.wakeup mi).toList
        ++ (Proc.pushShape ⟨mi, s.fes.cur⟩ m kind (Proc.dueTasks ⟨mi, s.fes.cur⟩ m)).map (·.1)
        ++ Proc.restartOf mi (Proc.runEvent ⟨mi, s.fes.cur⟩ m kind).shutdown :=
  C14.flush_in_push_order s mi kind m hm hact hok

/-! Non-vacuity: ties straddling a "year" wrap (n·t = 4), a zero-delay follow-up scheduled between
two fetches of the same instant. -/
def demoOps : List Op :=
  [.add 4 1, .add 8 2, .add 4 3, .add 8 4, .fetch, .add 4 5, .fetch, .fetch, .fetch, .fetch]

example : (mrun 4 1 demoOps).2 =
    [.added, .added, .added, .added, .fetched 1 4, .added, .fetched 5 4, .fetched 3 4,
     .fetched 2 8, .fetched 4 8] := by decide
example : (mrun 7 3 demoOps).2 = (mrun 4 1 demoOps).2 := by decide

end C03

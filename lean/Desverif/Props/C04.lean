/-
C04 — seeded simulations are reproducible.

`run m s = run m s` is `rfl` and says nothing.  What can make two executions of the same (model, seed)
differ are AMBIENT inputs: the process-global counters `MODULE_ID` and `SLEEP_ID`, which keep counting across
the simulations of one process (so the ids differ between the first and the second execution, after an unrelated
simulation, and in another process).  The model `Repro` (Model/Repro.lean) carries these identifiers explicitly
in its state — module id per module, sender id per message, sleep id per `Sleep` and per timer-slot entry —
draws them from an arbitrary `Ambient` supply, and uses them the way the code does (timer-slot entries are
removed BY sleep id when `select!` drops its losing branches or a shutdown drops a module's tasks, the sender of
a message is resolved BY module id).  Modules may shut down and restart (`shut`, `restart d` steps): `buf_process`
drops the tokio runtime with its tasks, `ModuleRef::reset` builds the runtime of the next incarnation with a seed
drawn from the stream at that point, the `ModuleRestartEvent` replays the start stage.
The theorems say that nothing observable depends on the supply, as long as it is injective.

The random stream (what `Builder::seeded(seed)` determines: `StdRng` output, and through the per-module `RngSeed`
the `select!` start indices) is an input of the model; `StdRng` and tokio's `FastRand` themselves are not
modelled — the dual executions of the harness check them.
-/
import Desverif.Proofs.ReproRun
import Desverif.Proofs.ReproStream
namespace C04
open Repro

/-- Everything `Runtime::run` returns and every canonical observation — trace, final time, event count,
    left-over events, fault, unused rest of the random stream, number of sleeps, unfinished tasks — is the same
    under any two injective id supplies. -/
theorem run_ambient_independent (net : Net) (a₁ a₂ : Ambient) (h₁ : a₁.Inj) (h₂ : a₂.Inj)
    (stream : List Nat) (fuel : Nat) :
    run net a₁ stream fuel = run net a₂ stream fuel := by
  rw [run_ren a₁ h₁, run_ren a₂ h₂]

/-- **Non-interference of the ambient**: for all scripts, all random streams and all ambients `a₁ a₂` the
    canonical trace (time, module path, callback / action, message content, sender path, random draws,
    `select!` polls and choices) of the run under `a₁` equals that under `a₂`. -/
theorem trace_ambient_independent (net : Net) (a₁ a₂ : Ambient) (h₁ : a₁.Inj) (h₂ : a₂.Inj)
    (stream : List Nat) (fuel : Nat) :
    (run net a₁ stream fuel).trace = (run net a₂ stream fuel).trace := by
  rw [run_ambient_independent net a₁ a₂ h₁ h₂]

/-- The simulation that underlies the theorem: at every moment the state of the run under `a` is the state of
    the canonical run (ids = allocation indices) with every module id `k` replaced by `a.modId k` and every
    sleep id `k` by `a.sleepId k` — the two runs are related by the id renaming at every step. -/
theorem states_related_by_renaming (net : Net) (a : Ambient) (h : a.Inj) (stream : List Nat) (fuel : Nat) :
    (finalSim net a stream fuel).1 = renSim a (finalSim net Ambient.canon stream fuel).1 := by
  rw [finalSim_ren a h]

/-- one kernel step under `a` from a renamed state = the renaming of the canonical step -/
theorem step_related_by_renaming (net : Net) (a : Ambient) (h : a.Inj) (s : Sim) :
    step net a (renSim a s) = (step net Ambient.canon s).map (renSim a) :=
  step_ren a h net s

/-- what an ambient looks like after a simulation that created `n` modules and `k` sleeps is injective again -/
theorem after_inj (a : Ambient) (h : a.Inj) (n k : Nat) : (a.after n k).Inj := by
  constructor
  · intro i j e
    have := h.1 _ _ e
    omega
  · intro i j e
    have := h.2 _ _ e
    omega

/-- **Leftovers do not matter**: whatever the previous simulation of the process left in the process-wide statics —
    an ARBITRARY emission buffer `BUF_CTX.events` (everything emitted during `at_sim_end`, which is never flushed),
    `MOD_CTX`, clock, generator, counters — the next simulation (built after the previous `Sim` was dropped: `buf_drop`
    empties the buffer, `buf_init` and `Builder::build` reset context, clock and generator; only the id counters carry
    on) produces the result and trace of running it alone in a fresh process. -/
theorem second_run_independent_of_leftovers (g : Globals) (a : Ambient) (h : a.Inj) (net : Net)
    (stream : List Nat) (fuel : Nat) :
    runFrom g net a stream fuel = run net a stream fuel := by
  unfold runFrom
  rw [initFrom_eq]
  exact run_ambient_independent net _ a (after_inj a h _ _) h stream fuel

/-- **A second simulation does not see the first**: start anywhere (`g0`), run simulation A, drop it, build and run B
    in the same process: B starts from what A left (`Globals.afterRun`: A's unflushed `at_sim_end` emissions, A's end
    time, A's generator state, the counters advanced by A's modules and sleeps); B's result and trace are those of
    running B alone. -/
theorem second_run_independent_of_first (g0 : Globals) (a : Ambient) (h : a.Inj) (netA netB : Net)
    (streamA streamB : List Nat) (fuelA fuelB : Nat) :
    runFrom (g0.afterRun netA (finalSimFrom netA (a.after g0.modIds g0.sleepIds) fuelA (initFrom g0 netA a streamA)).1)
        netB a streamB fuelB =
      run netB a streamB fuelB :=
  second_run_independent_of_leftovers _ a h netB streamB fuelB

/-- what the theorem rests on: a simulation built on leftovers starts with an empty emission buffer, at time 0, with
    the new generator (`buf_drop` / `buf_init` / `Builder::build`) -/
theorem leftovers_are_reset (g : Globals) (net : Net) (a : Ambient) (stream : List Nat) :
    (initFrom g net a stream).buf = [] ∧ (initFrom g net a stream).now = 0 ∧ (initFrom g net a stream).stream = stream :=
  ⟨rfl, rfl, rfl⟩

/-- the observations that consume the random stream -/
def isRandom (o : Obs) : Bool :=
  o.what == "draw" || o.what == "draw32" || o.what == "sp" || o.what == "sel"

/-- **Draw order**: the random stream is consumed from the front only (what is left is `stream.drop k`), and
    which draw gets which element does not depend on the ambient: equal streams give equal sequences of
    (time, module, task, value) for `random()` draws, `select!` polls and `select!` choices, and the same
    unused rest. -/
theorem rng_draw_order_deterministic (net : Net) (a₁ a₂ : Ambient) (h₁ : a₁.Inj) (h₂ : a₂.Inj)
    (stream : List Nat) (fuel : Nat) :
    (run net a₁ stream fuel).trace.filter isRandom = (run net a₂ stream fuel).trace.filter isRandom
    ∧ (run net a₁ stream fuel).rest = (run net a₂ stream fuel).rest
    ∧ ∃ k, (run net a₁ stream fuel).rest = stream.drop k := by
  rw [run_ambient_independent net a₁ a₂ h₁ h₂]
  exact ⟨rfl, rfl, finalSim_drops net a₂ stream fuel⟩

/-- one read of the stream takes its head and leaves its tail (`Sim.pop` is the only function of the model
    that reads or changes `stream`) -/
theorem draw_takes_head (s : Sim) : s.pop.1 = s.stream.headD 0 ∧ s.pop.2.stream = s.stream.drop 1 :=
  ⟨pop_value s, pop_stream s⟩

/-- **Dispatch order is the event-set order**: the event a step dispatches is the one the abstract future event
    set yields — `FES.fetch`, whose tie rule (zero-delay FIFO first, then the `(time, id)` minimum) is the
    subject of C01/C03 — and neither the ambient nor the random stream takes part in that choice. -/
theorem dispatch_order_is_event_set_order (net : Net) (a : Ambient) (s s' : Sim) (h : step net a s = some s') :
    ∃ e f, FES.fetch s.fes = .ok (e, f) ∧ s' = dispatch net a (s.setFes f) (s.evs[e.val]?) := by
  unfold step at h
  cases hf : FES.fetch s.fes with
  | error e => simp [hf] at h
  | ok r =>
    obtain ⟨e, f⟩ := r
    simp only [hf, Option.some.injEq] at h
    exact ⟨e, f, rfl, h.symm⟩

/-- every stage of one module event only drops leading elements of the stream: seed of the tokio runtime,
    handler draws and jitter, then the tasks in the order the scheduler polls them -/
theorem module_event_consumes_prefix (net : Net) (a : Ambient) (s : Sim) (mi : Nat) (cb : Callback) (flush : Bool) :
    ∃ k, (moduleEvent net a s mi cb flush).stream = s.stream.drop k :=
  (moduleEvent_drops net a s mi cb flush).drop

/-- **Restart seeds**: the `RngSeed` of EVERY tokio runtime a module gets — the one built at its first event
    (`Rt::current`) and the one `AsyncCoreExt::reset` builds for each later incarnation when the module shuts
    down — is an element of the simulation's random stream, hence determined by the `Builder` seed; so are the
    `select!` start indices the harness observes after a restart (they are stream elements by construction). -/
theorem restart_seed_from_stream (net : Net) (a : Ambient) (stream : List Nat) (fuel : Nat) :
    ∀ x ∈ (run net a stream fuel).seeds, x.2 ∈ stream :=
  finalSim_seeds net a stream fuel

/-- the seed of the next incarnation is drawn where the code draws it: `resetStage` (the `ModuleRef::reset` half of
    `buf_process`, after the emission buffer was flushed) takes the element at the front of the stream at that
    moment, before `Module::reset` runs and before anything of the next incarnation -/
theorem restart_seed_is_next_draw (net : Net) (a : Ambient) (s : Sim) (mi : Nat) (path : String) :
    ∃ k, (resetStage net a s mi path).stream = (s.stream.drop 1).drop k
      ∧ ∃ rest, (resetStage net a s mi path).seeds = s.seeds ++ (s.stream.head?.toList.map (fun x => (path, x))) ++ rest := by
  unfold resetStage
  simp only []
  have h1 := (schedLoop_drops net a mi path
      (execFuel (((s.pop.2).recordSeed path s).log path "reset" "H" "-" []) mi)
      (((s.pop.2).recordSeed path s).log path "reset" "H" "-" [])).trans
    (deactivate_drops net.skipEmpty _ mi)
  obtain ⟨u, e, hs, hd, _⟩ := h1
  refine ⟨u.length, ?_, e, ?_⟩
  · have : (((s.pop.2).recordSeed path s).log path "reset" "H" "-" []).stream = s.stream.drop 1 := pop_stream s
    rw [← this, hs]; simp
  · rw [hd]
    show (s.pop.2.seeds ++ _) ++ e = _
    rw [pop_seeds]

/-! ### non-vacuity -/

/-- three modules (one a child), a jittered and a channel-less link, handlers that draw / send / spawn, a task
    with a three-way `select!` (two equal deadlines), a sleep and a draw -/
def exNet : Net :=
  { mods := [⟨"n0", 2, 0⟩, ⟨"n0.k", 1, 2⟩, ⟨"n1", 2, 1⟩],   -- = treeOrder [("n0", 2), ("n1", 2), ("n0.k", 1)]
    links := [⟨"n0", "n1", some (2, 3, 0)⟩, ⟨"n1", "n0", none⟩],
    rules := [("n0", .start, [.draw, .spawn "t", .send "n1" 1 0]),
              ("n1", .msg 1, [.spawn "t", .send "n0" 2 0]),
              ("n0", .msg 2, [.draw32])],
    tasks := [("t", [.sel [2, 2, 5], .sleep 1, .draw])],
    skipEmpty := false }

def exAmb1 : Ambient := ⟨fun k => 255 + k, fun k => 17 + k⟩
def exAmb2 : Ambient := ⟨fun k => 1000 + 3 * k, fun k => 2 * k⟩
def exStream : List Nat := [0, 11, 1, 2, 0, 0, 2, 0, 0, 33, 1, 0, 44, 7, 8, 9]

example : exAmb1.Inj := ⟨fun i j e => by simp only [exAmb1] at e; omega, fun i j e => by simp only [exAmb1] at e; omega⟩
example : exAmb2.Inj := ⟨fun i j e => by simp only [exAmb2] at e; omega, fun i j e => by simp only [exAmb2] at e; omega⟩

/-- the run is not trivial: 23 observations, 7 events, 8 sleeps created, final time 6, 12 stream elements used -/
example : ((run exNet exAmb1 exStream 100).trace.length, (run exNet exAmb1 exStream 100).events,
    (run exNet exAmb1 exStream 100).sleeps, (run exNet exAmb1 exStream 100).time,
    (run exNet exAmb1 exStream 100).rest, (run exNet exAmb1 exStream 100).fault) =
    (23, 7, 8, 6, [44, 7, 8, 9], none) := by decide

/-- the states of the two runs DO differ (module-tree order n0, n0.k, n1; ids in creation order) … -/
example : (finalSim exNet exAmb1 exStream 100).1.mods.map (·.id) = [255, 257, 256]
    ∧ (finalSim exNet exAmb2 exStream 100).1.mods.map (·.id) = [1000, 1006, 1003] := by decide

/-- … a losing `select!` branch was removed from its timer slot by sleep id (the emptied slot at 8 stays) … -/
example : (finalSim exNet exAmb2 exStream 100).1.mods.map (fun m => m.pending.map (fun s => (s.time, s.entries.length))) =
    [[], [], [(8, 0)]] := by decide

/-- a module that restarts itself: `m` spawns a task with a decisive `select!` in every incarnation; the message
    from `p` makes it shut down at 2 and restart at 5; the old incarnation's sleeping task `w` is dropped -/
def exNetR : Net :=
  { mods := [⟨"m", 1, 0⟩, ⟨"p", 1, 1⟩],
    links := [⟨"p", "m", some (2, 0, 0)⟩],
    rules := [("m", .start, [.spawn "s", .spawn "w"]),
              ("p", .start, [.send "m" 1 0]),
              ("m", .msg 1, [.draw, .restart 3])],
    tasks := [("s", [.sel [1, 1], .draw]), ("w", [.sleep 10])],
    skipEmpty := false }

def exStreamR : List Nat := [71, 1, 72, 0, 5, 6, 73, 0, 1, 8, 99]

/-- three runtimes were seeded (m, p, m again after the shutdown), each with the stream element that was next;
    the dropped task is reported; the `select!` of incarnation 1 (start indices 0, 1 → winner 1) differs from
    that of incarnation 0 (1, 0 → winner 0) because other stream elements reach it -/
example : (run exNetR exAmb2 exStreamR 100).seeds = [("m", 71), ("p", 72), ("m", 73)]
    ∧ (run exNetR exAmb2 exStreamR 100).unfinished = [("m", "w")]
    ∧ ((run exNetR exAmb2 exStreamR 100).time, (run exNetR exAmb2 exStreamR 100).events,
       (run exNetR exAmb2 exStreamR 100).rest, (run exNetR exAmb2 exStreamR 100).fault) = (15, 7, [99], none)
    ∧ ((run exNetR exAmb2 exStreamR 100).trace.filter (fun o => o.what == "sel")).map (fun o => (o.time, o.args)) =
        [(1, [0]), (6, [1])] := by decide

/-- a simulation that leaves things behind: a channel that is busy for 4 ns per message (the second message is queued
    and starts at 4), and in `at_sim_end` a send over that channel, a self-message and a task that does a delayed
    send and goes to sleep -/
def exNetA : Net :=
  { mods := [⟨"u", 2, 0⟩, ⟨"v", 2, 1⟩],
    links := [⟨"u", "v", some (1, 0, 4)⟩],
    rules := [("u", .start, [.send "v" 1 0, .send "v" 1 0]),
              ("u", .end_, [.send "v" 1 0, .sched 2 1, .spawn "t"]),
              ("v", .msg 1, [.draw])],
    tasks := [("t", [.send "v" 1 3, .sleep 5])],
    skipEmpty := true }

def exStreamA : List Nat := [1, 2, 3, 4, 5, 6]

/-- what A leaves in the process -/
def exLeft : Globals := Globals.fresh.afterRun exNetA (finalSim exNetA exAmb1 exStreamA 100).1

/-- the leftovers are not empty: 4 unflushed events in `BUF_CTX` (exit event, unbusy notification, self-message,
    delayed send), the clock at 9, a used generator, 2 module ids and 1 sleep id consumed; a busy channel, an
    unfinished task and its pending wake-up die with the `Sim` -/
example : (exLeft.buf.length, exLeft.clock, exLeft.rng, exLeft.modIds, exLeft.sleepIds) = (4, 9, some [5, 6], 2, 1)
    ∧ (finalSim exNetA exAmb1 exStreamA 100).1.chans.map (fun c => (c.busy, c.queue.length)) = [(true, 0)]
    ∧ (run exNetA exAmb1 exStreamA 100).unfinished = [("u", "t")]
    ∧ (run exNetA exAmb1 exStreamA 100).left = 1 := by decide

/-- the queued message started when the channel became idle (transmissions at 0, 4, and 9) -/
example : ((run exNetA exAmb1 exStreamA 100).trace.filter (fun o => o.what == "xmit")).map (fun o => (o.time, o.args)) =
    [(0, [1]), (4, [2]), (9, [3])] := by decide

/-- if `buf_drop` kept the buffer (the seeded defect C04-r2-1 as a model variant) the next simulation WOULD see the
    first one: one more observation, one more event -/
theorem second_run_depends_on_kept_buffer_witness :
    (resultOf (finalSimFrom exNetR (exAmb1.after exLeft.modIds exLeft.sleepIds) 100
        (initFromKeepingBuffer exLeft exNetR exAmb1 exStreamR))).trace.length = 21
    ∧ (runFrom exLeft exNetR exAmb1 exStreamR 100).trace.length = 20 := by decide

/-- … and the traces agree (the instance of the theorem; its numeric part also by evaluation) -/
example : (run exNet exAmb1 exStream 100).trace = (run exNet exAmb2 exStream 100).trace :=
  trace_ambient_independent exNet exAmb1 exAmb2
    ⟨fun i j e => by simp only [exAmb1] at e; omega, fun i j e => by simp only [exAmb1] at e; omega⟩
    ⟨fun i j e => by simp only [exAmb2] at e; omega, fun i j e => by simp only [exAmb2] at e; omega⟩ exStream 100

example : (run exNet exAmb2 exStream 100).trace.map (fun o => (o.time, o.args)) =
    [(0, []), (0, [11]), (0, [1, 1, 1, 0]), (0, [1]), (0, [2, 0, 1]), (0, []), (0, []), (2, [2, 0]), (2, [0]),
     (3, [1, 1, 1]), (3, [2, 0, 2, 0]), (3, [0, 1, 2]), (3, [2, 0, 2]), (3, [0]), (3, []), (3, [33]), (5, [1]), (5, [1]),
     (6, []), (6, [0]), (6, []), (6, []), (6, [])] := by decide

end C04

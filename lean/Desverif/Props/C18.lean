/-
C18 — NDL elaboration is total and the built simulation matches the description.

`Ndl` (Model/Ndl.lean, Model/NdlInst.lean) is the model of `des_net_utils::ndl` (string grammar,
`transform`) and of the instantiation in `des::net::ndl`; strings are `List Char`, hash maps are
lists in iteration order (the theorems hold for every order), every Rust `assert!/expect/unwrap`
is `Fail.internal`.  The model mirrors the code with the C18 repairs applied (patches/C18-*.diff).
Only property theorems live here.
-/
import Desverif.Proofs.NdlTotal
import Desverif.Proofs.NdlRoundtrip
import Desverif.Proofs.NdlInst
import Desverif.Proofs.NdlWire
import Desverif.Proofs.NdlDenote
import Desverif.Proofs.NdlErrors
import Desverif.Proofs.NdlConverse
namespace C18
open Ndl

/-- **`FromStr` never panics** — type clauses (`A(T <- I)`, `G(C)`), fields (`name[5]`) and
    connection endpoints (`sub[2]/gate[1]`), for every input string. -/
theorem parse_total (s : Str) (w : String) :
    parseTypClause parseGenerics s ≠ .error (.internal w) ∧
    parseTypClause parseStrArg s ≠ .error (.internal w) ∧
    parseField s ≠ .error (.internal w) ∧
    parseEndpoint s ≠ .error (.internal w) :=
  ⟨parseTypClause_noInt _ parseGenerics_noInt s w, parseTypClause_noInt _ parseStrArg_noInt s w,
   parseField_noInt s w, parseEndpoint_noInt s w⟩

/-- Deserialising a whole document (every clause through `FromStr`, map insertion) never panics,
    and every connection endpoint of the resulting `Def` has at least one accessor. -/
theorem parse_document_total (raw : RawDef) :
    (∀ w, parseDef raw ≠ .error (.internal w)) ∧
    (∀ d, parseDef raw = .ok d → d.endpointsNonempty) :=
  ⟨parseDef_noInt raw, fun _ h => parseDef_endpointsNonempty h⟩

/-- **`transform` never panics**: for every `Def` (any modules, any hash-map iteration order, any
    inheritance / generics / connections) whose endpoints have at least one accessor — which every
    deserialised description has — the result is a tree or a descriptive `Err`.  In particular the
    ordering loop terminates within its fuel and all `nodes.get(..).expect("unreachable …")` lookups
    succeed. -/
theorem transform_total (d : Def) (hd : d.endpointsNonempty) (w : String) :
    transform d ≠ .error (.internal w) := transform_noInt d hd w

/-- Document level: text clauses in, tree or descriptive error out — never a panic. -/
theorem load_total (raw : RawDef) (w : String) : load raw ≠ .error (.internal w) := load_noInt raw w

/-- The work list produced by the dependency-ordering loop lists every module after the symbols it
    requires (this is what makes the `expect`s unreachable). -/
theorem order_respects_dependencies (d : Def) (out : List Entry)
    (h : orderLoop (entries d).length [] (entries d) [] = .ok out) : Ordered [] out := by
  obtain ⟨tail, ht, hord, _⟩ := (orderLoop_spec _ [] (entries d) [] (Nat.le_refl _)).2 out h
  simp only [List.nil_append] at ht
  exact ht ▸ hord

/-- **Display/FromStr round trip, fields** (`name`, `name[5]`): for identifiers without whitespace
    and grammar punctuation and sizes below `2^64`. -/
theorem display_fromStr_roundtrip_field (f : FieldDef) (h : FieldOk f) :
    parseField f.display = .ok f := parseField_display f h

/-- **Round trip, connection endpoints** (`sub[2]/gate[1]`): any non-empty accessor list. -/
theorem display_fromStr_roundtrip_endpoint (e : EndpointDef) (hne : e.accessors ≠ [])
    (h : ∀ f ∈ e.accessors, FieldOk f) : parseEndpoint e.display = .ok e :=
  parseEndpoint_display e hne h

/-- **Round trip, submodule type clauses** (`B`, `G(C, D)`). -/
theorem display_fromStr_roundtrip_typ (t : TypClause Str) (hi : Ident t.ident)
    (ha : ∀ a ∈ t.args, Ident a) : parseTypClause parseStrArg (t.display id) = .ok t :=
  parseTypClause_display parseStrArg id t hi
    (fun a h => ⟨(ha a h).not_mem (by decide), (ha a h).not_mem (by decide)⟩)
    (by rw [List.map_id]; exact mapM_parseStrArg _)

/-- **Round trip, module keys with generics** (`A`, `A(T <- I, U <- J)`). -/
theorem display_fromStr_roundtrip_generics (t : TypClause GenericsDef) (hi : Ident t.ident)
    (ha : ∀ g ∈ t.args, Ident g.binding ∧ Ident g.bound) :
    parseTypClause parseGenerics (t.display GenericsDef.display) = .ok t :=
  parseTypClause_display parseGenerics GenericsDef.display t hi
    (fun g h => generics_display_clean g (ha g h).1 (ha g h).2)
    (mapM_parseGenerics_display _ ha)

/-- **Built simulation, modules and gates.**  Whenever instantiating an elaborated tree succeeds, the
    simulation contains exactly the modules the tree denotes — pre-order paths `a`, `a.b[1]`, … after
    expanding submodule clusters, each with the software symbol of its node and exactly its gate
    clusters (`name`, `size`, every `pos`) — no more and no fewer, whatever the connections are. -/
theorem instantiate_modules_gates_exact (reg : Str → Bool) (n : Node) (w : World)
    (h : instantiate reg n = .ok w) :
    w.map ModInst.sig = (Spec.modsOf [] n).map denotedSig ∧
    ∀ w', Spec.worldOf reg n = .ok w' → w'.map ModInst.sig = w.map ModInst.sig := by
  refine ⟨instantiate_sig reg n w h, fun w' h' => ?_⟩
  rw [worldOf_sig reg n w' h', instantiate_sig reg n w h]

/-- **Built simulation, connections.**  For every tree on which instantiation succeeds, the
    interleaved creation-and-wiring of `SimBuilderScoped::ndl` (children are created *and wired*
    before their later siblings exist) produces the very world the denotation describes (create all
    denoted modules, then apply all denoted connection requests, children first): the same modules,
    gates, and — per gate — the same connection slots in the same order with the same peer gates and
    the same channel metrics (bitrate, latency, jitter, queue).  No more and no fewer. -/
theorem instantiate_connections_exact (reg : Str → Bool) (n : Node) (w : World)
    (h : instantiate reg n = .ok w) : Spec.worldOf reg n = .ok w := instantiate_worldOf reg n w h

/-- **Elaboration = denotation.**  For every description of the supported fragment
    (`Spec.unsupported d = false`: pairwise distinct module identifiers, no type parameter named like
    a module, no inheriting from a generic module — outside it the code's answer depends on hash-map
    order or captures symbols), in every hash-map iteration order: if the memoised bottom-up
    `transform` (dependency-ordered work list, table of finished archetypes; inheritance, generic
    modules, type arguments `G(C, D)` with conformance, placeholders, cluster expansion, indexed /
    whole-cluster / cluster-to-cluster connections, links) succeeds with tree `n`, then the top-down
    denotation `Spec.denoteTree` — no work list, no table, endpoint expansion as a list comprehension,
    type arguments substituted positionally by the generic module's own declarations — is exactly `n`.
    (Converse: `transform_iff_denotation`.) -/
theorem transform_eq_denotation (d : Def) (hs : Spec.unsupported d = false)
    (n : Node) (h : transform d = .ok n) : Spec.denoteTree d = .ok n :=
  transform_denoteTree d hs n h

/-- **Elaboration = denotation, both directions.**  In the supported fragment `transform` succeeds with
    tree `n` exactly when the description denotes `n`: the memoised bottom-up elaboration accepts every
    description that has a denotation (the ordering loop cannot get stuck on modules that denote, and
    every check of `transform_module` passes when ⟦module⟧ is defined) and computes it. -/
theorem transform_iff_denotation (d : Def) (hs : Spec.unsupported d = false) (n : Node) :
    transform d = .ok n ↔ Spec.denoteTree d = .ok n :=
  ⟨transform_denoteTree d hs n, denoteTree_transform d hs n⟩

/-- **Rejections are exactly the descriptions without denotation.**  In the supported fragment
    `transform d` is an error iff `Spec.denoteTree d` is undefined (an error).  (The two error *values*
    need not have the same kind when a description has several defects: the denotation evaluates
    modules top-down in declaration order, `transform` in dependency/hash order; which defect
    `transform` reports, and that it really is one, is `error_kinds_descriptive`.) -/
theorem transform_rejects_iff_undefined (d : Def) (hs : Spec.unsupported d = false) :
    (∃ f, transform d = .error f) ↔ (∃ e, Spec.denoteTree d = .error e) := by
  constructor
  · rintro ⟨f, hf⟩
    cases hd : Spec.denoteTree d with
    | error e => exact ⟨e, rfl⟩
    | ok n =>
      have := denoteTree_transform d hs n hd
      rw [hf] at this
      cases this
  · rintro ⟨e, he⟩
    cases ht : transform d with
    | error f => exact ⟨f, rfl⟩
    | ok n =>
      have := transform_denoteTree d hs n ht
      rw [he] at this
      cases this

/-- **transform_sound_complete.**  For every supported description: if `transform` succeeds and
    building the simulation succeeds, the simulation is exactly ⟦d⟧ — the module paths with their
    software symbols, the gate clusters, and per gate the connection slots with peer gates and channel
    metrics (bitrate, latency, jitter, queue) — no more and no fewer. -/
theorem transform_sound_complete (reg : Str → Bool) (d : Def) (hs : Spec.unsupported d = false)
    (n : Node) (w : World) (ht : transform d = .ok n) (hi : instantiate reg n = .ok w) :
    Spec.denote reg d = .ok w := by
  unfold Spec.denote
  rw [transform_denoteTree d hs n ht]
  exact instantiate_worldOf reg n w hi

/-- **The error taxonomy is total and descriptive.**  Every rejection of `transform` (for every
    description whose endpoints are non-empty, i.e. every deserialised one, and every hash-map order)
    is a descriptive `Err` — never a panic, never a bare parse error — whose kind, payload and span name
    a module / clause / symbol *of the input* that really has the announced defect (`Ndl.Cause`):
    * `UnresolvableDependency(stuck)`: a non-empty list of modules of the description each of which
      requires a symbol that is no module of the description (undefined) or is itself stuck (cycle);
    * `UnknownModule(entry)`: the entry symbol is no module identifier;
    * `SymbolAlreadyDefined`: two type parameters of the named module with one binding;
    * `InvalidGate` / `InvalidSubmodule`: a declared gate / submodule cluster of size 0;
    * `InvalidTypStatement`: a generic module (or a parameter bounded by one) used without arguments,
      a wrong number of arguments, or an argument that is itself generic — with the offending module
      of the description and its parameters as payload;
    * `UnknownModule(binding)`: a type parameter used with arguments or passed on as an argument;
    * `AssignedTypDoesNotConformToInterface`: located at the submodule clause with type arguments;
    * connection errors (`UnknownGate/SubmoduleInConnection`, `ConnectionIndexOutOfBounds`,
      `UnequalPeers(l, r)` with `l ≠ r`, `UnknownLink(name)` with `name` absent from `links`): located at
      the connection clause by index, the payload an accessor written in that clause. -/
theorem error_kinds_descriptive (d : Def) (hd : d.endpointsNonempty) (f : Fail)
    (h : transform d = .error f) : Cause d f := transform_error_cause d hd f h

/-- local strengthening for index errors: `ConnectionIndexOutOfBounds(access)` is raised only for an
    index into an atom or an index `≥` the declared cluster size -/
theorem index_error_cause (dcl a : FieldDef) (f : Fail) (h : kardAccess dcl a = .error f) :
    f = .err .connectionIndexOutOfBounds [a.display] {} ∧
    ((dcl.kard = .atom ∧ ∃ i, a.kard = .cluster i) ∨
      ∃ n i, dcl.kard = .cluster n ∧ a.kard = .cluster i ∧ n ≤ i) := kardAccess_error dcl a f h

/-! ### non-vacuity -/

/-- a description with a generic module, inheritance, clusters and a cluster-to-cluster connection -/
def sample : RawDef :=
  { entry := "A".toList
    modules :=
      [ ⟨"A".toList, none, [], [("g".toList, "G(C2)".toList), ("h[2]".toList, "C".toList)],
          [⟨"g/t/port".toList, "h/port".toList, some "fast".toList⟩]⟩,
        ⟨"G(T <- C)".toList, none, [], [("t[2]".toList, "T".toList)], []⟩,
        ⟨"C".toList, none, ["port".toList], [], []⟩,
        ⟨"C2".toList, some "C".toList, ["extra[3]".toList], [], []⟩ ]
    links := [("fast".toList, ⟨5, 0, 1000, none⟩)] }

/-- observable summary of a result (decidable) -/
def summary (r : Except Fail Node) : String × Nat × Nat :=
  match r with
  | .ok n => ("ok", n.subs.length, n.conns.length)
  | .error (.internal _) => ("panic", 0, 0)
  | .error .parse => ("parse", 0, 0)
  | .error (.err _ _ _) => ("err", 0, 0)

example : summary (load sample) = ("ok", 2, 2) := by decide

/-- the hypothesis of `transform_total` is met by a non-trivial description -/
example : ∃ d, parseDef sample = .ok d ∧ d.endpointsNonempty ∧ d.modules.length = 4 := by
  cases h : parseDef sample with
  | error e =>
    have : (parseDef sample).toBool = true := by decide
    rw [h] at this
    cases this
  | ok d =>
    refine ⟨d, rfl, parseDef_endpointsNonempty h, ?_⟩
    have : ((parseDef sample).toOption.map (·.modules.length)) = some 4 := by decide
    rw [h] at this
    simpa [Except.toOption] using this

example : (parseTypClause parseGenerics "A(T <- I".toList).toOption = none := by decide
example : (parseEndpoint "sub[2]/gate[1]".toList).toOption =
    some ⟨[⟨"sub".toList, .cluster 2⟩, ⟨"gate".toList, .cluster 1⟩]⟩ := by decide

/-- the repaired panics are descriptive errors in the model of the fixed code:
    a generic binding used with arguments, a generic module passed as an argument -/
example : summary (load { sample with modules := sample.modules ++
    [⟨"X(T <- C)".toList, none, [], [("x".toList, "T(C)".toList)], []⟩] }) = ("err", 0, 0) := by decide
example : summary (load { sample with modules := sample.modules ++
    [⟨"X".toList, none, [], [("x".toList, "G(G)".toList)], []⟩] }) = ("err", 0, 0) := by decide

/-- a tree with a submodule cluster, a gate cluster and one connection -/
def tiny : Node :=
  .mk "A".toList [(⟨"h".toList, .cluster 2⟩, .mk "C".toList [] [⟨"p".toList, .atom⟩] [])] [⟨"o".toList, .cluster 2⟩]
    [⟨[⟨"h".toList, some 0⟩, ⟨"p".toList, none⟩], [⟨"o".toList, some 1⟩], none⟩]

/-- `instantiate_modules_gates_exact` is not vacuous: 3 modules (`""`, `h[0]`, `h[1]`), 4 gates -/
example : ((instantiate (fun _ => true) tiny).toOption.map fun w =>
    (w.length, (w.map fun m => m.gates.length).sum)) = some (3, 4) := by decide

/-- `transform_eq_denotation` is not vacuous: `sample` (generic module with a conforming type argument,
    inheritance, clusters, a cluster-to-cluster connection through the substituted submodules, a link)
    is in the supported fragment and elaborates -/
example : ((parseDef sample).toOption.map fun d => (Spec.unsupported d, summary (transform d))) =
    some (false, ("ok", 2, 2)) := by decide

/-- a small description with a type argument … -/
def genDef : Def :=
  { entry := "A".toList
    modules :=
      [ (⟨"A".toList, []⟩, ⟨none, [⟨"o".toList, .atom⟩], [(⟨"g".toList, .atom⟩, ⟨"G".toList, ["C".toList]⟩)],
          [⟨⟨[⟨"g".toList, .atom⟩, ⟨"t".toList, .atom⟩, ⟨"port".toList, .atom⟩]⟩, ⟨[⟨"o".toList, .atom⟩]⟩, none⟩]⟩),
        (⟨"G".toList, [⟨"T".toList, "C".toList⟩]⟩, ⟨none, [], [(⟨"t".toList, .atom⟩, ⟨"T".toList, []⟩)], []⟩),
        (⟨"C".toList, []⟩, ⟨none, [⟨"port".toList, .atom⟩], [], []⟩) ]
    links := [] }

/-- … and the tree it elaborates to -/
def genNode : Node :=
  .mk "A".toList
    [(⟨"g".toList, .atom⟩, .mk "G".toList [(⟨"t".toList, .atom⟩, .mk "C".toList [] [⟨"port".toList, .atom⟩] [])] [] [])]
    [⟨"o".toList, .atom⟩]
    [⟨[⟨"g".toList, none⟩, ⟨"t".toList, none⟩, ⟨"port".toList, none⟩], [⟨"o".toList, none⟩], none⟩]

/-- the hypotheses of `transform_sound_complete` are jointly satisfiable (supported description with a
    type argument; `transform` and the build succeed: 3 modules) -/
example : Spec.unsupported genDef = false ∧ transform genDef = .ok genNode ∧
    ((instantiate (fun _ => true) genNode).toOption.map (·.length)) = some 3 :=
  ⟨by decide, by rfl, by decide⟩

/-- a cyclic description: `error_kinds_descriptive` applies and yields the `unresolvable` cause -/
def cycDef : Def :=
  { entry := "A".toList
    modules :=
      [ (⟨"A".toList, []⟩, ⟨none, [], [(⟨"b".toList, .atom⟩, ⟨"B".toList, []⟩)], []⟩),
        (⟨"B".toList, []⟩, ⟨none, [], [(⟨"a".toList, .atom⟩, ⟨"A".toList, []⟩)], []⟩) ]
    links := [] }

example : cycDef.endpointsNonempty ∧ Spec.unsupported cycDef = false ∧
    transform cycDef = .error (.err .unresolvableDependency ["A".toList, "B".toList] {}) := by
  refine ⟨?_, by decide, by rfl⟩
  unfold Def.endpointsNonempty
  decide

/-- the hypotheses of the round-trip theorems are met by ordinary clauses -/
example : FieldOk ⟨"host".toList, .cluster 12⟩ := ⟨by decide, by decide⟩
example : Ident "Router_2".toList := by decide
example : (⟨"A".toList, [⟨"T".toList, "I".toList⟩, ⟨"U".toList, "J".toList⟩]⟩ : TypClause GenericsDef).display
    GenericsDef.display = "A(T <- I, U <- J)".toList := by decide
example : (⟨[⟨"sub".toList, .cluster 2⟩, ⟨"gate".toList, .atom⟩]⟩ : EndpointDef).display = "sub[2]/gate".toList := by
  decide

end C18

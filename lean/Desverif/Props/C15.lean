/-
C15 — Calendar-queue memory is safe and every payload is dropped exactly once.

Only property theorems live here.  `Alloc` is the model of the page allocator
(des-cqueue/src/stable/alloc.rs, Model/Alloc.lean); `CQMem` composes it with the calendar-queue
model `CQ` the way `LocalBox`/`DualLinkedList` use it (Model/CQMem.lean).

The allocator theorems hold for EVERY request/free script `ops` (layouts `(size, 2^k)`, every
size and alignment; `free` releases a live block with its own layout — the contract of
`deallocate`), every page size `P = 2^p ≥ 16` and every page oracle `orc` that yields pages
aligned to `P` and pairwise disjoint (`OracleOk`).  `rs` is the state reached by `ops`.

Outside any Lean model (partial): the raw-pointer aliasing / provenance side of the code.
-/
import Desverif.Proofs.AllocAccept
import Desverif.Proofs.CQMemShape
namespace C15
open Alloc

/-- every script runs (construction of the allocator never fails) -/
theorem run_total {orc P} (ho : OracleOk orc P) (hp : PageOk P) (ops : List Op) :
    ∃ rs outs, run orc P ops = some (rs, outs) := by
  obtain ⟨rs0, h0, _⟩ := start_inv ho hp
  exact ⟨_, _, by simp [run, h0]; rfl⟩

/-- the representation invariant holds in every reachable state -/
theorem invariant_reachable {orc P} (ho : OracleOk orc P) (hp : PageOk P) {ops rs outs}
    (hr : run orc P ops = some (rs, outs)) : RInv orc P rs := by
  obtain ⟨rs0, h0, hi, _⟩ := start_inv ho hp
  simp only [run, h0, Option.map_some, Option.some.injEq] at hr
  have := runFrom_inv ho hp ops hi
  rw [hr] at this
  exact this

/-- **No assertion of the allocator can fail**, and `allocated_mem` never underflows, on any
    script (the only abnormal outcome left is non-termination, characterised below). -/
theorem no_assert_failure {orc P} (ho : OracleOk orc P) (hp : PageOk P) {ops rs outs}
    (hr : run orc P ops = some (rs, outs)) : Out.internal ∉ outs := by
  obtain ⟨rs0, h0, hi, _⟩ := start_inv ho hp
  simp only [run, h0, Option.map_some, Option.some.injEq] at hr
  have := runFrom_not_internal ho hp ops hi
  rw [hr] at this
  exact this

/-- **A returned block is disjoint from every live block** — the whole reserved footprint
    (normalised size ≥ requested size), against the whole footprint of every block that was
    returned earlier and not released since. -/
theorem alloc_disjoint_from_live {orc P} (ho : OracleOk orc P) (hp : PageOk P) {ops rs outs}
    (hr : run orc P ops = some (rs, outs)) {lsize k rs' a}
    (hs : step orc rs (.alloc lsize k) = (rs', .allocated a)) :
    ∀ e ∈ rs.live, Disj ⟨a, (sizeAlign lsize (2 ^ k)).1⟩ e.blk := by
  have hi := invariant_reachable ho hp hr
  obtain ⟨s', ha, _⟩ := step_alloc_allocated hs
  have hf := allocate_some ho hp hi.inv ha rs.next
  have hd := (List.pairwise_append.mp hf.inv.disj).2.1
  simp only [List.map_cons] at hd
  intro e he
  exact (List.pairwise_cons.mp hd).1 e.blk (List.mem_map_of_mem he)

/-- the reserved footprint covers the requested bytes -/
theorem footprint_covers_request (lsize lalign : Nat) : lsize ≤ (sizeAlign lsize lalign).1 :=
  sizeAlign_ge lsize lalign

/-- **A returned block is aligned** for the requested layout, and for a free-list node. -/
theorem alloc_aligned {orc P} (ho : OracleOk orc P) (hp : PageOk P) {ops rs outs}
    (hr : run orc P ops = some (rs, outs)) {lsize k rs' a}
    (hs : step orc rs (.alloc lsize k) = (rs', .allocated a)) :
    a % 2 ^ k = 0 ∧ a % 8 = 0 := by
  have hi := invariant_reachable ho hp hr
  obtain ⟨s', ha, _⟩ := step_alloc_allocated hs
  have hf := (allocate_some ho hp hi.inv ha rs.next).aligned
  simp only [sizeAlign] at hf
  constructor
  · apply mod_of_dvd_mod _ hf
    rw [max_pow_eq]
    exact Nat.pow_dvd_pow 2 (Nat.le_max_left k 3)
  · exact mod_of_dvd_mod (eight_dvd_max_pow k) hf

/-- **A returned block lies inside one page the allocator owns.** -/
theorem alloc_within_pages {orc P} (ho : OracleOk orc P) (hp : PageOk P) {ops rs outs}
    (hr : run orc P ops = some (rs, outs)) {lsize k rs' a}
    (hs : step orc rs (.alloc lsize k) = (rs', .allocated a)) :
    ∃ b ∈ rs'.st.pages, b ≤ a ∧ a + (sizeAlign lsize (2 ^ k)).1 ≤ b + P := by
  have hi := invariant_reachable ho hp hr
  obtain ⟨s', ha, rfl⟩ := step_alloc_allocated hs
  have hf := (allocate_some ho hp hi.inv ha rs.next).inv
  obtain ⟨_, _, i, hlt, h1, h2⟩ := hf.live _ (List.mem_cons_self)
  refine ⟨orc i, ?_, h1, h2⟩
  simp only
  rw [hf.pages]
  exact List.mem_map.mpr ⟨i, List.mem_range.mpr hlt, rfl⟩

/-- **Free regions are pairwise disjoint and disjoint from every live block** (and live blocks
    from each other), in every reachable state; each free region can hold its own `ListNode`
    header (≥ 16 bytes, 8-aligned) and lies inside an owned page — so the headers the allocator
    writes stay outside all live memory. -/
theorem free_regions_disjoint_and_outside_live {orc P} (ho : OracleOk orc P) (hp : PageOk P)
    {ops rs outs} (hr : run orc P ops = some (rs, outs)) :
    (rs.st.free ++ rs.live.map Live.blk).Pairwise Disj ∧
    ∀ r ∈ rs.st.free, 16 ≤ r.size ∧ r.addr % 8 = 0 ∧
      ∃ b ∈ rs.st.pages, b ≤ r.addr ∧ r.stop ≤ b + P := by
  have hi := (invariant_reachable ho hp hr).inv
  refine ⟨hi.disj, ?_⟩
  intro r hrm
  obtain ⟨h16, h8, i, hlt, h1, h2⟩ := hi.free r hrm
  refine ⟨h16, h8, orc i, ?_, h1, h2⟩
  rw [hi.pages]
  exact List.mem_map.mpr ⟨i, List.mem_range.mpr hlt, rfl⟩

/-- the owned pages are exactly the pages obtained from the oracle, in order: page-aligned and
    pairwise disjoint -/
theorem pages_owned {orc P} (ho : OracleOk orc P) (hp : PageOk P) {ops rs outs}
    (hr : run orc P ops = some (rs, outs)) :
    rs.st.pages = (List.range rs.st.pages.length).map orc ∧ rs.st.pageSize = P :=
  ⟨(invariant_reachable ho hp hr).inv.pages, (invariant_reachable ho hp hr).inv.ps⟩

/-- **Memory is reused only after it was released**: if a block `e` is live after `ops₁` and a
    later allocation (after `ops₂` more operations) returns memory overlapping it, then `ops₂`
    contains the `free` of `e`. -/
theorem reuse_only_after_free {orc P} (ho : OracleOk orc P) (hp : PageOk P) {ops₁ ops₂ : List Op}
    {rs₁ rs₂ outs₁ outs₂} (h1 : run orc P ops₁ = some (rs₁, outs₁))
    (h2 : run orc P (ops₁ ++ ops₂) = some (rs₂, outs₂)) {e : Live} (he : e ∈ rs₁.live)
    {lsize k rs' a} (hs : step orc rs₂ (.alloc lsize k) = (rs', .allocated a))
    (hov : ¬ Disj ⟨a, (sizeAlign lsize (2 ^ k)).1⟩ e.blk) : Op.free e.key ∈ ops₂ := by
  apply Classical.byContradiction
  intro hno
  apply hov
  apply alloc_disjoint_from_live ho hp h2 hs
  obtain ⟨rs0, h0, _⟩ := start_inv ho hp
  simp only [run, h0, Option.map_some, Option.some.injEq] at h1 h2
  rw [runFrom_append] at h2
  have h3 : rs₂ = (runFrom orc (runFrom orc rs0 ops₁).1 ops₂).1 := (Prod.mk.inj h2).1.symm
  rw [h3, h1]
  exact live_persists ops₂ he hno

/-- **Accounted bytes = sum of the live blocks' sizes** -/
theorem allocated_mem_eq_sum_live {orc P} (ho : OracleOk orc P) (hp : PageOk P) {ops rs outs}
    (hr : run orc P ops = some (rs, outs)) :
    rs.st.allocated = (rs.live.map (fun e => e.blk.size)).sum :=
  (invariant_reachable ho hp hr).inv.acct

/-- a request larger than a page is refused and changes nothing -/
theorem oversize_refused {orc rs lsize k} (h : (sizeAlign lsize (2 ^ k)).1 > rs.st.pageSize) :
    step orc rs (.alloc lsize k) = (rs, .failed) := by
  have : allocate orc rs.st lsize (2 ^ k) = .ok (rs.st, none) := by
    unfold allocate
    generalize sizeAlign lsize (2 ^ k) = sa at h ⊢
    obtain ⟨size, align⟩ := sa
    simp only at h ⊢
    rw [if_pos h]
  simp [step, this]

/-- **Termination side-condition (sufficient).** A request whose normalised alignment does not
    exceed the page size and whose normalised size is a whole page or at most `page − 16` is always
    served: `find_region` returns after adding at most one page. -/
theorem alloc_terminates {orc P} (ho : OracleOk orc P) (hp : PageOk P) {ops rs outs}
    (hr : run orc P ops = some (rs, outs)) (lsize k : Nat)
    (hal : (sizeAlign lsize (2 ^ k)).2 ≤ P)
    (hsz : (sizeAlign lsize (2 ^ k)).1 = P ∨ (sizeAlign lsize (2 ^ k)).1 + 16 ≤ P) :
    ∃ a, (step orc rs (.alloc lsize k)).2 = .allocated a := by
  obtain ⟨s', a, hst⟩ := step_alloc_terminates ho hp (invariant_reachable ho hp hr) ⟨hal, hsz⟩
  exact ⟨a, by rw [hst]⟩

/-- **Termination side-condition (necessary).** A request of normalised size strictly between
    `page − 16` and `page` that no free region serves makes `find_region` add pages forever (each
    fresh page leaves 1‥15 bytes behind the block, which the fit test rejects): the model reports
    `diverged` for every amount of fuel. Such sizes are outside the property's "fits a page"
    range; `CQueue<T>` hits them when `size_of::<EventNode<T>>()` is in that window. -/
theorem alloc_diverges {orc P} (ho : OracleOk orc P) (hp : PageOk P) {ops rs outs}
    (hr : run orc P ops = some (rs, outs)) (size align fuel : Nat)
    (hal : align ∣ P) (hpos : 0 < align) (h1 : P < size + 16) (h2 : size < P)
    (hnone : scan rs.st.free size align = none) :
    findRegion orc fuel rs.st size align = .error .diverge :=
  findRegion_diverges ho hp hal hpos h1 h2 fuel (invariant_reachable ho hp hr).inv hnone

/-- the size invariant holds in every reachable state -/
theorem sizes_reachable {orc P} (ho : OracleOk orc P) (hp : PageOk P) {ops rs outs}
    (hr : run orc P ops = some (rs, outs)) : RSInv orc P rs := by
  obtain ⟨rs0, h0, hi⟩ := start_sinv ho hp
  simp only [run, h0, Option.map_some, Option.some.injEq] at hr
  have := runFrom_sinv ho hp ops hi
  rw [hr] at this
  exact this

/-- **Shape of the free list.** In every reachable state a free region is a whole page starting at
    the base of an owned page, or at most `page − 16` bytes long (and so is every live block). -/
theorem free_region_sizes {orc P} (ho : OracleOk orc P) (hp : PageOk P) {ops rs outs}
    (hr : run orc P ops = some (rs, outs)) :
    (∀ r ∈ rs.st.free, (r.size = P ∧ r.addr ∈ rs.st.pages) ∨ r.size + 16 ≤ P) ∧
    (∀ e ∈ rs.live, e.blk.size = P ∨ e.blk.size + 16 ≤ P) := by
  have hs := sizes_reachable ho hp hr
  refine ⟨?_, hs.s.live⟩
  intro r hrm
  rcases hs.s.free r hrm with h | h
  · left
    refine ⟨h, ?_⟩
    obtain ⟨i, hi, h1, h2⟩ := (hs.r.inv.free r hrm).2.2
    simp only [Region.stop] at h2
    have : r.addr = orc i := by omega
    rw [this, hs.r.inv.pages]
    exact List.mem_map.mpr ⟨i, List.mem_range.mpr hi, rfl⟩
  · exact Or.inr h

/-- **Non-termination in every reachable state.** A request whose normalised size lies strictly
    between `page − 16` and `page` is served by NO free region of ANY reachable state, so
    `find_region` adds pages forever (fails for every fuel) and the step reports `diverged` — no
    matter what was allocated or freed before. -/
theorem alloc_diverges_reachable {orc P} (ho : OracleOk orc P) (hp : PageOk P) {ops rs outs}
    (hr : run orc P ops = some (rs, outs)) (lsize k : Nat)
    (h1 : P < (sizeAlign lsize (2 ^ k)).1 + 16) (h2 : (sizeAlign lsize (2 ^ k)).1 < P) :
    scan rs.st.free (sizeAlign lsize (2 ^ k)).1 (sizeAlign lsize (2 ^ k)).2 = none ∧
    (∀ fuel, findRegion orc fuel rs.st (sizeAlign lsize (2 ^ k)).1 (sizeAlign lsize (2 ^ k)).2 =
      .error .diverge) ∧
    step orc rs (.alloc lsize k) = (rs, .diverged) := by
  have hs := sizes_reachable ho hp hr
  have hn := sizeAlign_ok lsize k
  have hdvd := window_align_dvd hp h1 h2
  have hnone := no_region_fits ho hs.r.inv hs.s hdvd hn.alignPos h1 h2
  have hdiv := fun fuel => findRegion_diverges ho hp hdvd hn.alignPos h1 h2 fuel hs.r.inv hnone
  refine ⟨hnone, hdiv, ?_⟩
  have hbig : ¬ (sizeAlign lsize (2 ^ k)).1 > rs.st.pageSize := by rw [hs.r.inv.ps]; omega
  have := allocate_of_findRegion_err hbig (hdiv FUEL)
  simp [step, this, errOut]

/-- **The side-condition, exactly.** For a request that is not larger than a page and whose
    alignment does not exceed the page size, in every reachable state: the allocator diverges iff
    the normalised size lies strictly between `page − 16` and `page`; otherwise it returns a block. -/
theorem alloc_diverges_iff {orc P} (ho : OracleOk orc P) (hp : PageOk P) {ops rs outs}
    (hr : run orc P ops = some (rs, outs)) (lsize k : Nat)
    (hal : (sizeAlign lsize (2 ^ k)).2 ≤ P) (hle : (sizeAlign lsize (2 ^ k)).1 ≤ P) :
    (step orc rs (.alloc lsize k)).2 = .diverged ↔
      (P < (sizeAlign lsize (2 ^ k)).1 + 16 ∧ (sizeAlign lsize (2 ^ k)).1 < P) := by
  constructor
  · intro hd
    apply Classical.byContradiction
    intro hno
    have hsz : (sizeAlign lsize (2 ^ k)).1 = P ∨ (sizeAlign lsize (2 ^ k)).1 + 16 ≤ P := by omega
    obtain ⟨s', a, hst⟩ := step_alloc_terminates ho hp (invariant_reachable ho hp hr) ⟨hal, hsz⟩
    rw [hst] at hd
    simp at hd
  · rintro ⟨h1, h2⟩
    rw [(alloc_diverges_reachable ho hp hr lsize k h1 h2).2.2]

/-- **Every event trace the model produces is accepted by the shadow-map checker**
    `AllocSafe.accept` (in-page, aligned, disjoint from live blocks, alloc/free pairing, `Err` only
    for oversize requests, page order), for every script and page size, under the canonical oracle
    the driver uses; the checker ends with the model's page count and exactly its live blocks. -/
theorem model_trace_accepted {P : Nat} (hp : PageOk P) (ops : List Op) :
    ∃ t rs outs sh, trace (AllocSafe.orcOf P) P ops = some t ∧
      run (AllocSafe.orcOf P) P ops = some (rs, outs) ∧
      AllocSafe.acceptAll { pageSize := P } (t.map (AllocSafe.ofMEv P)) = .ok sh ∧
      sh.pages = rs.st.pages.length ∧ sh.live = rs.live.map (AllocSafe.blkOf P) := by
  obtain ⟨t, rs, outs, sh, h1, h2, h3, h4⟩ := AllocSafe.trace_accepted hp ops
  exact ⟨t, rs, outs, sh, h1, h2, h3, h4.pages, h4.live⟩

/-! ### Payloads (on the calendar-queue model of C01) -/

open CQRun in
/-- **Payload conservation.** For every add/cancel/fetch script and every queue parameterisation:
    the events ever accepted by `add` are — as the very records `(time, id, payload)` they were
    inserted as, with pairwise different ids — exactly (a permutation of) those returned by
    `fetch`, those removed by `cancel` while pending, and those still stored in the queue when it
    is dropped (`CQMem.drop` destroys precisely these: `CQMem.drop_drops`).  So every payload is
    handed back or destroyed exactly once, unchanged. -/
theorem payload_conservation (n t : Nat) (hn : 1 ≤ n) (ht : 1 ≤ t) (ops : List CQRun.Op) :
    let m := (mrun n t ops).1.1
    (hist ops).2.added.Perm
      ((hist ops).2.fetched ++ (hist ops).2.cancelled ++ (m.buckets.flatten ++ m.zero)) ∧
    ((hist ops).2.added.map (·.id)).Nodup ∧
    fetchedOuts (mrun n t ops).2 = (hist ops).2.fetched.map (fun e => (e.val, e.time)) := by
  intro m
  have href := runWith_refines ops (init_RR n t hn ht)
  have g := ginv_hist ops
  have hst : (hist ops).1 = (srun ops).1 := histFrom_state ops _ _
  rw [hst] at g
  refine ⟨?_, g.nodup, ?_⟩
  · have hr : CQ.R m (srun ops).1.1 := href.2.r
    have hp : (m.buckets.flatten ++ m.zero).Perm (spending (srun ops).1.1) := by
      unfold spending
      rw [← hr.zero]
      exact List.perm_append_comm.trans (List.Perm.append_left _ hr.pend)
    refine g.perm.trans ?_
    have := (List.Perm.append_right ((hist ops).2.fetched ++ (hist ops).2.cancelled) hp.symm)
    refine (List.Perm.trans ?_ this).trans List.perm_append_comm
    simp only [List.append_assoc]
    exact List.Perm.refl _
  · have h1 : (mrun n t ops).2 = (srun ops).2 := href.1
    rw [h1]
    have := histFrom_fetched ops (FES.init, []) {}
    simpa [hist, srun] using this.symm

/-- the queue-with-memory model answers exactly as the calendar-queue model whenever it answers,
    so `payload_conservation` (and C01/C03) apply to its queue component -/
theorem cqmem_queue_is_cq (orc : Nat → Nat) (st : CQMem.State) (op : CQRun.Op) (o : CQRun.Out)
    (h : (CQMem.step orc st op).out = .cq o) :
    (CQMem.step orc st op).st.q = (CQRun.mstep st.q op).1 ∧ o = (CQRun.mstep st.q op).2 :=
  CQMem.step_queue orc st op o h

/-! ### The queue together with the memory of its nodes (`CQMem`)

`Reach orc P n t nsize nlog st ss`: `st` is reachable from `CQueue::new(n, t)` (page size `P`, node
layout `(nsize, 2^nlog)`) by add / cancel / fetch / peek, `ss` is the abstract event set run in
lock-step.  Hypotheses: `n, t ≥ 1`, the node layout is in the property's range (`Fits`). -/

open CQMem in
/-- `CQueue::new` succeeds for every in-range node layout -/
theorem cqmem_create_succeeds {orc P} (ho : OracleOk orc P) (hp : PageOk P) {n t nsize nlog : Nat}
    (hn : 1 ≤ n) (ht : 1 ≤ t) (hf : Fits P nsize nlog) :
    ∃ st evs, create orc n t P nsize nlog = (some st, .created, evs) ∧
      Reach orc P n t nsize nlog st (FES.init, []) := by
  obtain ⟨st, evs, hc, _⟩ := create_ninv (orc := orc) ho hp hn ht hf
  exact ⟨st, evs, hc, .create hc⟩

open CQMem in
/-- every operation on a reachable state answers — never `diverged`, never `internal` (no failed
    `unwrap`, no release of a non-live node) — and answers exactly as the abstract event set -/
theorem cqmem_step_answers {orc P n t nsize nlog} (ho : OracleOk orc P) (hp : PageOk P)
    (hn : 1 ≤ n) (ht : 1 ≤ t) (hf : Fits P nsize nlog) {st ss}
    (h : Reach orc P n t nsize nlog st ss) (op : CQRun.Op) :
    ∃ o, (CQMem.step orc st op).out = .cq o ∧ o = (CQRun.sstep ss op).2 := by
  obtain ⟨o, h1, h2, _⟩ := step_ninv ho hp (reach_ninv ho hp hn ht hf h) op
  exact ⟨o, h1, h2⟩

open CQMem in
/-- **Nodes match events.** In every reachable state the live allocator blocks are exactly: one
    node per bucket-resident event (the injective map `nodes`: event id ↦ block key) plus the two
    sentinels of each bucket; current-instant (zero-bucket) events own no node; every block has the
    node layout; the allocator invariant (disjointness, alignment, in-page, accounting) holds for
    these blocks.  Since this holds before and after every step, `add` allocates exactly one node
    for a bucket-resident event and `fetch`/`cancel` release exactly the node of the event they
    remove. -/
theorem cqmem_nodes_match_events {orc P n t nsize nlog} (ho : OracleOk orc P) (hp : PageOk P)
    (hn : 1 ≤ n) (ht : 1 ≤ t) (hf : Fits P nsize nlog) {st ss}
    (h : Reach orc P n t nsize nlog st ss) :
    (st.a.live.map (·.key)).Perm (st.nodes.map (·.2) ++ sentKeys st.sent) ∧
    (st.a.live.map (·.key)).Nodup ∧
    (st.nodes.map (·.1)).Perm (st.q.1.buckets.flatten.map (·.id)) ∧
    (∀ e ∈ st.q.1.zero, st.nodes.lookup e.id = none) ∧
    st.sent.length = st.q.1.buckets.length ∧
    st.a.live.length = st.q.1.buckets.flatten.length + 2 * st.q.1.buckets.length ∧
    (∀ e ∈ st.a.live, e.lsize = nsize ∧ e.lalign = 2 ^ nlog) ∧
    RInv orc P st.a ∧
    st.a.st.allocated = st.a.live.length * (sizeAlign nsize (2 ^ nlog)).1 := by
  have hi := reach_ninv ho hp hn ht hf h
  have hN := hi.nodes
  have hR := hi.rr.r
  have hlay : st.nsize = nsize ∧ st.nlog = nlog := by
    clear hi hN hR
    induction h with
    | create hc =>
      obtain ⟨st', evs', hc', _⟩ := create_ninv (orc := orc) ho hp hn ht hf
      simp only [create] at hc
      split at hc
      · simp at hc
      · split at hc
        · simp at hc
        · simp only [Prod.mk.injEq, Option.some.injEq] at hc
          rw [← hc.1]; exact ⟨rfl, rfl⟩
    | step op _ ih =>
      have key : ∀ (st : CQMem.State), (CQMem.step orc st op).st.nsize = st.nsize ∧
          (CQMem.step orc st op).st.nlog = st.nlog := by
        intro st
        cases op with
        | peek => exact ⟨rfl, rfl⟩
        | add time val =>
          simp only [CQMem.step, CQMem.add]
          split
          · exact ⟨rfl, rfl⟩
          · split
            · exact ⟨rfl, rfl⟩
            · split <;> exact ⟨rfl, rfl⟩
        | cancel k =>
          simp only [CQMem.step, CQMem.cancel]
          split
          · exact ⟨rfl, rfl⟩
          · split
            · exact ⟨rfl, rfl⟩
            · split
              · simp only [freeNodeOf]
                split <;> exact ⟨rfl, rfl⟩
              · exact ⟨rfl, rfl⟩
        | fetch =>
          simp only [CQMem.step, CQMem.fetch]
          split
          · exact ⟨rfl, rfl⟩
          · exact ⟨rfl, rfl⟩
          · split
            · simp only [freeNodeOf]
              split <;> exact ⟨rfl, rfl⟩
            · exact ⟨rfl, rfl⟩
      exact ⟨(key _).1.trans ih.1, (key _).2.trans ih.2⟩
  have hkeys : (st.a.live.map (·.key)).Perm (st.nodes.map (·.2) ++ sentKeys st.sent) :=
    (List.perm_ext_iff_of_nodup hN.k.nodup hN.keysNodup).mpr
      (fun x => (hN.keys x).trans List.mem_append.symm)
  have hidsFlat : (st.q.1.buckets.flatten.map (·.id)).Nodup := by
    have := hR.inv.nodup
    unfold CQ.pending at this
    rw [List.map_append] at this
    exact (List.nodup_append.mp this).2.1
  have hids : (st.nodes.map (·.1)).Perm (st.q.1.buckets.flatten.map (·.id)) :=
    (List.perm_ext_iff_of_nodup hN.idsNodup hidsFlat).mpr hN.ids
  have hblen : st.sent.length = st.q.1.buckets.length := by rw [hN.sentLen, hR.inv.hlen]
  have hlen : st.a.live.length = st.q.1.buckets.flatten.length + 2 * st.q.1.buckets.length := by
    have h1 := hkeys.length_eq
    have h2 := hids.length_eq
    simp only [List.length_map, List.length_append, sentKeys_length] at h1 h2
    omega
  have hlayout : ∀ e ∈ st.a.live, e.lsize = nsize ∧ e.lalign = 2 ^ nlog := by
    intro e he
    have := hN.layout e he
    rw [hlay.1, hlay.2] at this; exact this
  refine ⟨hkeys, hN.k.nodup, hids, ?_, hblen, hlen, hlayout, hN.k.r, ?_⟩
  · intro e he
    cases hl : st.nodes.lookup e.id with
    | none => rfl
    | some key =>
      exfalso
      have hm : e.id ∈ st.nodes.map (·.1) := List.mem_map.mpr ⟨(e.id, key), mem_of_lookup hl, rfl⟩
      have hb : e.id ∈ st.q.1.buckets.flatten.map (·.id) := (hN.ids e.id).mp hm
      have := hR.inv.nodup
      unfold CQ.pending at this
      rw [List.map_append] at this
      exact (List.nodup_append.mp this).2.2 e.id (List.mem_map_of_mem he) e.id hb rfl
  · rw [hN.k.r.inv.acct]
    have : ∀ (l : List Live), (∀ e ∈ l, e.lsize = nsize ∧ e.lalign = 2 ^ nlog) →
        (l.map (fun e => e.blk.size)).sum = l.length * (sizeAlign nsize (2 ^ nlog)).1 := by
      intro l
      induction l with
      | nil => intro _; simp
      | cons x xs ih =>
        intro hx
        have h1 := hx x (by simp)
        simp only [List.map_cons, List.sum_cons, List.length_cons]
        rw [ih (fun e he => hx e (by simp [he]))]
        simp only [Live.blk, h1.1, h1.2]
        rw [Nat.add_mul, Nat.one_mul, Nat.add_comm]
    exact this _ hlayout

open CQMem in
/-- **Drop releases everything, exactly once.** Dropping a reachable queue walks a key list that is
    a permutation of the keys of all live blocks (each node and each sentinel exactly once), every
    release succeeds, afterwards no block is live and `allocated_mem = 0`; the payloads destroyed
    are exactly the pending ones of the abstract event set (each once). -/
theorem cqmem_drop_releases_all {orc P n t nsize nlog} (ho : OracleOk orc P) (hp : PageOk P)
    (hn : 1 ≤ n) (ht : 1 ≤ t) (hf : Fits P nsize nlog) {st ss}
    (h : Reach orc P n t nsize nlog st ss) :
    (dropKeys st).Perm (st.a.live.map (·.key)) ∧
    (CQMem.drop orc st).out = .dropped ∧ (CQMem.drop orc st).st.a.live = [] ∧
    (CQMem.drop orc st).st.a.st.allocated = 0 ∧
    (CQMem.drop orc st).drops.Perm ((CQRun.spending ss.1).map (·.val)) := by
  obtain ⟨h1, h2, h3, h4, _, h6⟩ := drop_ninv ho hp (reach_ninv ho hp hn ht hf h)
  exact ⟨h1, h2, h3, h4, h6⟩

open CQMem in
/-- **`fetch`/`cancel` free exactly the node of the removed event.** If event `i` owns the block
    with key `key` in a reachable state, then after any operation that block is still live iff
    event `i` is still bucket-resident: the node of a fetched/cancelled event is released by that
    very operation, and no other node ever is. -/
theorem cqmem_node_freed_iff_event_removed {orc P n t nsize nlog} (ho : OracleOk orc P)
    (hp : PageOk P) (hn : 1 ≤ n) (ht : 1 ≤ t) (hf : Fits P nsize nlog) {st ss}
    (h : Reach orc P n t nsize nlog st ss) (op : CQRun.Op) {i key : Nat}
    (hk : st.nodes.lookup i = some key) :
    key ∈ (CQMem.step orc st op).st.a.live.map (·.key) ↔
      i ∈ (CQMem.step orc st op).st.q.1.buckets.flatten.map (·.id) :=
  node_live_iff ho hp (reach_ninv ho hp hn ht hf h) op hk

open CQMem CQRun in
/-- **Payload conservation and memory release for the composed model.** For every queue
    parameterisation, every in-range node layout, every page oracle and every add/cancel/fetch/peek
    script there is a reachable queue-with-memory state whose queue component is the calendar-queue
    model's run of the script, and dropping it (i) releases every live block exactly once, leaving
    nothing allocated, and (ii) destroys payloads such that: payloads accepted by `add` =
    payloads returned by `fetch` ⊎ payloads of events cancelled while pending ⊎ payloads destroyed
    by the drop — each exactly once, unchanged. -/
theorem cqmem_payload_conservation {orc P} (ho : OracleOk orc P) (hp : PageOk P)
    {n t nsize nlog : Nat} (hn : 1 ≤ n) (ht : 1 ≤ t) (hf : Fits P nsize nlog) (ops : List CQRun.Op) :
    ∃ st, Reach orc P n t nsize nlog st (srun ops).1 ∧ st.q = (mrun n t ops).1 ∧
      (CQMem.drop orc st).out = .dropped ∧ (CQMem.drop orc st).st.a.live = [] ∧
      (CQMem.drop orc st).st.a.st.allocated = 0 ∧
      ((hist ops).2.added.map (·.val)).Perm
        ((hist ops).2.fetched.map (·.val) ++ (hist ops).2.cancelled.map (·.val) ++
          (CQMem.drop orc st).drops) := by
  obtain ⟨st0, _, hc, hr0⟩ := cqmem_create_succeeds (orc := orc) ho hp hn ht hf
  obtain ⟨st, hr, hq⟩ := reach_run ho hp hn ht hf ops hr0
  have hq0 : st0.q = (CQ.init n t, []) := by
    simp only [create] at hc
    split at hc
    · simp at hc
    · split at hc
      · simp at hc
      · simp only [Prod.mk.injEq, Option.some.injEq] at hc
        rw [← hc.1]
  rw [hq0] at hq
  obtain ⟨_, h2, h3, h4, _⟩ := cqmem_drop_releases_all ho hp hn ht hf hr
  refine ⟨st, hr, hq, h2, h3, h4, ?_⟩
  obtain ⟨hperm, _, _⟩ := payload_conservation n t hn ht ops
  have := hperm.map (·.val)
  simp only [List.map_append] at this
  rw [drop_drops, hq]
  simpa [mrun, List.map_append] using this

/-! ### Non-vacuity -/

/-- a concrete oracle: page k at `(k+1)·256` -/
def demoOrc : Nat → Nat := fun k => (k + 1) * 256

theorem oracle_assumption_satisfiable : OracleOk demoOrc 256 :=
  ⟨fun k => by simp [demoOrc], fun i j h => by simp only [demoOrc]; omega⟩

theorem page_assumption_satisfiable : PageOk 256 := ⟨8, by omega, by decide⟩

/-- alloc 40/8 three times, free the middle one, alloc 40/8 (reuses it), alloc 200/16 (new page) -/
def demoOps : List Op := [.alloc 40 3, .alloc 40 3, .alloc 40 3, .free 1, .alloc 40 3, .alloc 200 4]

example : (run demoOrc 256 demoOps).map (·.2) =
    some [.allocated 256, .allocated 296, .allocated 336, .freed, .allocated 296, .allocated 512] := by
  decide

/-- the reached state: four live blocks on two pages; the 48-byte tail behind the 208-byte block
    was abandoned (shorter than the block), the 136-byte tail of the first page is free -/
-- X
example : (run demoOrc 256 demoOps).map (fun r => (r.1.live.length, r.1.st.pages, r.1.st.allocated, r.1.st.free)) =
    some (4, [256, 512], 3 * 40 + 208, [⟨376, 136⟩]) := by decide

/-- the witness of non-termination: 248 bytes on 256-byte pages -/
theorem alloc_diverges_witness :
    (run demoOrc 256 [.alloc 248 3]).map (·.2) = some [.diverged] := by decide

/-- …and a whole page, or page − 16, is fine -/
example : (run demoOrc 256 [.alloc 256 3, .alloc 240 3]).map (·.2) =
    some [.allocated 256, .allocated 512] := by decide

/-- hypotheses of the `CQMem` theorems are satisfiable: 56-byte nodes (CQueue<u64>) on 256-byte pages -/
theorem node_layout_in_range : Fits 256 56 3 := by unfold Fits; decide

/-- …and 56-byte nodes on 64-byte pages are NOT in range (the allocator diverges) -/
example : ¬ Fits 64 56 3 := by unfold Fits; decide

/-- a reachable queue-with-memory state: new(2 buckets, width 10), add at 5 and at 0, fetch -/
example : ∃ st ss, CQMem.Reach demoOrc 256 2 10 56 3 st ss :=
  let ⟨st, _, _, hr⟩ := cqmem_create_succeeds (n := 2) (t := 10) oracle_assumption_satisfiable
    page_assumption_satisfiable (by omega) (by omega) node_layout_in_range
  ⟨_, _, .step .fetch (.step (.add 0 8) (.step (.add 5 7) hr))⟩

end C15

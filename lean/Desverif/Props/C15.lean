/-
C15 — Calendar-queue memory is safe and every payload is dropped exactly once.

Only property theorems live here.  `Alloc` is the model of the page allocator
(des-cqueue/src/stable/alloc.rs, Model/Alloc.lean); `CQMem` composes it with the calendar-queue
model `CQ` the way `LocalBox`/`DualLinkedList` use it (Model/CQMem.lean).

The allocator theorems hold for EVERY request/free script `ops` (layouts `(size, 2^k)`, every
size and alignment; `free` releases a live block with its own layout — the contract of
`deallocate`), every page size `P = 2^p ≥ 16` and every page oracle `orc` that yields pages
aligned to `P` and pairwise disjoint (`OracleOk`).  `rs` is the state reached by `ops`.

Outside any Lean model (partial): the raw-pointer aliasing / provenance side of the code.
-/
import Desverif.Proofs.AllocRun
import Desverif.Proofs.CQMemQueue
namespace C15
open Alloc

/-- every script runs (construction of the allocator never fails) -/
theorem run_total {orc P} (ho : OracleOk orc P) (hp : PageOk P) (ops : List Op) :
    ∃ rs outs, run orc P ops = some (rs, outs) := by
  obtain ⟨rs0, h0, _⟩ := start_inv ho hp
  exact ⟨_, _, by simp [run, h0]; rfl⟩

/-- the representation invariant holds in every reachable state -/
theorem invariant_reachable {orc P} (ho : OracleOk orc P) (hp : PageOk P) {ops rs outs}
    (hr : run orc P ops = some (rs, outs)) : RInv orc P rs := by
  obtain ⟨rs0, h0, hi, _⟩ := start_inv ho hp
  simp only [run, h0, Option.map_some, Option.some.injEq] at hr
  have := runFrom_inv ho hp ops hi
  rw [hr] at this
  exact this

/-- **No assertion of the allocator can fail**, and `allocated_mem` never underflows, on any
    script (the only abnormal outcome left is non-termination, characterised below). -/
theorem no_assert_failure {orc P} (ho : OracleOk orc P) (hp : PageOk P) {ops rs outs}
    (hr : run orc P ops = some (rs, outs)) : Out.internal ∉ outs := by
  obtain ⟨rs0, h0, hi, _⟩ := start_inv ho hp
  simp only [run, h0, Option.map_some, Option.some.injEq] at hr
  have := runFrom_not_internal ho hp ops hi
  rw [hr] at this
  exact this

/-- **A returned block is disjoint from every live block** — the whole reserved footprint
    (normalised size ≥ requested size), against the whole footprint of every block that was
    returned earlier and not released since. -/
theorem alloc_disjoint_from_live {orc P} (ho : OracleOk orc P) (hp : PageOk P) {ops rs outs}
    (hr : run orc P ops = some (rs, outs)) {lsize k rs' a}
    (hs : step orc rs (.alloc lsize k) = (rs', .allocated a)) :
    ∀ e ∈ rs.live, Disj ⟨a, (sizeAlign lsize (2 ^ k)).1⟩ e.blk := by
  have hi := invariant_reachable ho hp hr
  obtain ⟨s', ha, _⟩ := step_alloc_allocated hs
  have hf := allocate_some ho hp hi.inv ha rs.next
  have hd := (List.pairwise_append.mp hf.inv.disj).2.1
  simp only [List.map_cons] at hd
  intro e he
  exact (List.pairwise_cons.mp hd).1 e.blk (List.mem_map_of_mem he)

/-- the reserved footprint covers the requested bytes -/
theorem footprint_covers_request (lsize lalign : Nat) : lsize ≤ (sizeAlign lsize lalign).1 :=
  sizeAlign_ge lsize lalign

/-- **A returned block is aligned** for the requested layout, and for a free-list node. -/
theorem alloc_aligned {orc P} (ho : OracleOk orc P) (hp : PageOk P) {ops rs outs}
    (hr : run orc P ops = some (rs, outs)) {lsize k rs' a}
    (hs : step orc rs (.alloc lsize k) = (rs', .allocated a)) :
    a % 2 ^ k = 0 ∧ a % 8 = 0 := by
  have hi := invariant_reachable ho hp hr
  obtain ⟨s', ha, _⟩ := step_alloc_allocated hs
  have hf := (allocate_some ho hp hi.inv ha rs.next).aligned
  simp only [sizeAlign] at hf
  constructor
  · apply mod_of_dvd_mod _ hf
    rw [max_pow_eq]
    exact Nat.pow_dvd_pow 2 (Nat.le_max_left k 3)
  · exact mod_of_dvd_mod (eight_dvd_max_pow k) hf

/-- **A returned block lies inside one page the allocator owns.** -/
theorem alloc_within_pages {orc P} (ho : OracleOk orc P) (hp : PageOk P) {ops rs outs}
    (hr : run orc P ops = some (rs, outs)) {lsize k rs' a}
    (hs : step orc rs (.alloc lsize k) = (rs', .allocated a)) :
    ∃ b ∈ rs'.st.pages, b ≤ a ∧ a + (sizeAlign lsize (2 ^ k)).1 ≤ b + P := by
  have hi := invariant_reachable ho hp hr
  obtain ⟨s', ha, rfl⟩ := step_alloc_allocated hs
  have hf := (allocate_some ho hp hi.inv ha rs.next).inv
  obtain ⟨_, _, i, hlt, h1, h2⟩ := hf.live _ (List.mem_cons_self)
  refine ⟨orc i, ?_, h1, h2⟩
  simp only
  rw [hf.pages]
  exact List.mem_map.mpr ⟨i, List.mem_range.mpr hlt, rfl⟩

/-- **Free regions are pairwise disjoint and disjoint from every live block** (and live blocks
    from each other), in every reachable state; each free region can hold its own `ListNode`
    header (≥ 16 bytes, 8-aligned) and lies inside an owned page — so the headers the allocator
    writes stay outside all live memory. -/
theorem free_regions_disjoint_and_outside_live {orc P} (ho : OracleOk orc P) (hp : PageOk P)
    {ops rs outs} (hr : run orc P ops = some (rs, outs)) :
    (rs.st.free ++ rs.live.map Live.blk).Pairwise Disj ∧
    ∀ r ∈ rs.st.free, 16 ≤ r.size ∧ r.addr % 8 = 0 ∧
      ∃ b ∈ rs.st.pages, b ≤ r.addr ∧ r.stop ≤ b + P := by
  have hi := (invariant_reachable ho hp hr).inv
  refine ⟨hi.disj, ?_⟩
  intro r hrm
  obtain ⟨h16, h8, i, hlt, h1, h2⟩ := hi.free r hrm
  refine ⟨h16, h8, orc i, ?_, h1, h2⟩
  rw [hi.pages]
  exact List.mem_map.mpr ⟨i, List.mem_range.mpr hlt, rfl⟩

/-- the owned pages are exactly the pages obtained from the oracle, in order: page-aligned and
    pairwise disjoint -/
theorem pages_owned {orc P} (ho : OracleOk orc P) (hp : PageOk P) {ops rs outs}
    (hr : run orc P ops = some (rs, outs)) :
    rs.st.pages = (List.range rs.st.pages.length).map orc ∧ rs.st.pageSize = P :=
  ⟨(invariant_reachable ho hp hr).inv.pages, (invariant_reachable ho hp hr).inv.ps⟩

/-- **Memory is reused only after it was released**: if a block `e` is live after `ops₁` and a
    later allocation (after `ops₂` more operations) returns memory overlapping it, then `ops₂`
    contains the `free` of `e`. -/
theorem reuse_only_after_free {orc P} (ho : OracleOk orc P) (hp : PageOk P) {ops₁ ops₂ : List Op}
    {rs₁ rs₂ outs₁ outs₂} (h1 : run orc P ops₁ = some (rs₁, outs₁))
    (h2 : run orc P (ops₁ ++ ops₂) = some (rs₂, outs₂)) {e : Live} (he : e ∈ rs₁.live)
    {lsize k rs' a} (hs : step orc rs₂ (.alloc lsize k) = (rs', .allocated a))
    (hov : ¬ Disj ⟨a, (sizeAlign lsize (2 ^ k)).1⟩ e.blk) : Op.free e.key ∈ ops₂ := by
  apply Classical.byContradiction
  intro hno
  apply hov
  apply alloc_disjoint_from_live ho hp h2 hs
  obtain ⟨rs0, h0, _⟩ := start_inv ho hp
  simp only [run, h0, Option.map_some, Option.some.injEq] at h1 h2
  rw [runFrom_append] at h2
  have h3 : rs₂ = (runFrom orc (runFrom orc rs0 ops₁).1 ops₂).1 := (Prod.mk.inj h2).1.symm
  rw [h3, h1]
  exact live_persists ops₂ he hno

/-- **Accounted bytes = sum of the live blocks' sizes** -/
theorem allocated_mem_eq_sum_live {orc P} (ho : OracleOk orc P) (hp : PageOk P) {ops rs outs}
    (hr : run orc P ops = some (rs, outs)) :
    rs.st.allocated = (rs.live.map (fun e => e.blk.size)).sum :=
  (invariant_reachable ho hp hr).inv.acct

/-- a request larger than a page is refused and changes nothing -/
theorem oversize_refused {orc rs lsize k} (h : (sizeAlign lsize (2 ^ k)).1 > rs.st.pageSize) :
    step orc rs (.alloc lsize k) = (rs, .failed) := by
  have : allocate orc rs.st lsize (2 ^ k) = .ok (rs.st, none) := by
    unfold allocate
    generalize sizeAlign lsize (2 ^ k) = sa at h ⊢
    obtain ⟨size, align⟩ := sa
    simp only at h ⊢
    rw [if_pos h]
  simp [step, this]

/-- **Termination side-condition (sufficient).** A request whose normalised alignment does not
    exceed the page size and whose normalised size is a whole page or at most `page − 16` is always
    served: `find_region` returns after adding at most one page. -/
theorem alloc_terminates {orc P} (ho : OracleOk orc P) (hp : PageOk P) {ops rs outs}
    (hr : run orc P ops = some (rs, outs)) (lsize k : Nat)
    (hal : (sizeAlign lsize (2 ^ k)).2 ≤ P)
    (hsz : (sizeAlign lsize (2 ^ k)).1 = P ∨ (sizeAlign lsize (2 ^ k)).1 + 16 ≤ P) :
    ∃ a, (step orc rs (.alloc lsize k)).2 = .allocated a := by
  have hi := (invariant_reachable ho hp hr).inv
  have hn := sizeAlign_ok lsize k
  have hdvd : (sizeAlign lsize (2 ^ k)).2 ∣ P := by
    obtain ⟨p, _, rfl⟩ := hp
    simp only [sizeAlign] at hal ⊢
    rw [max_pow_eq] at hal ⊢
    exact pow_dvd_of_le hal
  obtain ⟨t, ht⟩ := findRegion_terminates ho hp hdvd hn.alignPos hsz hi
  rcases step_alloc_cases orc rs lsize k with ⟨e, h1, _⟩ | ⟨s', h1, _⟩ | ⟨s', a, _, h2⟩
  · -- no error: find_region terminates, and it is the only possible failure
    have hd := allocate_err ho hp hi h1
    subst hd
    have := allocate_diverge_inv h1
    rw [ht] at this
    simp at this
  · have := (allocate_none h1).2
    rw [hi.ps] at this
    omega
  · exact ⟨a, by rw [h2]⟩

/-- **Termination side-condition (necessary).** A request of normalised size strictly between
    `page − 16` and `page` that no free region serves makes `find_region` add pages forever (each
    fresh page leaves 1‥15 bytes behind the block, which the fit test rejects): the model reports
    `diverged` for every amount of fuel. Such sizes are outside the property's "fits a page"
    range; `CQueue<T>` hits them when `size_of::<EventNode<T>>()` is in that window. -/
theorem alloc_diverges {orc P} (ho : OracleOk orc P) (hp : PageOk P) {ops rs outs}
    (hr : run orc P ops = some (rs, outs)) (size align fuel : Nat)
    (hal : align ∣ P) (hpos : 0 < align) (h1 : P < size + 16) (h2 : size < P)
    (hnone : scan rs.st.free size align = none) :
    findRegion orc fuel rs.st size align = .error .diverge :=
  findRegion_diverges ho hp hal hpos h1 h2 fuel (invariant_reachable ho hp hr).inv hnone

/-! ### Payloads (on the calendar-queue model of C01) -/

open CQRun in
/-- **Payload conservation.** For every add/cancel/fetch script and every queue parameterisation:
    the events ever accepted by `add` are — as the very records `(time, id, payload)` they were
    inserted as, with pairwise different ids — exactly (a permutation of) those returned by
    `fetch`, those removed by `cancel` while pending, and those still stored in the queue when it
    is dropped (`CQMem.drop` destroys precisely these: `CQMem.drop_drops`).  So every payload is
    handed back or destroyed exactly once, unchanged. -/
theorem payload_conservation (n t : Nat) (hn : 1 ≤ n) (ht : 1 ≤ t) (ops : List CQRun.Op) :
    let m := (mrun n t ops).1.1
    (hist ops).2.added.Perm
      ((hist ops).2.fetched ++ (hist ops).2.cancelled ++ (m.buckets.flatten ++ m.zero)) ∧
    ((hist ops).2.added.map (·.id)).Nodup ∧
    fetchedOuts (mrun n t ops).2 = (hist ops).2.fetched.map (fun e => (e.val, e.time)) := by
  intro m
  have href := runWith_refines ops (init_RR n t hn ht)
  have g := ginv_hist ops
  have hst : (hist ops).1 = (srun ops).1 := histFrom_state ops _ _
  rw [hst] at g
  refine ⟨?_, g.nodup, ?_⟩
  · have hr : CQ.R m (srun ops).1.1 := href.2.r
    have hp : (m.buckets.flatten ++ m.zero).Perm (spending (srun ops).1.1) := by
      unfold spending
      rw [← hr.zero]
      exact List.perm_append_comm.trans (List.Perm.append_left _ hr.pend)
    refine g.perm.trans ?_
    have := (List.Perm.append_right ((hist ops).2.fetched ++ (hist ops).2.cancelled) hp.symm)
    refine (List.Perm.trans ?_ this).trans List.perm_append_comm
    simp only [List.append_assoc]
    exact List.Perm.refl _
  · have h1 : (mrun n t ops).2 = (srun ops).2 := href.1
    rw [h1]
    have := histFrom_fetched ops (FES.init, []) {}
    simpa [hist, srun] using this.symm

/-- the queue-with-memory model answers exactly as the calendar-queue model whenever it answers,
    so `payload_conservation` (and C01/C03) apply to its queue component -/
theorem cqmem_queue_is_cq (orc : Nat → Nat) (st : CQMem.State) (op : CQRun.Op) (o : CQRun.Out)
    (h : (CQMem.step orc st op).out = .cq o) :
    (CQMem.step orc st op).st.q = (CQRun.mstep st.q op).1 ∧ o = (CQRun.mstep st.q op).2 :=
  CQMem.step_queue orc st op o h

/-! ### Non-vacuity -/

/-- a concrete oracle: page k at `(k+1)·256` -/
def demoOrc : Nat → Nat := fun k => (k + 1) * 256

theorem oracle_assumption_satisfiable : OracleOk demoOrc 256 :=
  ⟨fun k => by simp [demoOrc], fun i j h => by simp only [demoOrc]; omega⟩

theorem page_assumption_satisfiable : PageOk 256 := ⟨8, by omega, by decide⟩

/-- alloc 40/8 three times, free the middle one, alloc 40/8 (reuses it), alloc 200/16 (new page) -/
def demoOps : List Op := [.alloc 40 3, .alloc 40 3, .alloc 40 3, .free 1, .alloc 40 3, .alloc 200 4]

example : (run demoOrc 256 demoOps).map (·.2) =
    some [.allocated 256, .allocated 296, .allocated 336, .freed, .allocated 296, .allocated 512] := by
  decide

/-- the reached state: four live blocks on two pages; the 48-byte tail behind the 208-byte block
    was abandoned (shorter than the block), the 136-byte tail of the first page is free -/
-- X
example : (run demoOrc 256 demoOps).map (fun r => (r.1.live.length, r.1.st.pages, r.1.st.allocated, r.1.st.free)) =
    some (4, [256, 512], 3 * 40 + 208, [⟨376, 136⟩]) := by decide

/-- the witness of non-termination: 248 bytes on 256-byte pages -/
theorem alloc_diverges_witness :
    (run demoOrc 256 [.alloc 248 3]).map (·.2) = some [.diverged] := by decide

/-- …and a whole page, or page − 16, is fine -/
example : (run demoOrc 256 [.alloc 256 3, .alloc 240 3]).map (·.2) =
    some [.allocated 256, .allocated 512] := by decide

end C15

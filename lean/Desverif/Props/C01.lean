/-
C01 — Future event set: time-ordered, exactly-once, cancellable dispatch.

Only property theorems live here.  `CQ` is the model of `des_cqueue::CQueue`
(Model/CQ.lean), `FES` the abstract event set (Spec/FES.lean), `CQRun` the scripted-run
interface the driver replays implementation transcripts against.
All statements quantify over every script `ops`, every bucket count `n ≥ 1`, every bucket width
`t ≥ 1` (ns); timestamps, payloads and script length are unbounded `Nat`s.
-/
import Desverif.Proofs.FESHist
namespace C01
open CQRun
open CQ (Ev)

/-- **Refinement.** For every parameterisation and every script the calendar queue produces the
    same outputs as the abstract event set (and ends in a related state). -/
theorem model_refines_spec (n t : Nat) (hn : 1 ≤ n) (ht : 1 ≤ t) (ops : List Op) :
    (mrun n t ops).2 = (srun ops).2 ∧ RR (mrun n t ops).1 (srun ops).1 :=
  runWith_refines ops (init_RR n t hn ht)

/-- The representation invariant holds in every reachable state. -/
theorem invariant_reachable (n t : Nat) (hn : 1 ≤ n) (ht : 1 ≤ t) (ops : List Op) :
    CQ.Inv (mrun n t ops).1.1 := (model_refines_spec n t hn ht ops).2.r.inv

/-- The scan loop of `fetch_next` always terminates within the computed fuel and the model never
    reaches a state the code cannot (no `internal` output), for every script. -/
theorem never_internal (n t : Nat) (hn : 1 ≤ n) (ht : 1 ≤ t) (ops : List Op) :
    Out.internal ∉ (mrun n t ops).2 := by
  rw [(model_refines_spec n t hn ht ops).1]
  -- the abstract event set has no such output
  have : ∀ (ops : List Op) (st : FES.State × Handles), Out.internal ∉ (runWith sstep st ops).2 := by
    intro ops
    induction ops with
    | nil => intro st; simp [runWith]
    | cons op ops ih =>
      intro st
      simp only [runWith, List.mem_cons, not_or]
      refine ⟨?_, ih _⟩
      cases op with
      | add time val => simp only [sstep]; cases FES.add st.1 time val <;> simp
      | cancel k =>
        simp only [sstep]
        cases st.2[k]? with
        | none => simp
        | some p => simp
      | fetch => simp only [sstep]; cases FES.fetch st.1 <;> simp
      | peek => simp [sstep]
  exact this ops _

/-- **`next_time()` announces exactly the timestamp the next `fetch_next` returns** and changes
    nothing (it is what the runtime tests its limit against, C10/C11). -/
theorem peek_agrees_with_fetch (n t : Nat) (hn : 1 ≤ n) (ht : 1 ≤ t) (ops : List Op) :
    (mstep (mrun n t ops).1 .peek).1 = (mrun n t ops).1 ∧
    (mstep (mrun n t ops).1 .peek).2 = .peeked (FES.nextTime (srun ops).1.1) ∧
    (match (mstep (mrun n t ops).1 .fetch).2 with
     | .fetched _ tm => FES.nextTime (srun ops).1.1 = some tm
     | .empty => FES.nextTime (srun ops).1.1 = none
     | _ => False) := by
  have h := (model_refines_spec n t hn ht ops).2
  refine ⟨rfl, ?_, ?_⟩
  · simp only [mstep]; rw [CQ.nextTime_refines h.r]
  · rw [(step_refines h .fetch).1]
    simp only [sstep, FES.fetch, FES.nextTime]
    cases hz : (srun ops).1.1.zero with
    | cons e z => simp
    | nil =>
      simp only
      cases hm : FES.minEv (srun ops).1.1.pend <;> simp

/-- Outputs do not depend on the queue parameters. -/
theorem config_independent (n t n' t' : Nat) (hn : 1 ≤ n) (ht : 1 ≤ t) (hn' : 1 ≤ n')
    (ht' : 1 ≤ t') (ops : List Op) : (mrun n t ops).2 = (mrun n' t' ops).2 := by
  rw [(model_refines_spec n t hn ht ops).1, (model_refines_spec n' t' hn' ht' ops).1]

/-- The reported length is the number of pending events of the abstract event set. -/
theorem len_agrees (n t : Nat) (hn : 1 ≤ n) (ht : 1 ≤ t) (ops : List Op) :
    (mrun n t ops).1.1.len = FES.len (srun ops).1.1 :=
  (model_refines_spec n t hn ht ops).2.r.len

/-- The reported time is the abstract clock (timestamp of the last fetched event). -/
theorem time_agrees (n t : Nat) (hn : 1 ≤ n) (ht : 1 ≤ t) (ops : List Op) :
    (mrun n t ops).1.1.tcur = (srun ops).1.1.cur :=
  (model_refines_spec n t hn ht ops).2.r.cur

/-- the ghost history runs through the same states as the plain abstract run -/
theorem hist_state (ops : List Op) : (hist ops).1 = (srun ops).1 := histFrom_state ops _ _

/-- what the calendar queue's fetches returned is exactly the `fetched` history -/
theorem fetched_outputs (n t : Nat) (hn : 1 ≤ n) (ht : 1 ≤ t) (ops : List Op) :
    fetchedOuts (mrun n t ops).2 = (hist ops).2.fetched.map (fun e => (e.val, e.time)) := by
  rw [(model_refines_spec n t hn ht ops).1]
  have := histFrom_fetched ops (FES.init, []) {}
  simpa [hist, srun] using this.symm

/-- **Fetch returns events in non-decreasing timestamp order.** -/
theorem fetch_times_monotone (n t : Nat) (hn : 1 ≤ n) (ht : 1 ≤ t) (ops : List Op) :
    ((fetchedOuts (mrun n t ops).2).map (·.2)).Pairwise (· ≤ ·) := by
  rw [fetched_outputs n t hn ht ops, List.map_map]
  have := (ginv_hist ops).mono
  rw [List.pairwise_map]
  exact this

/-- **Conservation.** Every event ever scheduled is, at any point of any history, in exactly one
    of: still pending, fetched, cancelled-while-pending — as the very event (timestamp and payload)
    it was scheduled as; ids are unique, so "exactly one" is meaningful. -/
theorem conservation (ops : List Op) :
    (hist ops).2.added.Perm
      (spending (srun ops).1.1 ++ (hist ops).2.fetched ++ (hist ops).2.cancelled) ∧
    ((hist ops).2.added.map (·.id)).Nodup := by
  have g := ginv_hist ops
  rw [hist_state] at g
  exact ⟨g.perm, g.nodup⟩

/-- **Each fetched event was scheduled, with that timestamp, and is fetched at most once.** -/
theorem fetched_scheduled_once (ops : List Op) :
    (∀ e ∈ (hist ops).2.fetched, e ∈ (hist ops).2.added) ∧
    ((hist ops).2.fetched.map (·.id)).Nodup := by
  obtain ⟨hp, hnd⟩ := conservation ops
  constructor
  · intro e he
    exact hp.mem_iff.mpr (by simp [he])
  · have h1 := (hp.map (·.id)).nodup_iff.mp hnd
    have hsub : (hist ops).2.fetched.Sublist
        (spending (srun ops).1.1 ++ (hist ops).2.fetched ++ (hist ops).2.cancelled) := by
      simp only [List.append_assoc]
      exact (List.sublist_append_left _ _).trans (List.sublist_append_right _ _)
    exact (hsub.map _).nodup h1

/-- **A pending event that was cancelled is never returned** (not even another event with its id),
    and it is not pending any more. -/
theorem cancelled_never_fetched (ops : List Op) :
    ∀ c ∈ (hist ops).2.cancelled,
      (∀ f ∈ (hist ops).2.fetched, f.id ≠ c.id) ∧ (∀ p ∈ spending (srun ops).1.1, p.id ≠ c.id) := by
  obtain ⟨hp, hnd⟩ := conservation ops
  have h1 := (hp.map (·.id)).nodup_iff.mp hnd
  rw [List.map_append, List.map_append, List.nodup_append] at h1
  obtain ⟨h2, _, h3⟩ := h1
  rw [List.nodup_append] at h2
  intro c hc
  constructor
  · intro f hf heq
    exact h3 f.id (List.mem_append_right _ (List.mem_map_of_mem hf)) c.id (List.mem_map_of_mem hc) heq
  · intro p hpm heq
    exact h3 p.id (List.mem_append_left _ (List.mem_map_of_mem hpm)) c.id (List.mem_map_of_mem hc) heq

/-- **Once the queue is drained, every scheduled event was fetched or cancelled — exactly once.** -/
theorem drained_all_accounted (ops : List Op) (hempty : FES.len (srun ops).1.1 = 0) :
    (hist ops).2.added.Perm ((hist ops).2.fetched ++ (hist ops).2.cancelled) := by
  obtain ⟨hp, _⟩ := conservation ops
  have : spending (srun ops).1.1 = [] := by
    apply List.eq_nil_of_length_eq_zero
    simpa [spending, FES.len] using hempty
  simpa [this] using hp

/-- **The reported length equals scheduled − cancelled − fetched**, for the calendar queue
    itself. -/
theorem len_eq (n t : Nat) (hn : 1 ≤ n) (ht : 1 ≤ t) (ops : List Op) :
    (mrun n t ops).1.1.len + (hist ops).2.fetched.length + (hist ops).2.cancelled.length =
      (hist ops).2.added.length := by
  rw [len_agrees n t hn ht ops]
  obtain ⟨hp, _⟩ := conservation ops
  have := hp.length_eq
  simp only [List.length_append, spending] at this
  simp only [FES.len]; omega

/-- **Cancelling an event that was already fetched (or already cancelled) changes nothing.** -/
theorem cancel_after_fetch_noop (ops : List Op) (k id time : Nat)
    (hk : (srun ops).1.2[k]? = some (id, time))
    (hgone : ∃ e ∈ (hist ops).2.fetched ++ (hist ops).2.cancelled, e.id = id) :
    sstep (srun ops).1 (.cancel k) = ((srun ops).1, .cancelDone) := by
  obtain ⟨hp, hnd⟩ := conservation ops
  have h1 := (hp.map (·.id)).nodup_iff.mp hnd
  rw [List.append_assoc, List.map_append, List.nodup_append] at h1
  obtain ⟨_, _, h3⟩ := h1
  obtain ⟨e, he, heid⟩ := hgone
  have hno : ∀ x ∈ spending (srun ops).1.1, x.id ≠ id := by
    intro x hx hxid
    exact h3 x.id (List.mem_map_of_mem hx) e.id (List.mem_map_of_mem he) (hxid.trans heid.symm)
  simp only [sstep, hk]
  have hz : FES.eraseId (srun ops).1.1.zero id = (srun ops).1.1.zero :=
    CQ.eraseId_eq_self (fun x hx => hno x (List.mem_append_left _ hx))
  have hpd : FES.eraseId (srun ops).1.1.pend id = (srun ops).1.1.pend :=
    CQ.eraseId_eq_self (fun x hx => hno x (List.mem_append_right _ hx))
  simp [FES.cancel, hz, hpd]

/-! ### Non-vacuity: a concrete history with a tie, a whole-"year" wrap, a cancel of a
bucket-resident event whose time equals the current time, and a cancel after fetch. -/

def demoOps : List Op :=
  [.add 2 10, .add 2 11, .add 8 12, .add 0 13, .fetch, .fetch, .cancel 1, .cancel 0, .fetch, .fetch]

example : (mrun 4 1 demoOps).2 =
    [.added, .added, .added, .added, .fetched 13 0, .fetched 10 2, .cancelDone, .cancelDone,
     .fetched 12 8, .empty] := by decide

example : (srun demoOps).2 = (mrun 4 1 demoOps).2 := by decide

end C01

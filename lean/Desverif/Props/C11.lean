/-
C11 — Runtime limits stop the run exactly where specified without losing events.

Model: `Rt.Limit`, `Rt.dispatchEvent` (the limit is tested against `next_time()` before anything is
fetched), `Rt.dispatchAll`, `Rt.drain` (= `finish`), over the calendar-queue model for every
`(n,t)`.  `takeAdm L i l` is the longest prefix of `l` whose j-th element (event number `i+j+1`,
timestamp `t`) satisfies `¬ L.applies (i+j+1) t`.
-/
import Desverif.Props.C02
namespace C11
open Rt

/-- a run (`dispatch_all`) of the runtime built with limit `l`, after pre-run `add_event`s -/
def runWith (n t start : Nat) (l : Limit) (prog : Prog) (fuel : Nat) (pre : List (Nat × Nat)) :=
  C02.session n t start l prog fuel (pre.map (fun p => Cmd.add p.1 p.2) ++ [.runAll])

/-- `Builder::max_itr / max_time / limit` compose with *or*. -/
theorem builder_composes_with_or (a b : Limit) (i t : Nat) :
    (a.add b).applies i t = (a.applies i t || b.applies i t) := Limit.applies_add a b i t

/-- And / Or limits stop exactly when the logical combination of the two conditions holds. -/
theorem and_or_semantics (a b : Limit) (i t : Nat) :
    (Limit.and a b).applies i t = (a.applies i t && b.applies i t) ∧
    (Limit.or a b).applies i t = (a.applies i t || b.applies i t) := ⟨rfl, rfl⟩

/-- the state in which `dispatch_all` starts does not depend on the limit -/
theorem pre_state (start : Nat) (l : Limit) (prog : Prog) (fuel : Nat) (pre : List (Nat × Nat)) :
    (execCmds fesES prog fuel (build FES.init start l) (pre.map (fun p => Cmd.add p.1 p.2))).1 =
      withLimit (execCmds fesES prog fuel (build FES.init start .none)
        (pre.map (fun p => Cmd.add p.1 p.2))).1 l ∧
    (execCmds fesES prog fuel (build FES.init start l) (pre.map (fun p => Cmd.add p.1 p.2))).2 =
      (execCmds fesES prog fuel (build FES.init start .none) (pre.map (fun p => Cmd.add p.1 p.2))).2 := by
  have key : ∀ (pre : List (Nat × Nat)) (s : S),
      (execCmds fesES prog fuel (withLimit s l) (pre.map (fun p => Cmd.add p.1 p.2))).1 =
        withLimit (execCmds fesES prog fuel s (pre.map (fun p => Cmd.add p.1 p.2))).1 l ∧
      (execCmds fesES prog fuel (withLimit s l) (pre.map (fun p => Cmd.add p.1 p.2))).2 =
        (execCmds fesES prog fuel s (pre.map (fun p => Cmd.add p.1 p.2))).2 := by
    intro pre
    induction pre with
    | nil => intro s; exact ⟨rfl, rfl⟩
    | cons p ps ih =>
      intro s
      simp only [List.map_cons, execCmds, execCmd]
      rw [addEvent_withLimit]
      obtain ⟨i1, i2⟩ := ih (addEvent fesES s p.1 p.2).1
      exact ⟨i1, by rw [i2]; rfl⟩
  exact key pre (build FES.init start .none)

theorem split_run (prog : Prog) (fuel : Nat) (cs : List Cmd) (x : S) :
    execCmds fesES prog fuel x (cs ++ [.runAll]) =
      ((dispatchAll fesES prog fuel (execCmds fesES prog fuel x cs).1).1,
       (execCmds fesES prog fuel x cs).2 ++
         [((dispatchAll fesES prog fuel (execCmds fesES prog fuel x cs).1).2,
           paused fesES (dispatchAll fesES prog fuel (execCmds fesES prog fuel x cs).1).1)]) := by
  induction cs generalizing x with
  | nil => simp [execCmds, execCmd]
  | cons c cs ih => simp only [List.cons_append, execCmds]; rw [ih]

/-- **A limited run dispatches exactly the longest prefix of the unlimited run that the limit
    admits** — same program, same pre-scheduled events, any `(n,t)`, any start time. -/
theorem limited_handled_eq_admitted_prefix (n t : Nat) (hn : 1 ≤ n) (ht : 1 ≤ t) (start : Nat)
    (l : Limit) (prog : Prog) (fuel : Nat) (pre : List (Nat × Nat)) :
    handledOf (allObs (runWith n t start l prog fuel pre).2) =
      takeAdm l 0 (handledOf (allObs (runWith n t start .none prog fuel pre).2)) := by
  unfold runWith
  rw [(C02.runtime_refines_spec n t hn ht start l prog fuel _).1,
      (C02.runtime_refines_spec n t hn ht start .none prog fuel _).1]
  unfold C02.specSession
  rw [split_run, split_run]
  obtain ⟨p1, p2⟩ := pre_state start l prog fuel pre
  rw [p1, p2]
  simp only [allObs, List.flatMap_append, List.flatMap_cons, List.flatMap_nil, List.append_nil,
    handledOf_append]
  -- the pre-run adds dispatch nothing
  have hpre : ∀ (pre : List (Nat × Nat)) (s : S),
      handledOf ((execCmds fesES prog fuel s (pre.map (fun p => Cmd.add p.1 p.2))).2.flatMap (·.1)) = [] ∧
      (execCmds fesES prog fuel s (pre.map (fun p => Cmd.add p.1 p.2))).1.itr = s.itr := by
    intro pre
    induction pre with
    | nil => intro s; exact ⟨rfl, rfl⟩
    | cons p ps ih =>
      intro s
      simp only [List.map_cons, execCmds, execCmd, List.flatMap_cons, handledOf_append]
      obtain ⟨i1, i2⟩ := ih (addEvent fesES s p.1 p.2).1
      have h1 : ∃ a b c, (addEvent fesES s p.1 p.2).2 = Obs.sched a b c := by
        unfold addEvent; split
        · exact ⟨_, _, _, rfl⟩
        · split <;> exact ⟨_, _, _, rfl⟩
      have h2 : (addEvent fesES s p.1 p.2).1.itr = s.itr := by
        unfold addEvent; split
        · rfl
        · split <;> rfl
      obtain ⟨a, b, c, hb⟩ := h1
      rw [hb, handledOf_cons_sched, i1, i2, h2]
      exact ⟨rfl, rfl⟩
  obtain ⟨q1, q2⟩ := hpre pre (build FES.init start .none)
  rw [q1]
  simp only [List.nil_append]
  have := dispatchAll_handled_takeAdm prog l fuel
    (execCmds fesES prog fuel (build FES.init start .none) (pre.map (fun p => Cmd.add p.1 p.2))).1
  rw [q2] at this
  have hnone : withLimit (execCmds fesES prog fuel (build FES.init start .none)
      (pre.map (fun p => Cmd.add p.1 p.2))).1 .none =
      (execCmds fesES prog fuel (build FES.init start .none) (pre.map (fun p => Cmd.add p.1 p.2))).1 := by
    apply withLimit_none_of
    have : ∀ (pre : List (Nat × Nat)) (s : S),
        (execCmds fesES prog fuel s (pre.map (fun p => Cmd.add p.1 p.2))).1.limit = s.limit := by
      intro pre
      induction pre with
      | nil => intro s; rfl
      | cons p ps ih =>
        intro s
        simp only [List.map_cons, execCmds, execCmd]
        rw [ih]
        unfold addEvent; split
        · rfl
        · split <;> rfl
    rw [this]; rfl
  rw [hnone] at this
  exact this

/-- **Event-count limit `n`: exactly the first `min(n, available)` events are dispatched.** -/
theorem eventcount_exact_min (i : Nat) (l : List (Nat × Nat)) (n : Nat) :
    takeAdm (.eventCount n) i l = l.take (n - i) := takeAdm_eventCount n i l

/-- **Time limit `T`: every event up to the first one with timestamp > `T` is dispatched, none
    after** — and since timestamps are non-decreasing (C02) that is every event with timestamp
    ≤ `T` and none later. -/
theorem simtime_all_le_T_none_later (i : Nat) (l : List (Nat × Nat)) (T : Nat) :
    takeAdm (.simTime T) i l = l.takeWhile (fun p => decide (p.2 ≤ T)) := takeAdm_simTime T i l

/-- **Reaching the limit leaves the runtime exactly in a state of the unlimited run** (nothing
    executed beyond the stopping point, nothing lost or reordered in the event set), and the run
    stopped because the event set is empty or the limit rejects the next event. -/
theorem limited_run_is_prefix_state (prog : Prog) (l : Limit) (fuel : Nat) (s : S) :
    ∃ k, k ≤ fuel ∧
      dispatchAll fesES prog k (withLimit s .none) =
        (withLimit (dispatchAll fesES prog fuel (withLimit s l)).1 .none,
         (dispatchAll fesES prog fuel (withLimit s l)).2) ∧
      (k < fuel → FES.len (dispatchAll fesES prog fuel (withLimit s l)).1.es = 0 ∨
        limitHit fesES (dispatchAll fesES prog fuel (withLimit s l)).1 = true) := by
  obtain ⟨k, h1, h2, _, h4, _⟩ := dispatchAll_limit_prefix prog l fuel s
  exact ⟨k, h1, h2, h4⟩

/-- **No event is lost**: what was scheduled = what was dispatched + what `finish()` returns as
    remaining events, each with its timestamp, exactly once. -/
theorem nothing_lost (n t : Nat) (hn : 1 ≤ n) (ht : 1 ≤ t) (start : Nat) (l : Limit) (prog : Prog)
    (fuel : Nat) (pre : List (Nat × Nat)) (f : Nat)
    (hf : (runWith n t start l prog fuel pre).1.es.len ≤ f) :
    (schedOkOf (allObs (runWith n t start l prog fuel pre).2)).Perm
      (handledOf (allObs (runWith n t start l prog fuel pre).2) ++
        drain cqES f (runWith n t start l prog fuel pre).1.es) := by
  have h1 := C02.each_event_exactly_once n t hn ht start l prog fuel
    (pre.map (fun p => Cmd.add p.1 p.2) ++ [Cmd.runAll])
  have h2 := C02.finish_returns_pending n t hn ht start l prog fuel
    (pre.map (fun p => Cmd.add p.1 p.2) ++ [Cmd.runAll]) f hf
  exact h1.trans (List.Perm.append_left _ h2.symm)

/-- **The reported end time is the timestamp of the last dispatched event.** -/
theorem end_time_eq_last_dispatched (n t : Nat) (hn : 1 ≤ n) (ht : 1 ≤ t) (start : Nat) (l : Limit)
    (prog : Prog) (fuel : Nat) (pre : List (Nat × Nat)) :
    (runWith n t start l prog fuel pre).1.now =
      lastTime (handledOf (allObs (runWith n t start l prog fuel pre).2)) start :=
  (C02.clock_is_last_dispatched n t hn ht start l prog fuel _).1

/-! Non-vacuity: chain 0→1→2→3 at times 0,2,4,6; limits stop inside. -/
def demoProg : Prog := [[⟨false, 2, 1⟩], [⟨false, 2, 2⟩], [⟨false, 2, 3⟩], []]

example : handledOf (allObs (runWith 4 1 0 (.eventCount 2) demoProg 50 [(0, 0)]).2) = [(0, 0), (1, 2)] := by decide
example : handledOf (allObs (runWith 4 1 0 (.simTime 4) demoProg 50 [(0, 0)]).2) = [(0, 0), (1, 2), (2, 4)] := by decide
example : drain cqES 10 (runWith 4 1 0 (.and (.eventCount 1) (.simTime 3)) demoProg 50 [(0, 0)]).1.es = [(2, 4)] := by decide

end C11

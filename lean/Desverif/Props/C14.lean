/-
C14 — Processing elements bracket every module event in stack order.

`Proc` (Model/Proc.lean) is the model of `Processor::incoming_upstream/_downstream`, of the four
`ModuleRef` entry points (message, async wake-up, sim-start stage, sim end) and of the kernel loop
with the emission buffer; `Proc.shape` (Spec/ProcShape.lean) is the bracket

    start₀ inc₀? start₁ inc₁? … start_{k-1} inc_{k-1}?  handler?  end_{k-1} … end₀

stated by stack index.  The interleaving is the one of the code: `event_start` of element `i` runs
right before `incoming` of element `i` (not: all `event_start`s first, as the module docs say).
All theorems quantify over every stack (any length, any scripted behaviour — arbitrary functions
of what an element can observe, including shutdown / restart requests from any hook), every event
kind, every module state (counters, sleeping tasks, active or shut down) and, for the run
theorems, every configuration (modules, global/own elements via `buildStack`, injected messages)
and every number of dispatched events — so over all lifecycles (shutdown, down time, restart).
-/
import Desverif.Proofs.ProcKernel
namespace C14
open Proc

/-- **Program-order trace of one event** (hook calls *and* pushes onto the emission buffer): per
    element in stack order `event_start` and its sends, then — iff the message got that far —
    `incoming` and its sends; the handler call and its sends; the sends of the tasks that were
    due; per element in reverse order `event_end` and its sends. -/
theorem trace_shape (c : Ctx) (m : ModRt) (kind : Kind) :
    (runEvent c m kind).items = traceShape c m kind (dueTasks c m) := runEvent_items c m kind

/-- **Bracket shape.** The call log of every event on every stack is
    `start₀ inc₀? … start_{k-1} inc_{k-1}? handler? end_{k-1} … end₀`, where `incᵢ` shows the message
    as modified by the elements before `i`. -/
theorem bracket_shape (c : Ctx) (m : ModRt) (kind : Kind) :
    (runEvent c m kind).log = shape c.mod c.now m.acts kind := runEvent_log c m kind

/-- **`incᵢ` is present iff the event carries a message and no earlier element consumed it.** -/
theorem incoming_iff_not_consumed_earlier (c : Ctx) (m : ModRt) (kind : Kind) (i : Nat) :
    (∃ e ∈ (runEvent c m kind).log, e.who = some i ∧ e.hook = .inc) ↔
      i < m.elems.length ∧ kind.msg?.isSome = true ∧
        ∀ j, j < i → consumesAt m.acts kind.msg? j = false := by
  rw [bracket_shape, inc_in_shape]
  have hlen : m.acts.length = m.elems.length := by simp [ModRt.acts]
  rw [hlen]
  constructor
  · intro ⟨hi, hs⟩
    exact ⟨hi, (msgAt_isSome m.acts kind.msg? i (by omega)).mp hs⟩
  · intro ⟨hi, hs⟩
    exact ⟨hi, (msgAt_isSome m.acts kind.msg? i (by omega)).mpr hs⟩

/-- **The handler is skipped iff some element consumed the message.** -/
theorem handler_skipped_iff_consumed (c : Ctx) (m : ModRt) (id : Nat) :
    (¬ ∃ e ∈ (runEvent c m (.message id)).log, e.who = none) ↔
      ∃ j, j < m.elems.length ∧ consumesAt m.acts (some id) j = true := by
  rw [bracket_shape, handler_in_shape]
  have hlen : m.acts.length = m.elems.length := by simp [ModRt.acts]
  have hn := msgAt_isNone m.acts id m.acts.length (Nat.le_refl _)
  rw [hlen] at hn ⊢
  rw [← hn]
  cases msgAt m.acts (some id) m.elems.length <;> simp

/-- when the handler is called it gets the message as the whole stack left it, once -/
theorem handler_gets_final_message (c : Ctx) (m : ModRt) (id x : Nat)
    (h : msgAt m.acts (some id) m.elems.length = some x) :
    (runEvent c m (.message id)).log.filter (fun e => e.who == none) =
      [⟨c.mod, none, .msg, some x, c.now⟩] := by
  have hlen : m.acts.length = m.elems.length := by simp [ModRt.acts]
  rw [bracket_shape, shape_handler_filter, hlen, h]

/-- sim-start stages and sim end always reach the handler (exactly one handler entry, between the
    last `event_start` and the first `event_end`); a wake-up never does -/
theorem handler_on_lifecycle_events (c : Ctx) (m : ModRt) :
    (∀ k, (runEvent c m (.simStart k)).log =
      (List.range m.elems.length).map (startEntry c.mod c.now)
        ++ [⟨c.mod, none, .simStart, some k, c.now⟩]
        ++ (List.range m.elems.length).reverse.map (endEntry c.mod c.now)) ∧
    (runEvent c m .simEnd).log =
      (List.range m.elems.length).map (startEntry c.mod c.now)
        ++ [⟨c.mod, none, .simEnd, none, c.now⟩]
        ++ (List.range m.elems.length).reverse.map (endEntry c.mod c.now) ∧
    (runEvent c m .wakeup).log =
      (List.range m.elems.length).map (startEntry c.mod c.now)
        ++ (List.range m.elems.length).reverse.map (endEntry c.mod c.now) := by
  have hlen : m.acts.length = m.elems.length := by simp [ModRt.acts]
  have hup : ∀ kind : Kind, kind.msg? = none →
      (List.range m.elems.length).flatMap (upEntries c.mod c.now m.acts kind.msg?) =
        (List.range m.elems.length).map (startEntry c.mod c.now) := by
    intro kind hk
    rw [← flatMap_singleton', hk]
    exact flatMap_congr' (fun a _ => by simp [upEntries, msgAt_none])
  refine ⟨fun k => ?_, ?_, ?_⟩
  · rw [bracket_shape, shape, hlen, hup _ rfl]; rfl
  · rw [bracket_shape, shape, hlen, hup _ rfl]; rfl
  · rw [bracket_shape, shape, hlen, hup _ rfl]; simp [handlerEntries]

/-- **`event_start` once per element in stack order, `event_end` once per element in reverse
    order**, for every event kind, whether or not the message was consumed. -/
theorem start_end_once_in_order (c : Ctx) (m : ModRt) (kind : Kind) :
    (runEvent c m kind).log.filter (hookIs .start) =
        (List.range m.elems.length).map (startEntry c.mod c.now) ∧
    (runEvent c m kind).log.filter (hookIs .end_) =
        (List.range m.elems.length).reverse.map (endEntry c.mod c.now) := by
  have hlen : m.acts.length = m.elems.length := by simp [ModRt.acts]
  rw [bracket_shape, shape_starts, shape_ends, hlen]
  exact ⟨rfl, rfl⟩

/-- … as a count: each installed element sees exactly one `event_start` and one `event_end` per
    event, elements that are not installed see none -/
theorem start_end_exactly_once (c : Ctx) (m : ModRt) (kind : Kind) (i : Nat) :
    (runEvent c m kind).log.countP (fun e => e.who == some i && hookIs .start e) =
        (if i < m.elems.length then 1 else 0) ∧
    (runEvent c m kind).log.countP (fun e => e.who == some i && hookIs .end_ e) =
        (if i < m.elems.length then 1 else 0) := by
  obtain ⟨h1, h2⟩ := start_end_once_in_order c m kind
  constructor
  · rw [← List.countP_filter, h1]
    exact countP_range_map _ i _ (fun _ => rfl)
  · rw [← List.countP_filter, h2, List.countP_map, (List.reverse_perm _).countP_eq _,
      ← List.countP_map]
    exact countP_range_map _ i _ (fun _ => rfl)

/-- the behaviours of a module's stack are the same after every event (only counters move) -/
theorem stack_static (c : Ctx) (m : ModRt) (kind : Kind) : (runEvent c m kind).mod.acts = m.acts :=
  runEvent_acts' c m kind

/-- **Brackets of two events never interleave**: after any number of dispatched events, on any
    configuration, the global call log is a concatenation of complete brackets — one per event
    `(module, time, kind)`, each drawn on that module's own stack, each with a single timestamp. -/
theorem brackets_do_not_interleave (fuel : Nat) (cfg : Config) :
    ∃ events : List (Nat × Nat × Kind),
      (run fuel cfg).log = bracketLog (cfg.mods.map ModRt.acts) events ∧
      ∀ ev ∈ events, ev.1 < cfg.mods.length := by
  obtain ⟨brs, h1, h2⟩ := (run_inv fuel cfg).log
  exact ⟨brs, h1, fun ev hev => by simpa using h2 ev hev⟩

/-- every entry of a bracket carries the module and the time of its event -/
theorem bracket_single_event (mi t : Nat) (acts : List (Nat → Act)) (kind : Kind) :
    ∀ e ∈ shape mi t acts kind, e.mod = mi ∧ e.time = t := shape_mod mi t acts kind

/-- **Over all events of all lifecycles the handler is skipped iff the message was consumed:**
    every bracket of the global log that carries a message contains exactly one handler call if
    no element of that module's stack consumed the message, and none otherwise. -/
theorem handler_iff_unconsumed_everywhere (fuel : Nat) (cfg : Config) :
    ∃ events : List (Nat × Nat × Kind),
      (run fuel cfg).log = bracketLog (cfg.mods.map ModRt.acts) events ∧
      ∀ mi t id, (mi, t, Kind.message id) ∈ events →
        ∃ acts, (cfg.mods.map ModRt.acts)[mi]? = some acts ∧
          ((shape mi t acts (.message id)).filter (fun e => e.who == none)).length =
            (if ∃ j, j < acts.length ∧ consumesAt acts (some id) j = true then 0 else 1) := by
  obtain ⟨brs, h1, h2⟩ := (run_inv fuel cfg).log
  refine ⟨brs, h1, ?_⟩
  intro mi t id hmem
  have hlt := h2 _ hmem
  refine ⟨(cfg.mods.map ModRt.acts)[mi], List.getElem?_eq_getElem hlt, ?_⟩
  rw [shape_handler_filter]
  have hiff := msgAt_isNone (cfg.mods.map ModRt.acts)[mi] id _ (Nat.le_refl _)
  cases hmsg : msgAt (cfg.mods.map ModRt.acts)[mi] (some id) (cfg.mods.map ModRt.acts)[mi].length with
  | none => rw [if_pos (hiff.mp hmsg)]; rfl
  | some x =>
    have hne : ¬ ∃ j, j < (cfg.mods.map ModRt.acts)[mi].length ∧
        consumesAt (cfg.mods.map ModRt.acts)[mi] (some id) j = true := by
      intro h
      have := hiff.mpr h
      rw [hmsg] at this
      simp at this
    rw [if_neg hne]; rfl

/-- **A module that is shut down sees no hook:** a message or a wake-up that is dispatched to a
    module with `active = false` logs nothing at all — no `event_start`, no `incoming`, no
    handler, no `event_end` — and the module stays shut down. -/
theorem inactive_no_hooks (s : Sim) (mi : Nat) (kind : Kind) (flush : Bool)
    (hin : s.inactive mi) (hk : kind.needsActive = true) :
    (s.moduleEvent mi kind flush).log = s.log ∧ (s.moduleEvent mi kind flush).inactive mi :=
  ⟨(moduleEvent_inactive s mi kind flush hin hk).2, (moduleEvent_inactive s mi kind flush hin hk).1⟩

/-- **… until its restart event:** whatever kernel event is dispatched, as long as it is not the
    module's own `ModuleRestartEvent`, a module that is shut down stays shut down and the part of
    the call log that belongs to it does not grow. -/
theorem inactive_until_restart (s s' : Sim) (mi : Nat) (hs : s.step = some s') (hin : s.inactive mi)
    (hne : s.peek? ≠ some (.restart mi)) : s'.inactive mi ∧ s'.modLog mi = s.modLog mi :=
  step_inactive s s' mi hs hin hne

/-- **Restart:** the restart event runs *all* start stages of the module as consecutive complete
    brackets at one time, on the very same element instances (behaviours unchanged, counters
    carried over — elements are not re-created). -/
theorem restart_brackets (c : Ctx) (m : ModRt) :
    (restartEvent c m).log =
      (List.range m.handler.stages).flatMap (fun k => shape c.mod c.now m.acts (.simStart k)) ∧
    (restartEvent c m).mod.acts = m.acts :=
  ⟨restartEvent_log c m, restartEvent_acts c m⟩

/-- **Emissions leave in program order (1):** what an event pushes onto the emission buffer is,
    in this order: per element in stack order the sends of `event_start` then of `incoming`; the
    handler's sends; the sends of due tasks (deadline order); per element in reverse order the
    sends of `event_end`. -/
theorem emissions_in_program_order (c : Ctx) (m : ModRt) (kind : Kind) :
    (runEvent c m kind).pushes = pushShape c m kind (dueTasks c m) := runEvent_pushes c m kind

/-- **Emissions leave in program order (2):** `deactivate` + `buf_process` hand the wake-up (if
    any), then the buffered events, then the restart event of a shutdown request to the future
    event set in exactly that order: the table of scheduled events (index = scheduling order, the
    tie-breaker of C03) grows by precisely that list. -/
theorem flush_in_push_order (s : Sim) (mi : Nat) (kind : Kind) (m : ModRt)
    (hm : s.mods[mi]? = some m) (hact : m.active = true)
    (hok : (s.moduleEvent mi kind true).fault = none) :
    (s.moduleEvent mi kind true).evs.toList =
      s.evs.toList
        ++ ((runEvent ⟨mi, s.fes.cur⟩ m kind).wake.map fun _ => KEvent.wakeup mi).toList
        ++ (pushShape ⟨mi, s.fes.cur⟩ m kind (dueTasks ⟨mi, s.fes.cur⟩ m)).map (·.1)
        ++ restartOf mi (runEvent ⟨mi, s.fes.cur⟩ m kind).shutdown := by
  unfold Sim.moduleEvent at hok ⊢
  rw [hm] at hok ⊢
  simp only [hact, Bool.not_true, Bool.and_false, Bool.false_eq_true, if_false] at hok ⊢
  rw [finish_evs _ _ _ hok, runEvent_pushes]

/-- **The tear-down bracket is complete whatever the joins say:** `at_sim_end` of a module — active
    or shut down, with any number of registered join handles whose tasks finished, still run, hang,
    panicked or were cancelled — logs `start₀ … start_{k-1}  handler  end_{k-1} … end₀`; the join
    errors do not cut the bracket short. -/
theorem teardown_bracket_complete (s : Sim) (mi : Nat) (m : ModRt) (hm : s.mods[mi]? = some m) :
    (s.teardown mi).log =
      s.log ++ (List.range m.elems.length).map (startEntry mi s.fes.cur)
        ++ [⟨mi, none, .simEnd, none, s.fes.cur⟩]
        ++ (List.range m.elems.length).reverse.map (endEntry mi s.fes.cur) := by
  rw [teardown_log]
  unfold Sim.moduleEvent
  rw [hm]
  simp only [Kind.needsActive, Bool.false_and, Bool.false_eq_true, if_false]
  rw [finish_log]
  have := (handler_on_lifecycle_events ⟨mi, s.fes.cur⟩ m).2.1
  rw [this]
  simp only [List.append_assoc]

/-- … and they are what `run()` reports: the errors of the module's handles (first the `try_join`
    ones, then the `join` ones) are appended to the result, the handles are consumed. -/
theorem teardown_reports_join_errors (s : Sim) (mi : Nat) (m' : ModRt)
    (hm : (s.moduleEvent mi .simEnd false).mods[mi]? = some m') :
    (s.teardown mi).errors =
      (s.moduleEvent mi .simEnd false).errors ++ (joinErrors m').map (fun e => (mi, e)) ∧
    ∃ m'', (s.teardown mi).mods[mi]? = some m'' ∧ m''.joins = [] := by
  unfold Sim.teardown
  simp only
  rw [hm]
  exact ⟨rfl, _, List.getElem?_set_self (lt_of_getElem?_some hm), rfl⟩

/-- `Module::stack` of the harness modules: the installed stack is the builder's default stack
    followed / preceded / replaced by the module's own elements, with fresh counters -/
theorem buildStack_specs (g o : List Elem) :
    (buildStack .append g o).map (·.spec) = g ++ o ∧
    (buildStack .prepend g o).map (·.spec) = o ++ g ∧
    (buildStack .replace g o).map (·.spec) = o := by
  simp [buildStack, List.map_map, Function.comp_def]

/-! ## Non-vacuity -/

/-- passes everything, sends message 9 to itself from its first `event_start` -/
def e0 : Elem :=
  { tag := 0, act := fun _ => .pass
    onStart := fun n => if n = 0 then [.send ⟨false, 0, 2, 9⟩] else []
    onInc := fun _ _ => [], onEnd := fun _ => [] }
/-- rewrites 5 to 7 -/
def e1 : Elem :=
  { tag := 1, act := fun id => if id = 5 then .modify 7 else .pass, onStart := fun _ => []
    onInc := fun id _ => if id = 5 then [.send ⟨true, 1, 0, 8⟩] else [], onEnd := fun _ => [] }
/-- consumes 7; shuts the module down for 20 ns from its fourth `event_end` -/
def e2 : Elem :=
  { tag := 2, act := fun id => if id = 7 then .consume else .pass, onStart := fun _ => []
    onInc := fun _ _ => []
    onEnd := fun n => if n = 0 then [.send ⟨false, 0, 0, 3⟩] else if n = 3 then [.shutdown (some 20)] else [] }

def h0 : Handler :=
  { stages := 2
    onMsg := fun id _ => if id = 9 then [.task 4 ⟨.send ⟨false, 0, 0, 6⟩, .detached⟩, .now ⟨false, 0, 1, 4⟩] else []
    onSimStart := fun _ _ => [], onSimEnd := [] }

def m0 : ModRt := ModRt.fresh (buildStack .append [e0] [e1, e2]) h0
def m1 : ModRt := ModRt.fresh [] { h0 with stages := 1 }

/-- message 5 on the 3-element stack: rewritten by element 1, consumed by element 2, handler
    skipped, all three `event_end`s in reverse order -/
example : (runEvent ⟨0, 10⟩ m0 (.message 5)).log =
    [⟨0, some 0, .start, none, 10⟩, ⟨0, some 0, .inc, some 5, 10⟩,
     ⟨0, some 1, .start, none, 10⟩, ⟨0, some 1, .inc, some 5, 10⟩,
     ⟨0, some 2, .start, none, 10⟩, ⟨0, some 2, .inc, some 7, 10⟩,
     ⟨0, some 2, .end_, none, 10⟩, ⟨0, some 1, .end_, none, 10⟩, ⟨0, some 0, .end_, none, 10⟩] := by
  decide

example : consumesAt m0.acts (some 5) 2 = true ∧ consumesAt m0.acts (some 5) 1 = false := by decide

/-- the pushes of that event, in program order: element 0's start-send, element 1's gate send,
    element 2's end-send -/
example : (runEvent ⟨0, 10⟩ m0 (.message 5)).pushes =
    [(.deliver 0 9, 12), (.deliver 1 8, 10), (.deliver 0 3, 10)] := by decide

/-- message 9 reaches the handler, which spawns a task and sends: a wake-up is requested -/
example : (runEvent ⟨0, 10⟩ m0 (.message 9)).wake = some 15 ∧
    (runEvent ⟨0, 10⟩ m0 (.message 9)).log.length = 10 := by decide

/-- a whole run (2 modules, empty stack on the second, injected messages, a task wake-up, a
    shutdown requested by an element with a restart 20 ns later, messages that arrive during the
    down time): no fault, so the hypothesis of `flush_in_push_order` is met along a real history -/
def cfg0 : Config :=
  { mods := [m0, m1], inits := [(0, 5, 0), (0, 9, 3), (1, 5, 3), (0, 1, 6), (0, 2, 7), (0, 2, 30)] }

example : (run 100 cfg0).fault = none := by decide

/-- the shutdown was requested once (at 0, restart at 20), one restart event was scheduled, and the
    four messages due at 2, 3, 6 and 7 found the module shut down: no call of module 0 is logged
    between the shutdown and the restart, which runs both start stages at 20 -/
example : (run 100 cfg0).downs.map (·.2) = [(0, some 20)] ∧
    ((run 100 cfg0).evs.toList.filter (· == .restart 0)).length = 1 ∧
    ((run 100 cfg0).log.filter (fun e => e.mod == 0 && 0 < e.time && e.time < 20)) = [] ∧
    ((run 100 cfg0).log.filter (fun e => e.mod == 0 && e.time == 20)).map (·.hook) =
      [.start, .start, .start, .simStart, .end_, .end_, .end_,
       .start, .start, .start, .simStart, .end_, .end_, .end_] := by decide

/-- a state in which module 0 is shut down, and a step on it that is not its restart -/
def sDown : Sim := Sim.loop 3 (Sim.init cfg0).simStart
example : sDown.inactive 0 := by
  have h1 : (sDown.mods[0]?.map (·.active)) = some false := by decide
  cases h : sDown.mods[0]? with
  | none => rw [h] at h1; simp at h1
  | some m => rw [h] at h1; exact ⟨m, h, by simpa using h1⟩
example : sDown.peek? = some (.deliver 0 9) ∧ sDown.peek? ≠ some (.restart 0) := by decide

example : ((Sim.init cfg0).moduleEvent 0 (.message 9) true).fault = none := by decide

/-- joined tasks: one finishes, one hangs (`join` → NotFinished), one panics (`try_join` →
    Paniced), one is cancelled by a shutdown (`join` → Tokio); the run ends with these errors and
    the tear-down brackets of both modules are complete all the same -/
def hj : Handler :=
  { stages := 1
    onMsg := fun _ n => if n = 0 then [.shutdown none] else []
    onSimStart := fun _ _ =>
      [.task 1 ⟨.send ⟨false, 0, 0, 1⟩, .must⟩, .task 1 ⟨.hang, .must⟩, .task 2 ⟨.panic, .try_⟩]
    onSimEnd := [] }
def hk : Handler :=
  { stages := 1, onMsg := fun _ n => if n = 0 then [.shutdown none] else []
    onSimStart := fun _ _ => [.task 50 ⟨.send ⟨false, 0, 0, 1⟩, .must⟩], onSimEnd := [] }
def cfgJ : Config :=
  { mods := [ModRt.fresh (buildStack .append [e0] [e1]) { hj with onMsg := fun _ _ => [] },
             ModRt.fresh (buildStack .replace [] [e2]) hk]
    inits := [(1, 4, 5)] }

example : (run 100 cfgJ).fault = none ∧
    (run 100 cfgJ).errors = [(0, .paniced), (0, .notFinished), (1, .tokio)] ∧
    ((run 100 cfgJ).log.reverse.take 8).reverse.map (fun e => (e.mod, e.who, e.hook)) =
      [(0, some 0, .start), (0, some 1, .start), (0, none, .simEnd), (0, some 1, .end_), (0, some 0, .end_),
       (1, some 0, .start), (1, none, .simEnd), (1, some 0, .end_)] := by decide

end C14

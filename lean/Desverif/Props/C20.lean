/-
C20 — Dropping a simulation releases every module, task and message exactly once.

`Own` (Model/Own.lean) is the ownership graph of a stopped simulation, mirroring the struct
definitions edge by edge (strong handles are edges, `Weak` fields are not), with reference-count drop
semantics and the two destructors that remove handles: `ModuleContext::drop ⇒ dissolve_paths` and
`TimerSlotEntryHandle::drop`.  `mkEdges d` builds that graph from the description `d` of a simulation
at its stopping point; `dropSim d` drops its two roots (the `Runtime`/`Sim` and the `Profiler`).

The theorems about the machine hold for every graph; the theorems about `mkEdges d` hold for EVERY
description `d` of the repaired code (`keepChan = false`: a queued `Connection` no longer keeps its
own channel alive) — no well-formedness hypothesis: `mkEdges` ignores links between unknown gates and
gates of unknown owners, and `every_description_is_closed` shows that the resulting heap is closed
(every holder is held, every connected gate is registered in a module context) whatever `d` is.
For the code before the repair (`keepChan = true`) the statement is false: `backlog_cycle_witness`.
-/
import Desverif.Proofs.OwnWired
import Desverif.Proofs.OwnBelow
namespace C20
open Own

/-- **No double free** — for every graph, every `Sem`, every set of roots (whatever the counts):
    a node is freed at most once. -/
theorem no_double_free {α : Type} [DecidableEq α] (sem : Sem α) (es : List (Edge α)) (rs : List α)
    (v : α) : (dropRoots sem es rs).freed.count v ≤ 1 :=
  List.nodup_iff_count.mp
    (run_freedOk sem (rs.length + es.length) (initSt es rs) (init_freedOk es rs)).nodup v

/-- **`dissolve_paths` terminates on every wiring** — chains, rings, several links per gate, any set
    of held locks: fuel `#connection handles + 1` is enough, the call only removes handles and
    releases exactly the handles it removes. -/
theorem dissolve_terminates_on_rings {α : Type} [DecidableEq α] (locked : List α)
    (es : List (Edge α)) (g : α) :
    ∃ r, dissolve (dissolveFuel es) locked es g = some r ∧ r.1.Sublist es ∧
      (∀ x, inDeg es x = inDeg r.1 x + r.2.count x) ∧
      (g ∉ locked → ∀ e ∈ r.1, e.src = g → e.isConn = false) := by
  have hs := dissolve_some (dissolveFuel es) locked es g (by simp [dissolveFuel])
  obtain ⟨r, hr⟩ := Option.isSome_iff_exists.mp hs
  have sh := dissolve_shrinks _ _ _ _ _ hr
  exact ⟨r, hr, sh.sub, sh.cnt, fun hg => dissolve_clears _ _ _ _ _ hg hr⟩

/-- **Dropping never gets stuck** — from a consistent heap (one count per handle) the work-list
    empties within `#roots + #handles` steps: no count underflows, no fuel runs out. -/
theorem drop_terminates_without_error {α : Type} [DecidableEq α] (sem : Sem α) (es : List (Edge α))
    (rs : List α) : (dropRoots sem es rs).err = none ∧ (dropRoots sem es rs).work = [] := by
  have hi := run_inv sem es _ (rs.length + es.length) (initSt es rs) (init_inv sem es rs)
    (by simp [initSt])
  exact ⟨hi.1.noErr, hi.2⟩

/-- **Key lemma: the strong edges that `dissolve_paths` does not cut are well-founded** — for every
    description of the repaired code, every ordinary field edge into a `good` node goes strictly up
    in `rank`, comes from a `good` node, and removable timer entries never point to `good` nodes. -/
theorem strong_edges_ranked (d : Desc) (hk : d.keepChan = false) (ht : d.taskCtx = false)
    (hpc : d.parentCache = false) :
    ∀ e ∈ mkEdges d, good e.tgt = true →
      good e.src = true ∧ (e.via = Via.field → rank d e.src < rank d e.tgt) ∧
        ∀ h, e.via ≠ Via.entry h := by
  intro e he hg
  have hR := List.all_eq_true.mp (local_mkEdges d hk ht hpc) e he
  simp only [localOk, Bool.and_eq_true, Bool.or_eq_true, Bool.not_eq_true', hg] at hR
  refine ⟨?_, ?_, ?_⟩
  · rcases hR.1 with h | h
    · cases h
    · exact h
  · intro hf
    have h2 := hR.2
    simp only [hf, Bool.or_eq_true, decide_eq_true_eq] at h2
    rcases h2 with h | h
    · cases h
    · exact h
  · intro h hh
    have h2 := hR.2
    simp [hh] at h2

/-- **Every description yields a closed heap** — for every `d` (any indices, any sizes, also the code
    before the repair): every holder in `mkEdges d` is a root or is itself held, and every connection
    slot belongs to a gate that a module context of smaller rank than the slot's target holds in its
    `gates`.  (`wired` is the decidable form of these two conditions; the driver still evaluates it.) -/
theorem every_description_is_closed (d : Desc) : wired d = true := wired_all d

/-- **Nothing below a gate has a handle-removing destructor** — in every graph `mkEdges d` the nodes
    `below` (gates, channels, probes, buffer entries, messages, bodies, connections) are closed under
    strong edges, every connection slot starts and ends there, and freeing such a node — in any
    sub-heap of `mkEdges d` — is a plain free: `cutOnFree` removes nothing (it is no module context and
    no timer entry is registered through it).  So the handles `dissolve_paths` releases while it is
    still running can never start a second `dissolve_paths` or an entry removal. -/
theorem plain_frees_below_gates (d : Desc) :
    (∀ e ∈ mkEdges d, below e.src = true → below e.tgt = true) ∧
    (∀ e ∈ mkEdges d, e.isConn = true → below e.src = true ∧ below e.tgt = true) ∧
    (∀ (es : List (Edge NId)) (v : NId), (∀ e ∈ es, e ∈ mkEdges d) → below v = true →
      cutOnFree nidSem es v = some (es, [])) := by
  have hb := List.all_eq_true.mp (below_mkEdges d)
  have h1 : ∀ e ∈ mkEdges d, below e.src = true → below e.tgt = true := by
    intro e he hs
    have := hb e he
    simp only [belowOk, Bool.and_eq_true, Bool.or_eq_true, Bool.not_eq_true'] at this
    rcases this.1 with h | h
    · rw [hs] at h; cases h
    · exact h
  refine ⟨h1, ?_, fun es v hsub hv => cutOnFree_below d es hsub v hv⟩
  intro e he hc
  obtain ⟨hg, _⟩ := conn_mkEdges d e he hc
  have hs : below e.src = true := by
    cases hsrc : e.src <;> simp [hsrc, nidSem] at hg
    rfl
  exact ⟨hs, h1 e he hs⟩

/-- **Everything but the timer bookkeeping is released exactly once** — any module tree, any gate
    wiring (rings included), any channel backlog, any pending / remaining / buffered events, any
    blocked tasks, shut-down modules, messages kept in module state. -/
theorem all_good_nodes_freed_once (d : Desc) (hk : d.keepChan = false) (hh : d.hookGlobals = false)
    (ht : d.taskCtx = false) (hpc : d.parentCache = false) :
    (dropSim d).err = none ∧
      ∀ v ∈ nodesOf d, good v = true → freedCount (dropSim d) v = 1 := by
  have hheap : heapEdges d = mkEdges d := by simp [heapEdges, hookEdges, hh]
  unfold dropSim nodesOf
  rw [hheap]
  have h := dropRoots_ranked nidSem (mkEdges d) roots (fun v => good v = true) (rank d)
    (ranked_of_wired d hk ht hpc (wired_all d))
  refine ⟨h.1, ?_⟩
  intro v hv hg
  refine h.2 v hg ?_
  rcases List.mem_append.mp hv with hr | ht
  · have : 0 < roots.count v := List.count_pos_iff.mpr hr
    omega
  · obtain ⟨e, he, rfl⟩ := List.mem_map.mp ht
    have : 0 < inDeg (mkEdges d) e.tgt := by
      unfold inDeg
      rw [List.countP_pos_iff]
      exact ⟨e, he, by simp⟩
    omega

/-- **Every user-visible object (module state, processing element, task state, message body, channel
    probe) is
    dropped exactly once and none stays alive.** -/
theorem all_user_objects_freed_once (d : Desc) (hk : d.keepChan = false) (hh : d.hookGlobals = false)
    (ht : d.taskCtx = false) (hpc : d.parentCache = false) :
    (dropSim d).err = none ∧ leaked d = [] := by
  have h := all_good_nodes_freed_once d hk hh ht hpc
  refine ⟨h.1, ?_⟩
  unfold leaked
  simp only
  have : (nodesOf d).filter (fun v => v.userVisible && decide (freedCount (dropSim d) v ≠ 1)) = [] := by
    rw [List.filter_eq_nil_iff]
    intro v hv
    have hg : v.userVisible = true → good v = true := by
      cases v <;> simp [NId.userVisible, good]
    cases hu : v.userVisible with
    | false => simp
    | true => simp [h.2 v hv (hg hu)]
  rw [this]
  rfl

/-! ### witnesses and non-vacuity -/

/-- a.out –ch(Queue)→ b.in, one packet waiting in the channel, the unbusy notification pending -/
def backlog (keep : Bool) : Desc :=
  { mods := [⟨none, 0, false, [], 0, [], none, false⟩, ⟨none, 0, false, [], 0, [], none, false⟩]
    gates := [0, 1]
    links := [⟨0, 1, true, [⟨true, some 1⟩], []⟩]
    fes := [.unbusy 0 true], rem := [], buf := [], keepChan := keep }

/-- **The code before the repair leaks the backlog**: with `Connection.channel = Some(own channel)`
    in the buffer entry, the queued message body and the channel's probe are not dropped (strong cycle
    `Channel → Buffer → Connection → Channel` that `dissolve_paths` does not cut). -/
theorem backlog_cycle_witness :
    leaked (backlog true) = [.probe 0 true, .body (.queue 0 true 0)] := by
  decide +kernel

example : leaked (backlog false) = [] := by decide +kernel

/-- one module with a task blocked on `sleep` (one pending timer slot), a gate ring m0–m1–m2 -/
def sleeper : Desc :=
  { mods := [⟨none, 1, true, [⟨.sleep 0, false⟩], 1, [], none, false⟩, ⟨some 0, 0, false, [], 0, [], none, false⟩,
             ⟨some 0, 0, true, [⟨.recv true, true⟩], 0, [⟨true, some 0⟩], none, false⟩]
    gates := [0, 1, 2]
    links := [⟨0, 1, false, [], []⟩, ⟨1, 2, false, [], []⟩, ⟨2, 0, false, [], []⟩]
    fes := [.wakeup 0], rem := [.handle 1 ⟨true, none⟩], buf := [] }

/-- **Known residue, not user-visible**: `TimerQueue ⇄ TimerSlot` is a strong cycle as long as a slot
    is pending; both stay allocated (the task state and its cell are released). -/
theorem timer_bookkeeping_residue_witness :
    freedCount (dropSim sleeper) (.timerQueue 0) = 0 ∧ freedCount (dropSim sleeper) (.timerSlot 0 0) = 0 ∧
      freedCount (dropSim sleeper) (.taskState 0 0) = 1 ∧ freedCount (dropSim sleeper) (.taskCell 0 0) = 1 := by
  decide +kernel

example : sleeper.keepChan = false ∧ leaked sleeper = [] := by decide +kernel

/-- one started module, stepped and dropped without `finish()` -/
def stepped (hook : Bool) : Desc :=
  { mods := [⟨none, 1, true, [⟨.sleep 0, false⟩], 1, [], none, false⟩], gates := [], links := []
    fes := [.wakeup 0], rem := [], buf := [], stop := .stepped, hookGlobals := hook }

/-- **A panic hook that captures `Arc<Globals>` keeps the module tree alive** when the simulation is
    dropped without `at_sim_end` having run to its end (seeded variant, not the current code). -/
theorem hook_holds_globals_witness :
    leaked (stepped true) = [.state 0, .pe 0 0, .taskState 0 0] := by
  decide +kernel

example : leaked (stepped false) = [] := by decide +kernel

/-- an `AsyncFn` module whose task is blocked in `rx.recv()`, holding one message, one more waiting in
    its channel; a gate with a channel (and its probe) -/
def asyncFn (ctxBack : Bool) : Desc :=
  { mods := [⟨none, 0, true, [], 0, [], some ⟨true, none, [⟨true, none⟩], [⟨true, none⟩]⟩, false⟩,
             ⟨none, 0, false, [], 0, [], none, false⟩]
    gates := [0, 1], links := [⟨0, 1, true, [], []⟩]
    fes := [], rem := [], buf := [], taskCtx := ctxBack }

/-- **A task that captures `current()` keeps its own module context alive** (seeded variant of
    `AsyncFn::failable`, not the current code): `ModuleContext → tokio runtime → task → ModuleContext`;
    the pending task, what it captured and its unread messages are never released (the channel and its
    probes ARE released here: the peer module's context dissolves the whole gate path). -/
theorem task_captures_ctx_witness :
    leaked (asyncFn true) = [.body (.inbox 0 0), .taskState 0 0, .body (.held 0 0)] := by
  decide +kernel

example : leaked (asyncFn false) = [] := by decide +kernel

/-- a parent with one child that looked its parent up; the child has a processing element and a task -/
def family (cache : Bool) : Desc :=
  { mods := [⟨none, 1, true, [], 0, [], none, false⟩,
             ⟨some 0, 1, true, [⟨.sleep 0, false⟩], 1, [], none, true⟩]
    gates := [], links := [], fes := [], rem := [], buf := [], parentCache := cache }

/-- **A cached strong parent handle makes parent and child keep each other alive** (seeded variant of
    `ModuleContext::parent()`, not the current code): the parent owns the child through `children`, the
    child owns the parent through the cache; neither state, elements nor tasks are released. -/
theorem parent_cache_witness :
    leaked (family true) = [.state 0, .pe 0 0, .state 1, .pe 1 0, .taskState 1 0] := by
  decide +kernel

example : leaked (family false) = [] := by decide +kernel

end C20

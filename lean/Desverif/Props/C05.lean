/-
C05 — Timers fire exactly at their deadline and are never lost.

Only property theorems live here.  `Timer` (Model/Timer.lean) is the model of one module's timer
driver as des implements it (des/src/time/{driver,sleep,timeout,interval}.rs and
`ModuleRef::{activate,deactivate}`), with `TimerQueue::next` as repaired by
patches/C05-next-skips-empty-slots.diff; `nextOrig` is the function before the repair.
All statements quantify over every queue state, every number of timers, every deadline
(unbounded `Nat` nanoseconds, equal deadlines included) and every sequence of events, each with an
arbitrary list of queue operations (register / drop / reset in any order; a module shutdown is the
list of drops `pre` of an event).
-/
import Desverif.Proofs.TimerFire
import Desverif.Proofs.TimerSleep
import Desverif.Proofs.TimerSim
namespace C05
open Timer

/-- The empty driver of a freshly built module satisfies the wake-up invariant. -/
theorem wakeinv_init : WakeInv 0 {} := Timer.wakeinv_init

/-- **WakeInv is preserved by every event of the module**: whatever the handler and the tasks do
    to the queue (`e.ops`: registrations of future deadlines by `Sleep::poll`, handle drops, resets
    to any deadline — earlier, later, past) and whatever is dropped outside the event (`e.pre`), if
    the event set delivers the event no later than the module's scheduled wake-ups, then after
    `deactivate`: nothing live is overdue, `next_wakeup` names a wake-up event that is in the event
    set, and every non-empty slot is covered by it. -/
theorem wakeinv_preserved {now : Nat} {t : State} (h : WakeInv now t) {e : Ev} (he : EvOk t e) :
    WakeInv e.time (stepEv t e).1 := wakeinv_step h he

/-- … hence by every history of events. -/
theorem wakeinv_all_histories (evs : List Ev) (hc : Consistent {} evs) :
    WakeInv (lastTime 0 evs) (runEvs {} evs).1 := wakeinv_run Timer.wakeinv_init evs hc

/-- **Never lost**: between events, a registered entry with deadline `d` is not overdue and the
    event set holds a wake-up event of its module at some `w` with `now < w ≤ d`. -/
theorem live_timer_has_wakeup {now : Nat} {t : State} (h : WakeInv now t) {d : Nat} {e : Entry}
    (hl : HasEntry t.pending d e) (hd : d < tMax) :
    now < d ∧ ∃ w ∈ t.wakeups, now < w ∧ w ≤ d := by
  obtain ⟨h0, h1, h2, h3⟩ := live_has_wakeup h hl hd
  exact ⟨h0, t.nextWakeup, h1, h2, h3⟩

/-- **Fires exactly at the deadline.**  Take any state satisfying WakeInv with an entry `e`
    registered at `d`, and any continuation of the simulation (`evs`: times as the event set can
    deliver them, arbitrary queue operations) that runs until the module has no wake-up event left,
    in which nobody drops or resets that sleep before it fires.  Then the run contains an event of
    the module at exactly time `d` whose `activate` wakes `e`, and every earlier event is strictly
    before `d`: not late, not lost. (Not early: `never_early`.) -/
theorem fires_exactly_at_deadline {now : Nat} {t : State} (hinv : WakeInv now t) {d : Nat} {e : Entry}
    (hl : HasEntry t.pending d e) (hd : d < tMax) (evs : List Ev) (hc : Consistent t evs)
    (hkeep : Keeps e.sid d evs) (hdone : (runEvs t evs).1.wakeups = []) :
    ∃ pre w post, (runEvs t evs).2 = pre ++ (d, w) :: post ∧ e ∈ w ∧ ∀ x ∈ pre, x.1 < d :=
  fires_core hinv hl hd evs hc hkeep hdone

/-- `Sleep::poll` before the deadline on a fresh `Sleep` registers its entry (so the theorems
    above apply to it) and returns `Pending`. -/
theorem sleep_poll_registers (s : Sleep) (tid now : Nat) (h : now < s.deadline) (hh : s.handle = none)
    (t : State) :
    (s.poll tid now).2.2 = false ∧
    HasEntry (applyOps t (s.poll tid now).2.1).pending s.deadline ⟨s.id, tid⟩ :=
  Timer.sleep_poll_registers s tid now h hh t

/-- **Never early / ready on time**: a poll completes iff the deadline is reached, whatever woke
    the task (scheduled wake-up, spurious poll from `select!`, another timer). -/
theorem never_early (s : Sleep) (tid now : Nat) : (s.poll tid now).2.2 = true ↔ s.deadline ≤ now :=
  sleep_poll_ready s tid now

/-- **A deadline that is already reached completes immediately** — without touching the queue. -/
theorem reached_deadline_immediate (s : Sleep) (tid now : Nat) (h : s.deadline ≤ now) :
    s.poll tid now = ({ s with handle := none }, [], true) := by
  unfold Sleep.poll
  rw [if_neg (by omega)]

/-- everything `Sleep::poll`, `Sleep::reset` and dropping a `Sleep` do to the queue is an operation
    admitted by `EvOk` (registrations only of deadlines in the future) -/
theorem sleep_ops_admissible (s : Sleep) (tid now d' : Nat) :
    (∀ o ∈ (s.poll tid now).2.1, o.ok now) ∧ (∀ o ∈ (s.reset d').2, o.ok now) ∧ (∀ o ∈ s.drop, o.ok now) :=
  ⟨sleep_poll_ok s tid now, sleep_reset_ok s d' now, sleep_drop_ok s now⟩

/-- One poll of `Timeout`: `Ok` iff the inner future is ready at this poll (inner first, so a tie at
    the deadline is `Ok`), otherwise `Elapsed` iff the deadline is reached, otherwise pending. -/
theorem timeout_poll_result (ir : Bool) (s : Sleep) (tid now : Nat) :
    (Timeout.poll ir s tid now).2.2 =
      if ir then some true else if s.deadline ≤ now then some false else none :=
  timeout_poll_spec ir s tid now

/-- **timeout returns the inner result iff the inner future completes no later than the deadline.**
    Poll the `Timeout` at any strictly increasing times that include the deadline (that poll happens:
    `fires_exactly_at_deadline`), the inner future being ready or not at each of them.  Then it
    completes, no later than the deadline; with `Ok` at the first poll ≤ deadline where the inner future is
    ready, or with `Elapsed` at exactly the deadline and the inner future was ready at no poll ≤ deadline. -/
theorem timeout_ok_iff_inner_by_deadline (s : Sleep) (tid : Nat) (polls : List (Nat × Bool))
    (hsorted : polls.Pairwise (fun a b => a.1 < b.1)) (hd : ∃ ir, (s.deadline, ir) ∈ polls) :
    ∃ τ r, Timeout.run s tid polls = some (τ, r) ∧
      ((r = true ∧ (τ, true) ∈ polls ∧ τ ≤ s.deadline) ∨
       (r = false ∧ τ = s.deadline ∧ ∀ x ∈ polls, x.1 ≤ s.deadline → x.2 = false)) :=
  timeout_run_spec s tid polls hsorted hd

/-- A due interval tick returns the instant it was scheduled for, re-arms the delay at
    `nextDeadline` and leaves the queue alone; a poll before the deadline returns nothing and keeps the deadline. -/
theorem interval_tick_due (i : Interval) (tid now : Nat) :
    (i.delay.deadline ≤ now →
      i.pollTick tid now =
        ({ i with delay := { id := i.delay.id, deadline := i.nextDeadline i.delay.deadline now, handle := none } },
         [], some i.delay.deadline)) ∧
    (now < i.delay.deadline →
      (i.pollTick tid now).2.2 = none ∧ (i.pollTick tid now).1.delay.deadline = i.delay.deadline) :=
  ⟨pollTick_due i tid now, pollTick_early i tid now⟩

/-- **Interval tick times per behaviour**: on time (at most 5 ms late) every behaviour schedules
    `timeout + period`; late: `Burst` keeps `timeout + period`, `Delay` takes `now + period`, `Skip`
    takes the next multiple of the period after `now` on the original grid. -/
theorem interval_tick_times (i : Interval) (timeout now : Nat) :
    (now ≤ timeout + lateNs → i.nextDeadline timeout now = timeout + i.period) ∧
    (i.mode = .burst → i.nextDeadline timeout now = timeout + i.period) ∧
    (i.mode = .delay → now > timeout + lateNs → i.nextDeadline timeout now = now + i.period) ∧
    (i.mode = .skip → 0 < i.period → now > timeout + lateNs →
      now < i.nextDeadline timeout now ∧ i.nextDeadline timeout now ≤ now + i.period ∧
      (i.nextDeadline timeout now - timeout) % i.period = 0) := by
  refine ⟨next_ontime i timeout now, fun hm => next_burst i hm timeout now, ?_, fun hm hp => next_skip i hm hp timeout now⟩
  intro hm hl
  rw [next_delay i hm, if_pos hl]

/-- `Burst`: the instants returned by successive `tick()`s are `start, start+p, start+2p, …`
    however late the polls come. -/
theorem interval_burst_ticks (i : Interval) (hm : i.mode = .burst) (tid : Nat) (nows : List Nat) :
    ∃ n, Interval.ticks i tid nows = (List.range n).map (fun k => i.delay.deadline + k * i.period) :=
  burst_ticks i hm tid nows

/-! ### the scripted simulation (Model/TimerSim.lean — what the driver runs against the real code) -/

/-- **Every script term only performs admissible queue operations**: one `Future::poll` of any
    program built from sleep / sleep_until / timeout / select / seq / named-timer poll, reset, drop,
    await / interval tick, reset / shutdown steps, in any context, emits only registrations of
    future deadlines, handle drops and resets — the `ops` that `wakeinv_preserved` quantifies over. -/
theorem script_ops_admissible (f : Fut) (c : Ctx) (h : ∀ o ∈ c.ops, o.ok c.now) :
    (poll f c).2.now = c.now ∧ ∀ o ∈ (poll f c).2.ops, o.ok c.now :=
  G_poll (n := c.now) f ⟨rfl, h⟩

/-- **WakeInv holds for every module after every event of the scripted simulation, for all scripts**:
    one module event (activate, every runnable task polled, deactivate, shutdown handling) … -/
theorem sim_event_preserves_wakeinv {last now : Nat} (m : Mod) (k : Kind) (log : List Obs)
    (h : WakeInv last m.timer) (hw : ∀ w ∈ m.timer.wakeups, now ≤ w) :
    WakeInv now (m.event next now k log).1.timer := event_wakeinv m k log h hw

/-- … and the complete run (`at_sim_start` of every module, event loop delivering the earliest event,
    `at_sim_end`): any number of modules and tasks, any scripts. -/
theorem sim_wakeinv_all_scripts (progs : List (List (List (Nat × Fut)))) (fuel : Nat) (s : Sim)
    (h : Sim.run next progs fuel = some s) :
    (∀ m ∈ s.mods, WakeInv m.last m.timer) ∧ (∀ m ∈ s.mods, ∀ w ∈ m.timer.wakeups, s.now ≤ w) :=
  sim_wakeinv progs fuel s h

/-- **Never lost, for all scripts**: when the event loop of the scripted simulation stops because
    the event set is empty, no task of any module is still registered for a deadline below
    `SimTime::MAX` — every awaited timer has fired (or was dropped / reset / cancelled by its owner). -/
theorem sim_ends_with_no_pending_timer (progs : List (List (List (Nat × Fut)))) (fuel : Nat) (s' : Sim)
    (hr : Sim.loop next fuel
      (Sim.forAll next { mods := progs.map fun p => ({ progs := p } : Mod) } .start progs.length 0) = some s') :
    ∀ m ∈ s'.mods, ∀ d e, HasEntry m.timer.pending d e → tMax ≤ d :=
  loop_end_no_pending (siminv_forAll (siminv_init progs) _ _ _) hr

/-! ### the defect repaired by patches/C05-next-skips-empty-slots.diff (finding F3)

One task at time 0: poll `sleep(5)` once (e.g. inside `select!`/`timeout`), drop it, then await
`sleep(10)`.  With the original `next()` (front slot only if non-empty) `deactivate` schedules no
wake-up: WakeInv is broken and the second sleep is stranded. -/

def f3Event : Ev := { time := 0, wake := false, ops := [.register 5 0 0, .remove 5 0, .register 10 1 0] }

theorem orig_next_breaks_wakeinv_witness :
    EvOk {} f3Event ∧ ¬ WakeInv 0 (stepWith nextOrig {} f3Event).1 := by
  refine ⟨⟨(by intro w hw; cases hw), (by decide)⟩, ?_⟩
  intro h
  have := h.j2 ⟨10, [⟨1, 0⟩]⟩ (by decide) (by decide)
  revert this
  decide

/-- … the live entry at 10 is left without any wake-up event: the simulation ends (or moves on)
    and the task never completes — whereas with the repaired `next` it fires at 10. -/
theorem orig_next_strands_timer_witness :
    HasEntry (stepWith nextOrig {} f3Event).1.pending 10 ⟨1, 0⟩ ∧
    (stepWith nextOrig {} f3Event).1.wakeups = [] ∧
    (stepEv {} f3Event).1.wakeups = [10] := by
  refine ⟨⟨⟨10, [⟨1, 0⟩]⟩, by decide, rfl, by decide⟩, by decide, by decide⟩

/-- the same at script level (the minimal failing input of the real code, corpus/C05): one task
    running `timeout(5, sleep(1)); sleep(10)`.  Original `next`: the run ends after the observations
    at time 1, the second sleep never completes and WakeInv is violated on the way; repaired `next`:
    it completes at 11. -/
def f3Prog : List (List (List (Nat × Fut))) := [[[(0, .timeout 5 (.sleep 1)), (1, .sleep 10)]]]

theorem orig_next_script_witness :
    (Sim.run nextOrig f3Prog 100).map (fun s => (s.log.map (fun o => (o.line, o.time)), s.invOk))
      = some ([(0, 1), (0, 1)], false) ∧
    (Sim.run next f3Prog 100).map (fun s => (s.log.map (fun o => (o.line, o.time)), s.invOk))
      = some ([(0, 1), (0, 1), (1, 11)], true) := by
  constructor <;> decide

/-! ### non-vacuity -/

/-- a run of the scripted simulation that terminates within the fuel (hypothesis of the `sim_*` theorems):
    two modules, equal deadlines, a select whose loser is dropped, a reset, a restart -/
example : (Sim.run next
    [[[(0, .select (.sleep 5) (.sleep 3)), (1, .sleep 5)], [(2, .new "x" 5), (3, .pollOnce "x"), (4, .reset "x" 2), (5, .await "x")]],
     [[(6, .sleep 3), (7, .restart 4), (8, .sleep 9)]]] 100).isSome = true := by decide


/-- a state with an emptied front slot before a live one, two entries with equal deadlines and a
    stale later wake-up satisfies WakeInv … -/
def exState : State :=
  { pending := [⟨5, []⟩, ⟨10, [⟨1, 0⟩, ⟨2, 1⟩]⟩, ⟨30, [⟨3, 2⟩]⟩], nextWakeup := 10, wakeups := [40, 10] }

example : WakeInv 3 exState := by
  refine ⟨(by unfold Sorted; decide), ?_, ?_, ?_, ?_⟩
  · intro s hs hne
    simp only [exState, List.mem_cons, List.not_mem_nil, or_false] at hs
    rcases hs with rfl | rfl | rfl
    · exact absurd rfl hne
    · decide
    · decide
  · intro _; decide
  · intro s hs hne
    simp only [exState, List.mem_cons, List.not_mem_nil, or_false] at hs
    rcases hs with rfl | rfl | rfl
    · exact absurd rfl hne
    · decide
    · decide
  · decide

/-- … an admissible event on it: the wake-up at 10 with a reset to the past, a drop and a new registration -/
def exEv : Ev := { time := 10, wake := true, ops := [.reset 30 3 2, .register 12 4 0, .remove 12 4] }

example : EvOk exState exEv := ⟨by decide, by decide⟩
example : HasEntry exState.pending 10 ⟨2, 1⟩ := ⟨⟨10, [⟨1, 0⟩, ⟨2, 1⟩]⟩, by decide, rfl, by decide⟩
example : (stepEv exState exEv).2 = [⟨1, 0⟩, ⟨2, 1⟩] := by decide
example : Consistent exState [exEv, { time := 40, wake := true, ops := [] }] := by
  refine ⟨⟨by decide, by decide⟩, ⟨by decide, by decide⟩, trivial⟩
example : Keeps 2 10 [exEv, { time := 40, wake := true, ops := [] }] := by
  intro ev hev
  simp only [List.mem_cons, List.not_mem_nil, or_false] at hev
  rcases hev with rfl | rfl <;> exact ⟨by decide, by decide⟩
example : (runEvs exState [exEv, { time := 40, wake := true, ops := [] }]).1.wakeups = [] := by decide
example : Timeout.run ⟨0, 10, none⟩ 0 [(0, false), (4, false), (10, true)] = some (10, true) := by decide
example : Timeout.run ⟨0, 10, none⟩ 0 [(0, false), (10, false), (12, true)] = some (10, false) := by decide
example : Interval.ticks ⟨⟨0, 0, none⟩, 10, .burst⟩ 0 [0, 10, 45, 45, 45, 50] = [0, 10, 20, 30, 40, 50] := by decide
example : (Interval.mk ⟨0, 20000000, none⟩ 10000000 .skip).nextDeadline 20000000 45000000 = 50000000 := by decide

end C05
